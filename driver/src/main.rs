// iggy-facts: rustc_private driver that dumps MIR + item facts of the workspace crates as JSON lines.
// Used as RUSTC_WORKSPACE_WRAPPER (argv[1] = path of the real rustc, dropped).
// Env: VERIF_FACTS_DIR = output directory, VERIF_CRATES = comma separated crate names to dump.
#![feature(rustc_private)]
#![allow(clippy::all)]

extern crate rustc_abi;
extern crate rustc_data_structures;
extern crate rustc_driver;
extern crate rustc_hir;
extern crate rustc_index;
extern crate rustc_interface;
extern crate rustc_middle;
extern crate rustc_session;
extern crate rustc_span;

use std::cell::Cell;
use std::fmt::Write as _;
use std::sync::Mutex;

use rustc_driver::Compilation;
use rustc_hir::def::DefKind;
use rustc_hir::def_id::{DefId, LocalDefId, LOCAL_CRATE};
use rustc_middle::mir::{
    self, AggregateKind, BasicBlock, Body, BorrowKind, Operand, Place, PlaceElem, Rvalue, StatementKind,
    TerminatorKind, UnwindAction,
};
use rustc_middle::ty::print::{with_crate_prefix, with_no_trimmed_paths as wntp};

macro_rules! with_no_trimmed_paths {
    ($e:expr) => {
        with_crate_prefix!(wntp!($e))
    };
}
use rustc_middle::ty::{self, Instance, Ty, TyCtxt, TypingEnv};
use rustc_span::{ExpnKind, Span};

static LINES: Mutex<Vec<String>> = Mutex::new(Vec::new());

type BorrowckFn = for<'tcx> fn(
    TyCtxt<'tcx>,
    LocalDefId,
) -> Result<
    &'tcx rustc_data_structures::fx::FxIndexMap<LocalDefId, ty::DefinitionSiteHiddenType<'tcx>>,
    rustc_span::ErrorGuaranteed,
>;

thread_local! { static ORIG: Cell<Option<BorrowckFn>> = const { Cell::new(None) }; }
static ORIG_G: Mutex<Option<BorrowckFn>> = Mutex::new(None);

fn esc(s: &str) -> String {
    let mut o = String::with_capacity(s.len() + 2);
    o.push('"');
    for c in s.chars() {
        match c {
            '"' => o.push_str("\\\""),
            '\\' => o.push_str("\\\\"),
            '\n' => o.push_str("\\n"),
            '\r' => o.push_str("\\r"),
            '\t' => o.push_str("\\t"),
            c if (c as u32) < 0x20 => {
                let _ = write!(o, "\\u{:04x}", c as u32);
            }
            c => o.push(c),
        }
    }
    o.push('"');
    o
}

fn trunc(s: String, n: usize) -> String {
    if s.len() <= n {
        s
    } else {
        let mut k = n;
        while !s.is_char_boundary(k) {
            k -= 1;
        }
        format!("{}…", &s[..k])
    }
}

fn ty_str<'tcx>(ty: Ty<'tcx>) -> String {
    trunc(with_no_trimmed_paths!(format!("{}", ty)), 400)
}

/// canonical, refactoring-stable name of a definition
fn canon<'tcx>(tcx: TyCtxt<'tcx>, did: DefId) -> String {
    let kind = tcx.def_kind(did);
    match kind {
        DefKind::Closure | DefKind::InlineConst | DefKind::SyntheticCoroutineBody | DefKind::AnonConst => {
            let parent = tcx.parent(did);
            let key = tcx.def_key(did);
            let tag = match kind {
                DefKind::Closure => "closure",
                DefKind::SyntheticCoroutineBody => "synthetic",
                DefKind::InlineConst => "inline_const",
                _ => "anon_const",
            };
            return format!("{}::{{{}#{}}}", canon(tcx, parent), tag, key.disambiguated_data.disambiguator);
        }
        _ => {}
    }
    if matches!(kind, DefKind::AssocFn | DefKind::AssocConst { .. } | DefKind::AssocTy) {
        let parent = tcx.parent(did);
        let name = tcx.item_name(did);
        match tcx.def_kind(parent) {
            DefKind::Impl { of_trait } => {
                let self_ty = tcx.type_of(parent).instantiate_identity().skip_norm_wip();
                let self_s = match self_ty.kind() {
                    ty::Adt(adt, _) => with_no_trimmed_paths!(tcx.def_path_str(adt.did())),
                    _ => ty_str(self_ty),
                };
                if of_trait {
                    let tr = tcx.impl_trait_ref(parent).instantiate_identity().skip_norm_wip();
                    let tr_s = with_no_trimmed_paths!(tcx.def_path_str(tr.def_id));
                    return format!("<{} as {}>::{}", self_s, tr_s, name);
                }
                return format!("{}::{}", self_s, name);
            }
            DefKind::Trait => {
                return format!("{}::{}", with_no_trimmed_paths!(tcx.def_path_str(parent)), name);
            }
            _ => {}
        }
    }
    with_no_trimmed_paths!(tcx.def_path_str(did))
}

fn span_tag(span: Span) -> String {
    if !span.from_expansion() {
        return String::new();
    }
    let data = span.ctxt().outer_expn_data();
    match data.kind {
        ExpnKind::Macro(_, name) => format!("m:{}", name),
        ExpnKind::Desugaring(k) => format!("d:{:?}", k),
        ExpnKind::AstPass(_) => "a".to_string(),
        ExpnKind::Root => String::new(),
    }
}

struct Ctx<'a, 'tcx> {
    tcx: TyCtxt<'tcx>,
    body: &'a Body<'tcx>,
    def: LocalDefId,
    file: String,
}

impl<'a, 'tcx> Ctx<'a, 'tcx> {
    fn loc(&self, span: Span) -> (String, usize) {
        // use the call-site of macro expansions so that the line is in user code
        let sp = span.source_callsite();
        let sm = self.tcx.sess.source_map();
        let lo = sm.lookup_char_pos(sp.lo());
        let f = match &lo.file.name {
            rustc_span::FileName::Real(r) => match r.local_path() {
                Some(p) => p.to_string_lossy().to_string(),
                None => format!("{:?}", lo.file.name),
            },
            other => format!("{:?}", other),
        };
        (f, lo.line)
    }

    fn span_json(&self, span: Span) -> String {
        let (f, l) = self.loc(span);
        let tag = span_tag(span);
        let mut o = String::new();
        if f == self.file {
            let _ = write!(o, "\"ln\":{}", l);
        } else {
            let _ = write!(o, "\"ln\":{},\"file\":{}", l, esc(&f));
        }
        if !tag.is_empty() {
            let _ = write!(o, ",\"x\":{}", esc(&tag));
        }
        o
    }

    fn place(&self, p: &Place<'tcx>) -> String {
        let tcx = self.tcx;
        let mut o = String::new();
        let _ = write!(o, "[{}", p.local.as_usize());
        let mut pty = mir::PlaceTy::from_ty(self.body.local_decls[p.local].ty);
        for elem in p.projection.iter() {
            o.push(',');
            match elem {
                PlaceElem::Deref => o.push_str("\"*\""),
                PlaceElem::Field(f, _fty) => {
                    let (owner, fname) = match pty.ty.kind() {
                        ty::Adt(adt, _) => {
                            let v = match pty.variant_index {
                                Some(v) => v,
                                None => rustc_abi::FIRST_VARIANT,
                            };
                            let vd = adt.variant(v);
                            let fname = vd.fields[f].name.to_string();
                            let mut owner = with_no_trimmed_paths!(tcx.def_path_str(adt.did()));
                            if adt.is_enum() {
                                owner = format!("{}::{}", owner, vd.name);
                            }
                            (owner, fname)
                        }
                        ty::Tuple(_) => ("()".to_string(), format!("{}", f.as_usize())),
                        ty::Closure(d, _) | ty::Coroutine(d, _) | ty::CoroutineClosure(d, _) => {
                            let name = d
                                .as_local()
                                .and_then(|ld| {
                                    tcx.closure_captures(ld).get(f.as_usize()).map(|c| c.to_symbol().to_string())
                                })
                                .unwrap_or_else(|| format!("{}", f.as_usize()));
                            ("{env}".to_string(), name)
                        }
                        _ => ("?".to_string(), format!("{}", f.as_usize())),
                    };
                    let _ = write!(o, "[\".\",{},{}]", esc(&owner), esc(&fname));
                }
                PlaceElem::Index(l) => {
                    let _ = write!(o, "[\"[]\",{}]", l.as_usize());
                }
                PlaceElem::ConstantIndex { offset, from_end, .. } => {
                    let _ = write!(o, "[\"[c]\",{},{}]", offset, from_end);
                }
                PlaceElem::Subslice { from, to, from_end } => {
                    let _ = write!(o, "[\"[..]\",{},{},{}]", from, to, from_end);
                }
                PlaceElem::Downcast(name, idx) => {
                    let n = name.map(|s| s.to_string()).unwrap_or_else(|| format!("{}", idx.as_usize()));
                    let _ = write!(o, "[\"as\",{},{}]", esc(&n), idx.as_usize());
                }
                PlaceElem::OpaqueCast(_) => o.push_str("\"opq\""),
                PlaceElem::UnwrapUnsafeBinder(_) => o.push_str("\"unb\""),
            }
            pty = pty.projection_ty(tcx, elem);
        }
        o.push(']');
        o
    }

    fn constant(&self, c: &mir::ConstOperand<'tcx>) -> String {
        let tcx = self.tcx;
        let ty = c.const_.ty();
        match ty.kind() {
            ty::FnDef(did, args) => {
                return format!(
                    "{{\"fn\":{},\"gen\":{}}}",
                    esc(&canon(tcx, *did)),
                    esc(&trunc(with_no_trimmed_paths!(format!("{:?}", args)), 300))
                );
            }
            _ => {}
        }
        let tys = ty_str(ty);
        let env = TypingEnv::post_analysis(tcx, self.def);
        if ty.is_integral() || ty.is_bool() || ty.is_char() {
            if let Some(si) = c.const_.try_eval_scalar_int(tcx, env) {
                let size = si.size();
                let v: String = if ty.is_signed() {
                    format!("{}", si.to_int(size))
                } else {
                    format!("{}", si.to_uint(size))
                };
                return format!("{{\"k\":{},\"ty\":{}}}", esc(&v), esc(&tys));
            }
        }
        // named const item?
        let named = match c.const_ {
            mir::Const::Unevaluated(uv, _) => Some(canon(tcx, uv.def)),
            _ => None,
        };
        let repr = trunc(with_no_trimmed_paths!(format!("{}", c.const_)), 200);
        match named {
            Some(n) => format!("{{\"k\":{},\"ty\":{},\"item\":{}}}", esc(&repr), esc(&tys), esc(&n)),
            None => format!("{{\"k\":{},\"ty\":{}}}", esc(&repr), esc(&tys)),
        }
    }

    fn operand(&self, op: &Operand<'tcx>) -> String {
        match op {
            Operand::Copy(p) => format!("{{\"c\":{}}}", self.place(p)),
            Operand::Move(p) => format!("{{\"m\":{}}}", self.place(p)),
            Operand::Constant(c) => self.constant(c),
            _ => "{\"k\":\"runtime_checks\",\"ty\":\"bool\"}".to_string(),
        }
    }

    fn rvalue(&self, rv: &Rvalue<'tcx>) -> String {
        let tcx = self.tcx;
        match rv {
            Rvalue::Use(op, ..) => format!("{{\"r\":\"use\",\"a\":{}}}", self.operand(op)),
            Rvalue::Repeat(op, _) => format!("{{\"r\":\"repeat\",\"a\":{}}}", self.operand(op)),
            Rvalue::Ref(_, bk, p) => {
                let m = match bk {
                    BorrowKind::Shared => "shared",
                    BorrowKind::Fake(_) => "fake",
                    BorrowKind::Mut { .. } => "mut",
                };
                format!("{{\"r\":\"ref\",\"m\":\"{}\",\"p\":{}}}", m, self.place(p))
            }
            Rvalue::ThreadLocalRef(_) => "{\"r\":\"tls\"}".to_string(),
            Rvalue::RawPtr(_, p) => format!("{{\"r\":\"rawptr\",\"p\":{}}}", self.place(p)),
            Rvalue::Cast(kind, op, ty) => format!(
                "{{\"r\":\"cast\",\"kind\":{},\"a\":{},\"ty\":{}}}",
                esc(&trunc(format!("{:?}", kind), 60)),
                self.operand(op),
                esc(&ty_str(*ty))
            ),
            Rvalue::BinaryOp(op, ab) => format!(
                "{{\"r\":\"bin\",\"op\":\"{:?}\",\"a\":{},\"b\":{}}}",
                op,
                self.operand(&ab.0),
                self.operand(&ab.1)
            ),
            Rvalue::UnaryOp(op, a) => format!("{{\"r\":\"un\",\"op\":\"{:?}\",\"a\":{}}}", op, self.operand(a)),
            Rvalue::Discriminant(p) => format!("{{\"r\":\"discr\",\"p\":{},\"ty\":{}}}", self.place(p), esc(&ty_str(p.ty(self.body, tcx).ty))),
            Rvalue::Aggregate(kind, fields) => {
                let mut o = String::from("{\"r\":\"agg\"");
                match &**kind {
                    AggregateKind::Array(_) => o.push_str(",\"kind\":\"array\""),
                    AggregateKind::Tuple => o.push_str(",\"kind\":\"tuple\""),
                    AggregateKind::Adt(did, vidx, _, _, active) => {
                        let adt = tcx.adt_def(*did);
                        let vd = adt.variant(*vidx);
                        let _ = write!(
                            o,
                            ",\"kind\":\"adt\",\"adt\":{},\"variant\":{}",
                            esc(&with_no_trimmed_paths!(tcx.def_path_str(*did))),
                            esc(&vd.name.to_string())
                        );
                        o.push_str(",\"names\":[");
                        if let Some(a) = active {
                            o.push_str(&esc(&vd.fields[*a].name.to_string()));
                        } else {
                            for (i, f) in vd.fields.iter().enumerate() {
                                if i > 0 {
                                    o.push(',');
                                }
                                o.push_str(&esc(&f.name.to_string()));
                            }
                        }
                        o.push(']');
                    }
                    AggregateKind::Closure(did, _) => {
                        let _ = write!(o, ",\"kind\":\"closure\",\"def\":{}", esc(&canon(tcx, *did)));
                        self.capture_names(&mut o, *did);
                    }
                    AggregateKind::Coroutine(did, _) => {
                        let _ = write!(o, ",\"kind\":\"coroutine\",\"def\":{}", esc(&canon(tcx, *did)));
                        self.capture_names(&mut o, *did);
                    }
                    AggregateKind::CoroutineClosure(did, _) => {
                        let _ = write!(o, ",\"kind\":\"coroutine_closure\",\"def\":{}", esc(&canon(tcx, *did)));
                        self.capture_names(&mut o, *did);
                    }
                    AggregateKind::RawPtr(..) => o.push_str(",\"kind\":\"rawptr\""),
                }
                o.push_str(",\"ops\":[");
                for (i, f) in fields.iter().enumerate() {
                    if i > 0 {
                        o.push(',');
                    }
                    o.push_str(&self.operand(f));
                }
                o.push_str("]}");
                o
            }
            Rvalue::CopyForDeref(p) => format!("{{\"r\":\"use\",\"a\":{{\"c\":{}}}}}", self.place(p)),
            Rvalue::WrapUnsafeBinder(op, _) => format!("{{\"r\":\"use\",\"a\":{}}}", self.operand(op)),
        }
    }

    fn capture_names(&self, o: &mut String, did: DefId) {
        if let Some(ld) = did.as_local() {
            o.push_str(",\"names\":[");
            for (i, c) in self.tcx.closure_captures(ld).iter().enumerate() {
                if i > 0 {
                    o.push(',');
                }
                o.push_str(&esc(&c.to_symbol().to_string()));
            }
            o.push(']');
        }
    }

    fn bb(b: BasicBlock) -> usize {
        b.as_usize()
    }

    fn unwind(u: &UnwindAction) -> String {
        match u {
            UnwindAction::Cleanup(b) => format!("{}", b.as_usize()),
            _ => "null".to_string(),
        }
    }

    fn terminator(&self, t: &mir::Terminator<'tcx>) -> String {
        let tcx = self.tcx;
        let sp = self.span_json(t.source_info.span);
        match &t.kind {
            TerminatorKind::Goto { target } => format!("{{\"t\":\"goto\",\"to\":{},{}}}", Self::bb(*target), sp),
            TerminatorKind::SwitchInt { discr, targets } => {
                let mut o = format!("{{\"t\":\"switch\",\"op\":{},\"ty\":{},\"arms\":[", self.operand(discr), esc(&ty_str(discr.ty(self.body, tcx))));
                for (i, (v, b)) in targets.iter().enumerate() {
                    if i > 0 {
                        o.push(',');
                    }
                    let _ = write!(o, "[{},{}]", v, Self::bb(b));
                }
                let _ = write!(o, "],\"else\":{},{}}}", Self::bb(targets.otherwise()), sp);
                o
            }
            TerminatorKind::UnwindResume => format!("{{\"t\":\"resume\",{}}}", sp),
            TerminatorKind::UnwindTerminate(_) => format!("{{\"t\":\"abort\",{}}}", sp),
            TerminatorKind::Return => format!("{{\"t\":\"return\",{}}}", sp),
            TerminatorKind::Unreachable => format!("{{\"t\":\"unreachable\",{}}}", sp),
            TerminatorKind::Drop { place, target, unwind, .. } => {
                let pty = place.ty(self.body, tcx).ty;
                format!(
                    "{{\"t\":\"drop\",\"p\":{},\"ty\":{},\"to\":{},\"unwind\":{},{}}}",
                    self.place(place),
                    esc(&ty_str(pty)),
                    Self::bb(*target),
                    Self::unwind(unwind),
                    sp
                )
            }
            TerminatorKind::Call { func, args, destination, target, unwind, fn_span, .. } => {
                let mut o = String::from("{\"t\":\"call\"");
                let fty = func.ty(self.body, tcx);
                match fty.kind() {
                    ty::FnDef(did, gargs) => {
                        let _ = write!(o, ",\"fn\":{}", esc(&canon(tcx, *did)));
                        let _ = write!(o, ",\"krate\":{}", esc(&tcx.crate_name(did.krate).to_string()));
                        let gs = trunc(with_no_trimmed_paths!(format!("{:?}", gargs)), 300);
                        if gs != "[]" {
                            let _ = write!(o, ",\"gen\":{}", esc(&gs));
                        }
                        let env = TypingEnv::post_analysis(tcx, self.def);
                        let has_params = gargs.iter().any(|a| {
                            use rustc_middle::ty::TypeVisitableExt;
                            a.has_non_region_param() || a.has_aliases() && false
                        });
                        let _ = has_params;
                        if let Ok(Some(inst)) = std::panic::catch_unwind(std::panic::AssertUnwindSafe(|| {
                            Instance::try_resolve(tcx, env, *did, gargs).ok().flatten()
                        })) {
                            let rd = inst.def_id();
                            if rd != *did {
                                let _ = write!(o, ",\"res\":{}", esc(&canon(tcx, rd)));
                                let _ = write!(o, ",\"rkrate\":{}", esc(&tcx.crate_name(rd.krate).to_string()));
                            }
                            match inst.def {
                                ty::InstanceKind::Item(_) => {}
                                ty::InstanceKind::Virtual(..) => o.push_str(",\"virt\":true"),
                                ty::InstanceKind::ClosureOnceShim { .. }
                                | ty::InstanceKind::FnPtrShim(..)
                                | ty::InstanceKind::ReifyShim(..) => o.push_str(",\"shim\":true"),
                                _ => {}
                            }
                        } else if tcx.trait_of_assoc(*did).is_some() {
                            o.push_str(",\"unres\":true");
                        }
                    }
                    _ => {
                        let _ = write!(o, ",\"fnop\":{},\"fnty\":{}", self.operand(func), esc(&ty_str(fty)));
                    }
                }
                o.push_str(",\"args\":[");
                for (i, a) in args.iter().enumerate() {
                    if i > 0 {
                        o.push(',');
                    }
                    o.push_str(&self.operand(&a.node));
                }
                let _ = write!(o, "],\"dest\":{}", self.place(destination));
                let _ = write!(o, ",\"dty\":{}", esc(&ty_str(destination.ty(self.body, tcx).ty)));
                match target {
                    Some(b) => {
                        let _ = write!(o, ",\"to\":{}", Self::bb(*b));
                    }
                    None => o.push_str(",\"to\":null"),
                }
                let _ = write!(o, ",\"unwind\":{}", Self::unwind(unwind));
                let _ = write!(o, ",{}", self.span_json(*fn_span));
                o.push('}');
                o
            }
            TerminatorKind::TailCall { .. } => format!("{{\"t\":\"tailcall\",{}}}", sp),
            TerminatorKind::Assert { cond, expected, msg, target, unwind } => {
                let kind = match &**msg {
                    mir::AssertKind::BoundsCheck { .. } => "bounds".to_string(),
                    mir::AssertKind::Overflow(op, ..) => format!("overflow:{:?}", op),
                    mir::AssertKind::OverflowNeg(_) => "overflow:Neg".to_string(),
                    mir::AssertKind::DivisionByZero(_) => "div0".to_string(),
                    mir::AssertKind::RemainderByZero(_) => "rem0".to_string(),
                    _ => "other".to_string(),
                };
                format!(
                    "{{\"t\":\"assert\",\"cond\":{},\"expected\":{},\"kind\":{},\"to\":{},\"unwind\":{},{}}}",
                    self.operand(cond),
                    expected,
                    esc(&kind),
                    Self::bb(*target),
                    Self::unwind(unwind),
                    sp
                )
            }
            TerminatorKind::Yield { value, resume, resume_arg, drop } => format!(
                "{{\"t\":\"yield\",\"val\":{},\"to\":{},\"resume_arg\":{},\"drop\":{},{}}}",
                self.operand(value),
                Self::bb(*resume),
                self.place(resume_arg),
                drop.map(|b| format!("{}", b.as_usize())).unwrap_or_else(|| "null".to_string()),
                sp
            ),
            TerminatorKind::CoroutineDrop => format!("{{\"t\":\"codrop\",{}}}", sp),
            TerminatorKind::FalseEdge { real_target, imaginary_target } => format!(
                "{{\"t\":\"goto\",\"to\":{},\"false_edge\":{},{}}}",
                Self::bb(*real_target),
                Self::bb(*imaginary_target),
                sp
            ),
            TerminatorKind::FalseUnwind { real_target, .. } => {
                format!("{{\"t\":\"goto\",\"to\":{},\"loop_head\":true,{}}}", Self::bb(*real_target), sp)
            }
            TerminatorKind::InlineAsm { .. } => format!("{{\"t\":\"asm\",{}}}", sp),
        }
    }
}

fn dump_body<'tcx>(tcx: TyCtxt<'tcx>, def: LocalDefId, root: LocalDefId, body: &Body<'tcx>) -> String {
    let did = def.to_def_id();
    let sm = tcx.sess.source_map();
    let bspan = body.span;
    let lo = sm.lookup_char_pos(bspan.source_callsite().lo());
    let file = match &lo.file.name {
        rustc_span::FileName::Real(r) => match r.local_path() {
            Some(p) => p.to_string_lossy().to_string(),
            None => format!("{:?}", lo.file.name),
        },
        other => format!("{:?}", other),
    };
    let cx = Ctx { tcx, body, def, file: file.clone() };
    let mut o = String::with_capacity(16 * 1024);
    let _ = write!(o, "{{\"rec\":\"body\",\"def\":{}", esc(&canon(tcx, did)));
    let _ = write!(o, ",\"root\":{}", esc(&canon(tcx, root.to_def_id())));
    let _ = write!(o, ",\"kind\":{}", esc(&format!("{:?}", tcx.def_kind(did))));
    let _ = write!(o, ",\"file\":{},\"line\":{}", esc(&file), lo.line);
    let _ = write!(o, ",\"argc\":{}", body.arg_count);
    if let Some(ck) = tcx.coroutine_kind(did) {
        let _ = write!(o, ",\"coroutine\":{}", esc(&format!("{:?}", ck)));
    }
    let m = tcx.parent_module_from_def_id(def);
    let _ = write!(o, ",\"mod\":{}", esc(&with_no_trimmed_paths!(tcx.def_path_str(m.to_def_id()))));
    o.push_str(",\"locals\":[");
    for (i, (_l, d)) in body.local_decls.iter_enumerated().enumerate() {
        if i > 0 {
            o.push(',');
        }
        o.push_str(&esc(&ty_str(d.ty)));
    }
    o.push_str("],\"vars\":[");
    let mut first = true;
    for vdi in body.var_debug_info.iter() {
        let v = match &vdi.value {
            mir::VarDebugInfoContents::Place(p) => cx.place(p),
            mir::VarDebugInfoContents::Const(_) => continue,
        };
        if !first {
            o.push(',');
        }
        first = false;
        let _ = write!(o, "[{},{}]", esc(&vdi.name.to_string()), v);
    }
    o.push_str("],\"blocks\":[");
    for (bi, (_bb, data)) in body.basic_blocks.iter_enumerated().enumerate() {
        if bi > 0 {
            o.push(',');
        }
        o.push_str("{\"s\":[");
        let mut firsts = true;
        for st in data.statements.iter() {
            let s = match &st.kind {
                StatementKind::Assign(b) => {
                    let (p, rv) = &**b;
                    format!("{{\"lhs\":{},\"rv\":{},{}}}", cx.place(p), cx.rvalue(rv), cx.span_json(st.source_info.span))
                }
                StatementKind::SetDiscriminant { place, variant_index } => format!(
                    "{{\"setdiscr\":{},\"v\":{},{}}}",
                    cx.place(place),
                    variant_index.as_usize(),
                    cx.span_json(st.source_info.span)
                ),
                _ => continue,
            };
            if !firsts {
                o.push(',');
            }
            firsts = false;
            o.push_str(&s);
        }
        o.push(']');
        if data.is_cleanup {
            o.push_str(",\"cleanup\":true");
        }
        if let Some(t) = &data.terminator {
            let _ = write!(o, ",\"term\":{}", cx.terminator(t));
        }
        o.push('}');
    }
    o.push_str("]}");
    o
}

fn my_borrowck<'tcx>(
    tcx: TyCtxt<'tcx>,
    def: LocalDefId,
) -> Result<
    &'tcx rustc_data_structures::fx::FxIndexMap<LocalDefId, ty::DefinitionSiteHiddenType<'tcx>>,
    rustc_span::ErrorGuaranteed,
> {
    let mut out: Vec<String> = Vec::new();
    let mut defs: Vec<LocalDefId> = vec![def];
    for n in tcx.nested_bodies_within(def).iter() {
        defs.push(n);
    }
    for d in defs {
        let (body_steal, _promoted) = tcx.mir_promoted(d);
        if body_steal.is_stolen() {
            out.push(format!("{{\"rec\":\"stolen\",\"def\":{}}}", esc(&canon(tcx, d.to_def_id()))));
            continue;
        }
        let body = body_steal.borrow();
        out.push(dump_body(tcx, d, def, &body));
    }
    LINES.lock().unwrap().extend(out);
    let orig = ORIG_G.lock().unwrap().expect("orig provider");
    orig(tcx, def)
}

fn dump_items<'tcx>(tcx: TyCtxt<'tcx>) -> Vec<String> {
    let mut out = Vec::new();
    let items = tcx.hir_crate_items(());
    for ld in items.definitions() {
        let did = ld.to_def_id();
        let kind = tcx.def_kind(did);
        match kind {
            DefKind::Fn | DefKind::AssocFn => {
                let sig = tcx.fn_sig(did).instantiate_identity().skip_norm_wip().skip_binder();
                let mut o = String::new();
                let _ = write!(o, "{{\"rec\":\"fn\",\"def\":{}", esc(&canon(tcx, did)));
                let _ = write!(o, ",\"kind\":{}", esc(&format!("{:?}", kind)));
                let vis = tcx.visibility(did);
                let _ = write!(o, ",\"pub\":{}", vis.is_public());
                let m = tcx.parent_module_from_def_id(ld);
                let _ = write!(o, ",\"mod\":{}", esc(&with_no_trimmed_paths!(tcx.def_path_str(m.to_def_id()))));
                o.push_str(",\"params\":[");
                for (i, t) in sig.inputs().iter().enumerate() {
                    if i > 0 {
                        o.push(',');
                    }
                    o.push_str(&esc(&ty_str(*t)));
                }
                let _ = write!(o, "],\"ret\":{}", esc(&ty_str(sig.output())));
                let _ = write!(o, ",\"async\":{}", tcx.asyncness(did).is_async());
                let has_body = tcx.hir_maybe_body_owned_by(ld).is_some();
                let _ = write!(o, ",\"has_body\":{}", has_body);
                if has_body {
                    let names: Vec<String> = tcx
                        .fn_arg_idents(did)
                        .iter()
                        .map(|i| i.map(|x| x.name.to_string()).unwrap_or_else(|| "_".to_string()))
                        .collect();
                    o.push_str(",\"pnames\":[");
                    for (i, n) in names.iter().enumerate() {
                        if i > 0 {
                            o.push(',');
                        }
                        o.push_str(&esc(n));
                    }
                    o.push(']');
                }
                let sp = tcx.def_span(did);
                let lo = tcx.sess.source_map().lookup_char_pos(sp.lo());
                let _ = write!(o, ",\"file\":{},\"line\":{}", esc(&format!("{}", lo.file.name.prefer_local_unconditionally())), lo.line);
                o.push('}');
                out.push(o);
            }
            DefKind::Struct | DefKind::Enum | DefKind::Union => {
                let adt = tcx.adt_def(did);
                let mut o = String::new();
                let _ = write!(o, "{{\"rec\":\"adt\",\"def\":{},\"kind\":{}", esc(&with_no_trimmed_paths!(tcx.def_path_str(did))), esc(&format!("{:?}", kind)));
                o.push_str(",\"variants\":[");
                for (vi, v) in adt.variants().iter().enumerate() {
                    if vi > 0 {
                        o.push(',');
                    }
                    let _ = write!(o, "{{\"name\":{}", esc(&v.name.to_string()));
                    if adt.is_enum() {
                        let d = adt.discriminant_for_variant(tcx, rustc_abi::VariantIdx::from_usize(vi));
                        let _ = write!(o, ",\"discr\":{}", esc(&format!("{}", d.val)));
                    }
                    o.push_str(",\"fields\":[");
                    for (fi, f) in v.fields.iter().enumerate() {
                        if fi > 0 {
                            o.push(',');
                        }
                        let fty = tcx.type_of(f.did).instantiate_identity().skip_norm_wip();
                        let _ = write!(
                            o,
                            "[{},{},{}]",
                            esc(&f.name.to_string()),
                            esc(&ty_str(fty)),
                            f.vis.is_public()
                        );
                    }
                    o.push_str("]}");
                }
                o.push_str("]}");
                out.push(o);
            }
            DefKind::Const { .. } | DefKind::AssocConst { .. } => {
                let ty = tcx.type_of(did).instantiate_identity().skip_norm_wip();
                if !(ty.is_integral() || ty.is_bool()) {
                    continue;
                }
                if tcx.generics_of(did).requires_monomorphization(tcx) {
                    continue;
                }
                if matches!(kind, DefKind::AssocConst { .. }) {
                    // skip trait-level defaults without a value
                    let parent = tcx.parent(did);
                    if matches!(tcx.def_kind(parent), DefKind::Trait) {
                        continue;
                    }
                }
                let val = match tcx.const_eval_poly(did) {
                    Ok(v) => v,
                    Err(_) => continue,
                };
                let si = match val.try_to_scalar_int() {
                    Some(s) => s,
                    None => continue,
                };
                let size = si.size();
                let v = if ty.is_signed() { format!("{}", si.to_int(size)) } else { format!("{}", si.to_uint(size)) };
                out.push(format!(
                    "{{\"rec\":\"const\",\"def\":{},\"ty\":{},\"val\":{}}}",
                    esc(&canon(tcx, did)),
                    esc(&ty_str(ty)),
                    esc(&v)
                ));
            }
            _ => {}
        }
    }
    out
}

fn fix_crate(l: &str, krate: &str) -> String {
    let b = l.as_bytes();
    let pat = b"crate::";
    let mut o = String::with_capacity(l.len() + 64);
    let mut i = 0;
    let mut last = 0;
    while i + pat.len() <= b.len() {
        if &b[i..i + pat.len()] == pat {
            let prev_ok = i == 0 || !(b[i - 1].is_ascii_alphanumeric() || b[i - 1] == b'_');
            if prev_ok {
                o.push_str(&l[last..i]);
                o.push_str(krate);
                o.push_str("::");
                i += pat.len();
                last = i;
                continue;
            }
        }
        i += 1;
    }
    o.push_str(&l[last..]);
    o
}

struct Cb;

impl rustc_driver::Callbacks for Cb {
    fn config(&mut self, config: &mut rustc_interface::Config) {
        config.override_queries = Some(|_sess, providers| {
            *ORIG_G.lock().unwrap() = Some(providers.queries.mir_borrowck);
            providers.queries.mir_borrowck = my_borrowck;
        });
    }

    fn after_analysis<'tcx>(&mut self, _compiler: &rustc_interface::interface::Compiler, tcx: TyCtxt<'tcx>) -> Compilation {
        let krate = tcx.crate_name(LOCAL_CRATE).to_string();
        let dir = std::env::var("VERIF_FACTS_DIR").expect("VERIF_FACTS_DIR");
        let mut lines = dump_items(tcx);
        let mut bodies = std::mem::take(&mut *LINES.lock().unwrap());
        let nb = bodies.iter().filter(|l| l.starts_with("{\"rec\":\"body\"")).count();
        let ns = bodies.len() - nb;
        lines.append(&mut bodies);
        let ctype = tcx.crate_types().first().map(|c| format!("{:?}", c)).unwrap_or_default();
        let head = format!(
            "{{\"rec\":\"crate\",\"name\":{},\"type\":{},\"bodies\":{},\"stolen\":{}}}",
            esc(&krate),
            esc(&ctype),
            nb,
            ns
        );
        let mut all = String::new();
        all.push_str(&head);
        all.push('\n');
        for l in lines {
            all.push_str(&fix_crate(&l, &krate));
            all.push('\n');
        }
        let path = format!("{}/{}.{}.jsonl", dir, krate, ctype.to_lowercase());
        std::fs::write(&path, all).expect("write facts");
        Compilation::Continue
    }
}

struct Plain;
impl rustc_driver::Callbacks for Plain {}

fn main() {
    let mut args: Vec<String> = std::env::args().collect();
    // RUSTC_WORKSPACE_WRAPPER: argv[1] is the rustc path
    if args.len() > 1 && (args[1].ends_with("rustc") || args[1].contains("/rustc")) {
        args.remove(1);
    }
    let wanted: Vec<String> = std::env::var("VERIF_CRATES").unwrap_or_default().split(',').map(|s| s.to_string()).collect();
    let mut crate_name = String::new();
    let mut i = 0;
    while i < args.len() {
        if args[i] == "--crate-name" && i + 1 < args.len() {
            crate_name = args[i + 1].clone();
        }
        i += 1;
    }
    let _ = ORIG.with(|c| c.get());
    if wanted.iter().any(|w| *w == crate_name) && std::env::var("VERIF_FACTS_DIR").is_ok() {
        rustc_driver::run_compiler(&args, &mut Cb);
    } else {
        rustc_driver::run_compiler(&args, &mut Plain);
    }
}
