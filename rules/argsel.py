"""Argument selection (A15): at a call between two functions of the repository, an argument that is a plain variable /
parameter / field must not carry the name of a *different* parameter of the same type while not carrying its own
(`load(end_offset, start_offset)` for `fn load(start_offset: u64, end_offset: u64)`).  The rule has no table: parameter
names and types come from the callee's signature, argument names from the canonical form of the operand at the call
site (locals are followed to the variable / field they were read from).  Today's tree has 230 comparable same-typed
pairs and no such argument; 185 pairs carry exactly the parameter names."""
import re
from lib import is_user_call
from mir import canon

SCOPE = {
    'C01': ['server::streaming::partitions', 'server::streaming::segments', 'server::streaming::batching', 'server::streaming::topics::messages', 'server::streaming::systems::messages', 'server::channels::commands::maintain_messages'],
    'C02': ['server::streaming::partitions', 'server::streaming::segments', 'server::streaming::batching', 'server::streaming::cache', 'server::streaming::polling_consumer', 'server::streaming::systems::messages', 'server::streaming::topics::messages'],
    'C03': ['server::streaming::partitions', 'server::streaming::segments', 'server::streaming::topics::storage', 'server::streaming::streams::storage', 'server::streaming::systems::system', 'server::compat'],
    'C04': ['server::streaming::partitions', 'server::streaming::segments', 'server::streaming::persistence', 'server::compat', 'server::streaming::topics::storage', 'server::streaming::streams::storage', 'server::streaming::systems::system'],
    'C05': ['server::state', 'server::binary::handlers', 'server::http', 'server::streaming::systems', 'server::streaming::streams', 'server::streaming::topics'],
    'C06': ['server::streaming::systems', 'server::streaming::streams', 'server::streaming::topics', 'server::state::system'],
    'C07': ['server::streaming::partitions::consumer_offsets', 'server::streaming::systems::consumer_offsets', 'server::streaming::topics::consumer_offsets', 'server::streaming::partitions::storage', 'server::streaming::polling_consumer', 'server::streaming::topics::consumer_groups', 'server::streaming::partitions::persistence', 'server::streaming::topics::consumer_group'],
    'C08': ['server::streaming::topics::consumer_group', 'server::streaming::systems::consumer_groups', 'server::streaming::clients', 'server::streaming::topics::consumer_groups', 'server::streaming::topics::storage', 'server::streaming::topics::consumer_offsets', 'server::streaming::topics::topic', 'server::streaming::polling_consumer'],
    'C09': ['server::streaming::users', 'server::streaming::systems', 'server::http::jwt', 'server::binary::handlers', 'server::http', 'iggy::models::permissions', 'server::state::system'],
    'C10': ['server::streaming::users', 'server::streaming::personal_access_tokens', 'server::streaming::systems::users', 'server::streaming::systems::personal_access_tokens', 'server::http::jwt', 'server::streaming::session', 'server::binary::handlers::users', 'server::binary::handlers::personal_access_tokens', 'server::http::users', 'server::http::personal_access_tokens', 'server::state::system'],
    'C11': ['server::state'],
    'C12': ['server::streaming::partitions', 'server::streaming::segments', 'server::streaming::persistence', 'server::streaming::cache', 'server::streaming::batching', 'server::streaming::topics::messages', 'server::streaming::systems::messages'],
    'C13': ['iggy::', 'server::binary', 'server::http', 'server::tcp', 'server::quic', 'server::streaming::systems::messages'],
    'C14': ['server::streaming::segments', 'server::streaming::partitions::segments', 'server::channels::commands::maintain_messages', 'server::streaming::topics', 'server::archiver', 'server::streaming::partitions::messages', 'server::streaming::streams::topics'],
    'C15': ['server::streaming::topics', 'server::streaming::streams::topics', 'server::streaming::systems::topics', 'server::channels::commands::maintain_messages', 'server::state::system', 'server::streaming::segments::segment', 'server::streaming::partitions::segments'],
    'C16': ['server::streaming::'],
    'C17': ['server::streaming::topics', 'iggy::messages', 'iggy::clients', 'server::state::system', 'server::streaming::systems::messages'],
    'C18': ['server::streaming::deduplication', 'server::streaming::partitions', 'server::streaming::batching', 'server::streaming::segments', 'server::streaming::topics::messages'],
    'C19': ['iggy::utils::crypto', 'server::streaming::systems::messages', 'server::state', 'server::streaming::systems::system', 'server::streaming::topics::messages', 'iggy::clients'],
    'C20': ['iggy::clients', 'iggy::messages'],
}


FLOORS = {'C01': 66, 'C02': 80, 'C03': 160, 'C04': 62, 'C05': 100, 'C06': 126, 'C07': 23, 'C08': 32, 'C09': 136, 'C10': 61, 'C11': 4, 'C12': 62,
          'C13': 137, 'C14': 68, 'C15': 71, 'C16': 224, 'C17': 95, 'C18': 53, 'C19': 98, 'C20': 61}   # ~80 % of the instances counted on the pinned tree


def _argname(b, c, a):
    f = canon(b.pexpr_operand(a, 0, frozenset(), (c.bb, 't')), 0, 1)
    m = re.fullmatch(r'(?:[\w\.]+\.)?(\w+)', f)
    if m:
        return m.group(1)
    m = re.search(r'\)\.(\w+)$', f)       # a field of a call result: `RwLock::read(group).group_id`
    return m.group(1) if m and not m.group(1).isdigit() else None


def in_scope(ctx, fn, prop):
    """fn (a def path) belongs to the modules of the property: by its path (`<type path>::method`) or by the module
    its impl block is written in (methods of Topic live in topics::messages, topics::consumer_groups, …)"""
    rec = ctx.facts.fns.get(fn) or {}
    mod = rec.get('mod') or ''
    f = fn.lstrip('<')
    return any(f.startswith(p) or mod.startswith(p.rstrip(':')) for p in SCOPE[prop])


ALLOW = {   # (callee short name, parameter, argument name) -> why the names differ on purpose
    ('verify_password', 'hash', 'password'): 'User.password holds the bcrypt hash of the password (the field is named after what it stands for, not after what it contains)',
}


def _same(arg, par):
    """the argument name says the same as the parameter name: equal, or one's words are among the other's
    (`start_offset` for `index_start_offset`)"""
    a, p = set(arg.strip('_').split('_')), set(par.strip('_').split('_'))
    return bool(a) and bool(p) and (a <= p or p <= a)


def sites(ctx):
    """[(caller def, call, param names, param types, argument names)] for every user call with a known signature"""
    if getattr(ctx, '_argsel', None) is None:
        out = []
        for d in sorted(ctx.facts.body_defs()):
            if not (d.startswith('server::') or d.startswith('iggy::') or d.startswith('<server::') or d.startswith('<iggy::')) or '__CALLSITE' in d:
                continue
            b = ctx.body(d)
            for c in b.calls:
                if not is_user_call(c):
                    continue
                r = ctx.facts.fns.get(c.name)
                if not r or not r.get('pnames') or len(r['pnames']) != len(c.args) or len(c.args) < 2:
                    continue
                pt = r['params']
                if len(set(pt)) == len(pt):
                    continue   # no two parameters of one type
                out.append((d, c, r['pnames'], pt, [_argname(b, c, a) for a in c.args]))
        ctx._argsel = out
    return ctx._argsel


def check(ctx, rep, prop, floor=None):
    rid = 'R%s.arg' % prop[1:]
    floor = FLOORS.get(prop) if floor is None else floor
    pre = SCOPE[prop]
    rep.rule(rid, 'argument selection: at a call between two functions of the repository, no argument carries the name of another parameter of the same type instead of its own (swapped or duplicated arguments of one type compile and change the meaning of the call); parameter names and types from the callee signature, argument names from the canonical operand', floor=floor, analysis='A15')
    n = 0
    for d, c, pn, pt, names in sites(ctx):
        key = ctx.user_fn_of(d)
        if not (in_scope(ctx, key, prop) or in_scope(ctx, c.name, prop)):
            continue
        for i in range(len(pn)):
            others = [j for j in range(len(pn)) if j != i and pt[j] == pt[i]]
            if not others or not names[i] or not pn[i]:
                continue
            bad = [j for j in others if _same(names[i], pn[j]) and not _same(names[i], pn[i])]
            if bad and (c.name.split('::')[-1], pn[i], names[i]) in ALLOW:
                bad = []
            n += 1
            rep.ob(rid, key, '%s(%s: %s)' % (c.name.split('::')[-1], pn[i], names[i]), not bad, c.where(), None if not bad else
                   'the argument for parameter `%s` of %s is `%s`, the name of its parameter `%s` of the same type (%s): the two values are exchanged or one is passed twice' % (pn[i], c.name, names[i], pn[bad[0]], pt[i]))
    return n
