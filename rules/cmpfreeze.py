"""A20 — comparisons keep their operator.  rules/cmp_frozen.json holds, for every function of server and sdk that
compares anything on the pinned tree, the canonical comparisons per operand pair (1 154 pairs in 418 functions,
tools/freeze_cmp.py).  The rule is a contradiction rule through time: where the current tree still compares the *same
two operands* in the same function, it must do so with the same operator(s) and orientation.  A pair that is gone
(refactored away, operands renamed) is silent; a new pair is silent; only a moved *boundary* is reported: `a < b` turned into `a <= b` (or
`a > b` into `a >= b`).  A comparison and its negation (`a < b` / `a >= b`, `==` / `!=`) count as the same test, because
inverting an `if` and swapping its branches is a behaviour-preserving edit this rule cannot tell from a flipped
operator; flipped equality tests are left to the per-function comparison tables of the properties, which also demand
presence and know the branch."""
import json, os
import argsel
from lib import comparison_forms

_FROZEN = None
_CASES = {'<': {'lt'}, '<=': {'lt', 'eq'}, '==': {'eq'}, '!=': {'lt', 'gt'}}
_SWAP = {'lt': 'gt', 'gt': 'lt', 'eq': 'eq'}


def signature(key, form):
    """the set of orderings of (key[0], key[1]) under which the comparison holds, identified with its complement"""
    a, b = key.split(' @@ ', 1) if ' @@ ' in key else (key, '')
    body = form[1:-1] if form.startswith('(') and form.endswith(')') else form
    for op in (' <= ', ' < ', ' == ', ' != '):
        for first, second, swapped in ((a, b, False), (b, a, True)):
            if body == first + op + second:
                cases = set(_CASES[op.strip()])
                if swapped:
                    cases = {_SWAP[c] for c in cases}
                comp = {'lt', 'eq', 'gt'} - cases
                return min(tuple(sorted(cases)), tuple(sorted(comp)))
    return ('?', form)


def frozen():
    global _FROZEN
    if _FROZEN is None:
        _FROZEN = json.load(open(os.path.join(os.path.dirname(os.path.abspath(__file__)), 'cmp_frozen.json')))
    return _FROZEN


FLOORS = {'C01': 76, 'C02': 72, 'C03': 81, 'C04': 65, 'C05': 60, 'C06': 56, 'C07': 5, 'C08': 9, 'C09': 51, 'C10': 21, 'C11': 11, 'C12': 64, 'C13': 487, 'C14': 64, 'C15': 18,
          'C16': 145, 'C17': 81, 'C18': 28, 'C19': 27, 'C20': 65}   # ~70 % of the pairs counted on the pinned tree


def check(ctx, rep, prop):
    rid = 'R%s.bound' % prop[1:]
    rep.rule(rid, 'comparisons keep their operator: where a function still compares the same two operands as on the pinned tree, the boundary has not moved (`<` not turned into `<=`, `>` not into `>=`; a test and its negation count as the same test); pairs that are gone or new are not judged', floor=FLOORS.get(prop), analysis='A20')
    n = 0
    for fn, pairs in sorted(frozen().items()):
        if not argsel.in_scope(ctx, fn, prop) or not ctx.has(fn):
            continue
        try:
            got = comparison_forms(ctx, fn)
        except Exception:
            continue
        cur = {' @@ '.join(k): sorted(v) for k, v in got.items()}
        for key, want in pairs.items():
            if key not in cur:
                continue
            n += 1
            ok = {signature(key, f) for f in cur[key]} == {signature(key, f) for f in want}
            rep.ob(rid, fn, key[:140], ok, None, None if ok else
                   'the operands `%s` and `%s` are now compared as %s (pinned tree: %s)' % (key.split(' @@ ')[0], key.split(' @@ ')[-1], cur[key], want))
    return n
