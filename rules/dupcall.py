"""A23 — sibling calls stay distinct.  Two calls to the same callee with identical arguments in one function are either a
deliberate repetition (the pinned tree has some: a lookup repeated after a mutation, the same getter in two arms) or a
copy-and-paste slip (`remove_file(&self.log_path)` twice instead of once for the log and once for the index).
rules/dupcalls_frozen.json holds, per function and callee, how many call sites share their canonical argument list with
an earlier one *that dominates them* (one after the other on the same path; the same call in two exclusive branches
is not counted) on the pinned tree (tools/freeze_dupcalls.py); the rule reports a function where that number has grown.
The same count is kept for match arms that do exactly the same (same repository calls with the same
arguments, same values built): `Consumer => Consumer::new(id), ConsumerGroup => Consumer::new(id)`.
Calls without arguments, calls inside macros and callees from the logging / formatting machinery are not counted."""
import json, os
import argsel
from lib import is_user_call
from mir import canon

_FROZEN = None
SKIP = ('::fmt', 'Arguments::new', 'Argument::new', '::clone', '::to_owned', '::to_string', '::into', '::from', '::deref', '::as_ref', '::borrow', '::unwrap', '::expect', '::branch',
        '::from_residual', '::into_future', '::poll', '::new_unchecked', '::get_context', '::next', '::into_iter', '::drop', '::default', '::len', '::is_empty', '::as_str', '::as_bytes')


def frozen():
    global _FROZEN
    if _FROZEN is None:
        _FROZEN = json.load(open(os.path.join(os.path.dirname(os.path.abspath(__file__)), 'dupcalls_frozen.json')))
    return _FROZEN


def collect(ctx):
    out = {}
    new_fns = set(getattr(ctx.facts, 'new_fns', ()) or ())
    for d in sorted(ctx.facts.body_defs()):
        if '__CALLSITE' in d or not d.lstrip('<').startswith(('server::', 'iggy::')):
            continue
        b = ctx.body(d)
        seen = {}
        for c in b.calls:
            if not is_user_call(c) or not c.args or c.name.endswith(SKIP) or c.name in new_fns:
                continue   # (a helper that did not exist on the pinned tree has no history to be compared with)
            form = ', '.join(canon(b.pexpr_operand(a, 0, frozenset(), (c.bb, 't')), 0, 2) for a in c.args)
            if len(form) < 6:
                continue
            seen.setdefault(c.name, []).append((form, c.bb))
        fn = ctx.user_fn_of(d)
        for callee, fs in seen.items():
            # a call site counts when an earlier call with the same arguments *dominates* it (one after the other on
            # the same path: a copied line); the same call in two exclusive branches does not count
            dup = 0
            for i, (f_, bb_) in enumerate(fs):
                if any(g_ == f_ and h_ != bb_ and b.dominates(h_, bb_) for g_, h_ in fs[:i] + fs[i + 1:]):
                    dup += 1
            if dup:
                out.setdefault(fn, {})
                out[fn][callee] = out[fn].get(callee, 0) + dup
        # arms of one match that do exactly the same (the same calls with the same arguments, the same values built):
        # `Consumer => Consumer::new(id), ConsumerGroup => Consumer::new(id)` — a copied arm that was not adapted
        from lib import arm_regions
        same = 0
        for bb in sorted(b.reach):
            t = b.term(bb)
            if t.get('t') != 'switch' or t.get('ty') == 'bool' or t.get('x', '').startswith('m:') or len(t.get('arms', [])) + 1 < 2:
                continue
            if b._discr_type(bb, t) is None:
                continue
            sigs = []
            for v, blocks in arm_regions(b, bb).items():
                sig = []
                for x in sorted(blocks):
                    for si, st in enumerate(b.stmts(x)):
                        rv = st.get('rv')
                        if rv and rv['r'] == 'agg' and rv.get('kind') == 'adt' and not st.get('x', '').startswith('m:') and (rv.get('adt') or '').startswith(('iggy::', 'server::')):
                            sig.append(('agg', canon(b._pexpr_rvalue(rv, 0, frozenset(), (x, si)), 0, 2)))
                    tt = b.term(x)
                    if tt.get('t') == 'call' and not tt.get('x', '').startswith('m:'):
                        nm = tt.get('res') or tt.get('fn') or ''
                        if nm.lstrip('<').startswith(('iggy::', 'server::')):
                            sig.append((nm, ', '.join(canon(b.pexpr_operand(a, 0, frozenset(), (x, 't')), 0, 2) for a in tt.get('args', []))))
                if sig:
                    sigs.append(tuple(sig))
            same += len(sigs) - len(set(sigs))
        if same:
            fn = ctx.user_fn_of(d)
            out.setdefault(fn, {})
            out[fn]['<identical match arms>'] = out[fn].get('<identical match arms>', 0) + same
    return out


def check(ctx, rep, prop):
    rid = 'R%s.dup' % prop[1:]
    rep.rule(rid, 'sibling calls stay distinct: no function has more call sites that repeat the exact arguments of an earlier call to the same callee than on the pinned tree (a copied line that was meant for the neighbouring file, field or entity)', floor=1, analysis='A23')
    if getattr(ctx, '_dupcalls', None) is None:
        ctx._dupcalls = collect(ctx)
    cur, fr = ctx._dupcalls, frozen()
    n = 0
    for fn in sorted(set(cur) | set(fr)):
        if not argsel.in_scope(ctx, fn, prop):
            continue
        for callee in sorted(set(cur.get(fn, {})) | set(fr.get(fn, {}))):
            have, allowed = cur.get(fn, {}).get(callee, 0), fr.get(fn, {}).get(callee, 0)
            n += 1
            ok = have <= allowed
            what = 'identical match arms' if callee.startswith('<identical') else 'repeated calls of ' + callee.split('::')[-1]
            rep.ob(rid, fn, what, ok, None, None if ok else
                   ('%d arms of a match in this function do exactly the same as another arm (pinned tree: %d): an arm was copied without being adapted' % (have, allowed)) if callee.startswith('<identical') else
                   '%d call sites of %s in this function repeat the arguments of an earlier one (pinned tree: %d): a line was copied without being adapted' % (have, callee, allowed))
    rep.ob(rid, '<scan>', 'functions scanned', True, None, '%d functions with repeated calls in the workspace' % len(cur))
    return n
