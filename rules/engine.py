"""Rule engine core: context (facts, bodies, call graph), obligations, evidence, known findings."""
import json, os, re, sys, time

from facts import Facts, ensure_facts, VERIF
from mir import Body, CallSite, name_matches, render, short, walk, expr_calls

KNOWN_FILE = os.path.join(VERIF, 'known_findings.json')


class AnchorLost(Exception):
    pass


class Ctx:
    def __init__(self, facts_dir, info):
        self.facts = Facts(facts_dir)
        self.facts_dir = facts_dir
        self.info = info
        self._bodies = {}
        self._callers = None
        self._callees = {}
        self.analysed = set()

    # ---- bodies
    def has(self, d):
        return self.facts.has_body(d)

    def body(self, d):
        b = self._bodies.get(d)
        if b is None:
            if not self.facts.has_body(d):
                raise AnchorLost('no MIR body for `%s` (function removed, renamed or cfg-ed out)' % d)
            b = Body(self.facts.raw_body(d))
            self._bodies[d] = b
        self.analysed.add(d)
        return b

    def real_body_def(self, d):
        """for an async fn: the coroutine body that holds the user's code (through #[instrument] wrappers)"""
        if not self.has(d):
            raise AnchorLost('no MIR body for `%s`' % d)
        cur = d
        for _ in range(4):
            b = self.body(cur)
            nxt = None
            for blk in range(b.n):
                for s in b.stmts(blk):
                    rv = s.get('rv')
                    if rv and rv['r'] == 'agg' and rv.get('kind') == 'coroutine' and rv['def'] == cur + '::{closure#0}':
                        if cur == d or s.get('x', '').startswith('m:'):
                            nxt = rv['def']
            if nxt is None or not self.has(nxt):
                break
            cur = nxt
        return cur

    def fn_body(self, d):
        """Body holding the user code of fn `d` (coroutine body for async fns)."""
        return self.body(self.real_body_def(d))

    def defs_matching(self, pat):
        return sorted(d for d in self.facts.body_defs() if name_matches(d, pat))

    def fn_record(self, d):
        return self.facts.fns.get(d)

    # ---- call graph over all bodies (resolved callees + closure/coroutine construction)
    def callees(self, d):
        c = self._callees.get(d)
        if c is None:
            c = set()
            raw = self.facts.raw_body(d)
            for bl in raw['blocks']:
                t = bl.get('term')
                if t and t.get('t') == 'call':
                    for k in ('res', 'fn'):
                        if t.get(k):
                            c.add(t[k])
                for s in bl['s']:
                    rv = s.get('rv')
                    if rv and rv['r'] == 'agg' and rv.get('kind') in ('closure', 'coroutine', 'coroutine_closure'):
                        c.add(rv['def'])
                    # fn items / closures passed as values
                    if rv:
                        for op in _rv_operands(rv):
                            if 'fn' in op:
                                c.add(op['fn'])
                if t and t.get('t') == 'call':
                    for op in t.get('args', []):
                        if 'fn' in op:
                            c.add(op['fn'])
            self._callees[d] = c
        return c

    def build_callers(self):
        if self._callers is None:
            callers = {}
            for d in self.facts.body_defs():
                for c in self.callees(d):
                    callers.setdefault(c, set()).add(d)
            self._callers = callers
        return self._callers

    def callers_of(self, d):
        return self.build_callers().get(d, set())

    def reachable_defs(self, start, stop=()):
        """defs reachable in the call graph from `start` (inclusive), bodies only"""
        seen, stack = set(), [start]
        while stack:
            d = stack.pop()
            if d in seen or not self.has(d) or name_matches(d, tuple(stop)):
                continue
            seen.add(d)
            stack.extend(self.callees(d))
        return seen

    def user_fn_of(self, d):
        """strip ::{closure#n} suffixes"""
        return re.sub(r'(::\{(closure|synthetic|inline_const|anon_const)#\d+\})+$', '', d)


def _rv_operands(rv):
    r = rv['r']
    if r in ('use', 'repeat', 'cast', 'un'):
        return [rv['a']]
    if r == 'bin':
        return [rv['a'], rv['b']]
    if r == 'agg':
        return rv['ops']
    return []


class Report:
    """collects obligations of one property check"""

    def __init__(self, prop, tier):
        self.prop = prop
        self.tier = tier
        self.obligations = []   # dicts
        self.rules = {}         # rule -> {'desc','floor','instances','violations'}
        self.notes = []
        self.t0 = time.time()

    def rule(self, rid, desc, floor=None, analysis=None):
        if rid in self.rules:      # a shared rule function registered under one id for two clauses: keep the counts
            self.rules[rid]['desc'] += ' / ' + desc
            self.rules[rid]['floor'] = max(self.rules[rid]['floor'] or 0, floor or 0) or None
            return
        self.rules[rid] = {'desc': desc, 'floor': floor, 'instances': 0, 'violations': 0, 'analysis': analysis}
        return rid

    def ob(self, rule, fn, instance, ok, site=None, detail=None):
        """record an obligation. key (rule, fn, instance) identifies it without line numbers."""
        r = self.rules[rule]
        r['instances'] += 1
        o = {'rule': rule, 'fn': fn, 'instance': instance, 'ok': bool(ok), 'site': site, 'detail': detail}
        if not ok:
            r['violations'] += 1
        self.obligations.append(o)
        return ok

    def anchor_lost(self, rule, what):
        self.ob(rule, '<anchor>', 'anchor-lost:' + what, False, None, 'anchor not found in the current tree: ' + what)

    def note(self, s):
        self.notes.append(s)


def load_known():
    if not os.path.exists(KNOWN_FILE):
        return {'known': [], 'fixed': []}
    return json.load(open(KNOWN_FILE))


def finish(report, ctx, assumptions, explanation, technique):
    prop = report.prop
    known = load_known()
    known_keys = {}
    for k in known.get('known', []):
        if k['property'] == prop:
            known_keys[(k['rule'], k['fn'], k['instance'])] = k
    # floors
    for rid, r in report.rules.items():
        if r['floor'] is not None and r['instances'] < r['floor']:
            report.obligations.append({'rule': rid, 'fn': '<floor>', 'instance': 'floor', 'ok': False, 'site': None,
                                       'detail': 'rule matched %d instances, fewer than the %d confirmed by hand on the pinned tree (anchor drift or vacuous rule)' % (r['instances'], r['floor'])})
            r['violations'] += 1
    viols, knowns = [], []
    for o in report.obligations:
        if o['ok']:
            continue
        key = (o['rule'], o['fn'], o['instance'])
        if key in known_keys:
            knowns.append((o, known_keys[key]))
        else:
            viols.append(o)
    evdir = os.environ.get('VERIF_EVIDENCE') or os.path.join(VERIF, 'evidence')   # VERIF_EVIDENCE: scratch runs (self-tests on a scratch worktree) must not overwrite the evidence of /repo
    os.makedirs(os.path.join(evdir, 'replay'), exist_ok=True)
    # stale replay files of this property
    for f in os.listdir(os.path.join(evdir, 'replay')):
        if f.startswith(prop + '-'):
            os.remove(os.path.join(evdir, 'replay', f))
    for o, k in knowns:
        print('KNOWN-FINDING: property=%s %s %s %s — %s' % (prop, o['rule'], o['fn'], o['instance'], k.get('what', '')))
    for i, o in enumerate(viols):
        path = os.path.join(evdir, 'replay', '%s-%s-%d.json' % (prop, o['rule'], i))
        json.dump(o, open(path, 'w'), indent=1)
        print('  rule %s (%s)' % (o['rule'], report.rules.get(o['rule'], {}).get('desc', '')))
        print('    function: %s' % o['fn'])
        print('    instance: %s' % o['instance'])
        if o.get('site'):
            print('    site:     %s' % o['site'])
        if o.get('detail'):
            print('    detail:   %s' % o['detail'])
        print('VIOLATION property=%s replay=%s' % (prop, path))
    total = len(report.obligations)
    ok = sum(1 for o in report.obligations if o['ok'])
    samples = []
    seen_rules = set()
    for o in report.obligations:
        if o['rule'] not in seen_rules:
            seen_rules.add(o['rule'])
            samples.append({k: o[k] for k in ('rule', 'fn', 'instance', 'ok', 'site', 'detail')})
    for o, _ in knowns[:5]:
        samples.append({k: o[k] for k in ('rule', 'fn', 'instance', 'ok', 'site', 'detail')})
    distinct = len({(o['rule'], o['fn'], o['instance']) for o in report.obligations})
    ev = {
        'property_id': prop,
        'tier': report.tier,
        'seed': int(os.environ.get('VERIF_SEED', '0') or 0),
        'level': 'other',
        'coverage': {
            'explanation': explanation,
            'technique': technique,
            'obligations': total,
            'discharged': ok,
            'known_findings': len(knowns),
            'evaluations': total,
            'distinct_nontrivial': distinct,
            'rule': 'one obligation per (rule, function, instance) found in the MIR of the current tree; distinct = distinct keys; every obligation inspects at least one resolved call site, field access or CFG path',
            'functions_analysed': len(ctx.analysed),
            'bodies_in_fact_base': {k: v.get('bodies') for k, v in ctx.info.get('crates', {}).items()},
            'facts_hash': ctx.info.get('hash'),
            'rules': {rid: {k: v for k, v in r.items()} for rid, r in report.rules.items()},
            'samples': samples,
            'notes': report.notes,
            'checker_cmd': './check %s --tier %s' % (prop, report.tier),
            'trusted_base': ['rustc nightly MIR construction and callee resolution', 'rule tables in rules/props/%s.py' % prop.lower()],
        },
        'assumptions': assumptions,
        'wall_s': round(time.time() - report.t0, 2),
        'violations': len(viols),
    }
    if getattr(report, 'selftest', None) is not None:
        ev['coverage']['selftest'] = report.selftest
        ev['coverage']['selftest_rule'] = ('every kept breaking change for this property (seeded/*, reverted fix: commits) applied to a scratch copy of the current tree; '
                                           'the rules must report it; result does not affect the verdict on /repo')
    json.dump(ev, open(os.path.join(evdir, prop + '.json'), 'w'), indent=1)
    print('%s: %d obligations, %d discharged, %d known findings, %d violations (%d functions analysed, %.1fs)' % (
        prop, total, ok, len(knowns), len(viols), len(ctx.analysed), time.time() - report.t0))
    return 1 if viols else 0
