"""A19 — error discipline.  A `Result` that is computed and never looked at (`let _ = …;`, a dropped `.await`, a
`.ok()` whose Option is dropped) is an error that cannot stop, fail or be reported by the operation around it.  The
rule has a frozen table of the places where the pinned tree does this on purpose (15 sites: best-effort syncs,
hints and clean-ups, each with its reason) and reports any other site in the modules of the property.  Sites are found
on the MIR: a local of type Result<…> (or the Option returned by Result::ok) that is defined in user code and never
read, moved or matched — only dropped."""
import argsel
from lib import _places_in_stmt, _places_in_term

S = 'server::streaming::segments::'
ALLOW = {   # function -> (number of dropped results, why this is intended)
    S + 'indexes::index_writer::SegmentIndexWriter::new': (2, 'best-effort sync of a freshly created / opened index file; the size is read from metadata afterwards'),
    S + 'indexes::index_writer::SegmentIndexWriter::save_index': (1, 'optional fsync after the write (enforce_fsync): the write itself is checked'),
    S + 'logs::log_reader::SegmentLogReader::new': (1, 'posix_fadvise hint: advisory only'),
    S + 'logs::log_writer::SegmentLogWriter::new': (1, 'best-effort sync of a freshly created / opened log file'),
    S + 'logs::log_writer::SegmentLogWriter::save_batches': (1, 'optional fsync after the write (enforce_fsync): the write itself is checked'),
    S + 'segment::Segment::delete': (2, 'removal of the two files of a segment that is being deleted: a leftover file is logged, the delete goes on'),
    S + 'segment::Segment::load_from_disk': (1, 'sync after truncating a torn tail (F22): the truncation itself is checked'),
    S + 'segment::Segment::shutdown_writing': (2, 'final fsync of a segment that is being closed: logged, the close goes on'),
    'server::streaming::systems::system::System::delete_client': (1, 'leaving the consumer groups of a client that is going away: best effort'),
    '<iggy::clients::client::IggyClient as async_dropper::AsyncDrop>::async_drop': (1, 'logout while the client is being dropped: nobody is left to report to'),
    'iggy::clients::consumer::IggyConsumer::init': (1, 'background commit of a consumed offset: store_consumer_offset logs its own failure and the next commit retries'),
    'iggy::clients::consumer::IggyConsumer::store_offsets_in_background': (1, 'periodic commit: store_consumer_offset logs its own failure and the next tick retries'),
}


def sites(ctx):
    if getattr(ctx, '_errdrop', None) is None:
        out = {}
        for d in sorted(ctx.facts.body_defs()):
            if not d.lstrip('<').startswith(('server::', 'iggy::')) or '__CALLSITE' in d:
                continue
            b = ctx.body(d)
            reads, defs = {}, {}
            for bb in b.reach:
                if b.blocks[bb].get('cleanup'):
                    continue
                for s in b.stmts(bb):
                    lhs = s.get('lhs')
                    for p in _places_in_stmt(s):
                        if p is lhs and len(p) == 1:
                            defs.setdefault(p[0], []).append((s.get('ln'), s.get('x', '')))
                        else:
                            reads[p[0]] = reads.get(p[0], 0) + 1
                t = b.term(bb)
                if t.get('t') == 'drop':
                    continue
                for p in _places_in_term(t):
                    if p is t.get('dest') and len(p) == 1:
                        fn = t.get('fn') or ''
                        defs.setdefault(p[0], []).append((t.get('ln'), t.get('x', ''), fn))
                    else:
                        reads[p[0]] = reads.get(p[0], 0) + 1
            for l, ds in defs.items():
                if l == 0 or l <= b.argc or reads.get(l, 0):
                    continue
                ty = b.locals[l] if isinstance(b.locals[l], str) else b.locals[l].get('ty', '')
                is_res = ty.startswith('std::result::Result<')
                is_ok = ty.startswith('std::option::Option<') and any(len(x) > 2 and x[2].endswith('Result::ok') for x in ds)
                if not (is_res or is_ok) or all(x[1].startswith('m:') for x in ds):
                    continue
                out.setdefault(ctx.user_fn_of(d), []).append(('%s:%s' % (b.file, ds[0][0]), ty))
        ctx._errdrop = out
    return ctx._errdrop


def check(ctx, rep, prop):
    rid = 'R%s.err' % prop[1:]
    pre = argsel.SCOPE[prop]
    rep.rule(rid, 'error discipline: no Result is computed and dropped unseen (`let _ = …`, a dropped await, `.ok()` thrown away) in the modules of the property, outside the 15 best-effort sites confirmed by reading (syncs after a checked write, advisory hints, clean-up of entities being deleted)', floor=None, analysis='A19')
    found = sites(ctx)
    for fn, lst in sorted(found.items()):
        if not argsel.in_scope(ctx, fn, prop):
            continue
        allowed = ALLOW.get(fn, (0, ''))[0]
        ok = len(lst) <= allowed
        rep.ob(rid, fn, '%d dropped result(s)' % len(lst), ok, lst[0][0], None if ok else
               '%d Result value(s) are computed and never looked at in this function (%s); %d confirmed as intended — an error here can no longer fail or stop the operation' % (len(lst), ', '.join(w for w, _ in lst), allowed))
    rep.ob(rid, '<table>', 'sites scanned', True, None, '%d functions with dropped results in the workspace, %d allow-listed' % (len(found), len(ALLOW)))
