"""A21 — refusals stay.  rules/errs_frozen.json holds, for every function of server and sdk, the error variants it
constructs on the pinned tree (IggyError::X, ServerError::X, … built in the function, its closures and spliced
helpers; tools/freeze_errs.py).  Every one of them is a refusal: a validation, a bound, a not-found, a guard.  The rule
demands that a function which still exists still constructs each of them: a guard that is deleted takes its error
variant with it.  New variants are fine; a function that is gone is not judged (moved and renamed functions are
followed by the aliasing of facts.py)."""
import json, os
import argsel

ERR_ADTS = ('iggy::error::IggyError', 'server::server_error::', 'server::archiver::ArchiverError', 'server::configs::')
_FROZEN = None


def frozen():
    global _FROZEN
    if _FROZEN is None:
        _FROZEN = json.load(open(os.path.join(os.path.dirname(os.path.abspath(__file__)), 'errs_frozen.json')))
    return _FROZEN


def variants_of(ctx, fn):
    out = set()
    for d in ctx.facts.body_defs():
        if (d == fn or d.startswith(fn + '::{closure')) and '__CALLSITE' not in d:
            b = ctx.body(d)
            for bb in b.reach:
                for s in b.stmts(bb):
                    rv = s.get('rv')
                    if rv and rv['r'] == 'agg' and rv.get('kind') == 'adt' and (rv['adt'] or '').startswith(ERR_ADTS) and not s.get('x', '').startswith('m:'):
                        out.add(rv['adt'].split('::')[-1] + '::' + str(rv.get('variant')))
    return out


def collect(ctx):
    out = {}
    roots = {}
    for d in ctx.facts.body_defs():
        if '__CALLSITE' in d or not d.lstrip('<').startswith(('server::', 'iggy::')):
            continue
        roots.setdefault(ctx.user_fn_of(d), []).append(d)
    for fn, ds in sorted(roots.items()):
        vs = set()
        for d in ds:
            b = ctx.body(d)
            for bb in b.reach:
                for s in b.stmts(bb):
                    rv = s.get('rv')
                    if rv and rv['r'] == 'agg' and rv.get('kind') == 'adt' and (rv['adt'] or '').startswith(ERR_ADTS) and not s.get('x', '').startswith('m:'):
                        vs.add(rv['adt'].split('::')[-1] + '::' + str(rv.get('variant')))
        if vs:
            out[fn] = sorted(vs)
    return out


FLOORS = {'C01': 42, 'C02': 39, 'C03': 78, 'C04': 46, 'C05': 52, 'C06': 72, 'C07': 14, 'C08': 8, 'C09': 55, 'C10': 30, 'C11': 7, 'C12': 46, 'C13': 328, 'C14': 50, 'C15': 30,
          'C16': 132, 'C17': 44, 'C18': 12, 'C19': 42, 'C20': 24}   # ~80 % of the constructions counted on the pinned tree


def check(ctx, rep, prop):
    rid = 'R%s.guard' % prop[1:]
    rep.rule(rid, 'refusals stay: a function still constructs every error variant it constructed on the pinned tree (each is a validation, a bound, a not-found or a guard; deleting the guard takes the variant with it); new variants and functions that are gone are not judged', floor=FLOORS.get(prop), analysis='A21')
    if getattr(ctx, '_errset', None) is None:
        ctx._errset = collect(ctx)
    cur = ctx._errset
    n = 0
    for fn, want in sorted(frozen().items()):
        if not argsel.in_scope(ctx, fn, prop) or not ctx.has(fn):
            continue
        have = set(cur.get(fn, []))
        for v in want:
            n += 1
            ok = v in have
            rep.ob(rid, fn, 'constructs ' + v, ok, None, None if ok else
                   '%s no longer constructs %s: the test that refused with this error is gone' % (fn.split('::')[-1], v))
    return n
