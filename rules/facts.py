"""Fact extraction cache + lazy fact store (engine E0 glue).

ensure_facts() makes sure MIR facts exist for /repo's *current* working tree (content hash of the
sources that feed the analysed crates); it runs the rustc_private driver through cargo when needed.
"""
import fcntl, glob, hashlib, json, os, shutil, subprocess, sys, time

VERIF = os.path.dirname(os.path.dirname(os.path.abspath(__file__)))
REPO = os.environ.get('VERIF_REPO', '/repo')
CACHE = os.path.join(VERIF, '.cache')
DRIVER = os.path.join(VERIF, 'driver', 'target', 'release', 'iggy-facts')
CRATES = 'server,iggy,iggy_server'
FACT_FILES = ['server.rlib.jsonl', 'iggy.rlib.jsonl', 'iggy_server.executable.jsonl']


def _sysroot():
    return subprocess.check_output(['rustc', '+nightly', '--print', 'sysroot'], text=True).strip()


def tree_hash(repo=REPO):
    h = hashlib.sha256()
    files = []
    for sub in ('server', 'sdk'):
        for root, dirs, fs in os.walk(os.path.join(repo, sub)):
            dirs[:] = [d for d in dirs if d not in ('target', '.git')]
            for f in fs:
                if f.endswith('.rs') or f in ('Cargo.toml',) or f.endswith('.toml'):
                    files.append(os.path.join(root, f))
    files += [os.path.join(repo, 'Cargo.toml'), os.path.join(repo, 'Cargo.lock')]
    for f in sorted(files):
        try:
            data = open(f, 'rb').read()
        except OSError:
            continue
        h.update(os.path.relpath(f, repo).encode()); h.update(b'\0'); h.update(data); h.update(b'\0')
    if os.path.exists(DRIVER):
        h.update(open(DRIVER, 'rb').read())
    return h.hexdigest()[:24]


def build_driver():
    if os.path.exists(DRIVER) and os.path.getmtime(DRIVER) >= max(
            os.path.getmtime(os.path.join(VERIF, 'driver', 'src', 'main.rs')),
            os.path.getmtime(os.path.join(VERIF, 'driver', 'Cargo.toml'))):
        return
    subprocess.check_call(['cargo', '+nightly', 'build', '--release', '--offline'], cwd=os.path.join(VERIF, 'driver'),
                          env=dict(os.environ, CARGO_NET_OFFLINE='true'))


def ensure_facts(repo=REPO, verbose=True):
    """returns (facts_dir, info) for the current tree; extracts if not cached."""
    os.makedirs(CACHE, exist_ok=True)
    lock = open(os.path.join(CACHE, 'lock'), 'w')
    fcntl.flock(lock, fcntl.LOCK_EX)
    try:
        build_driver()
        hsh = tree_hash(repo)
        out = os.path.join(CACHE, 'facts', hsh)
        done = os.path.join(out, 'DONE')
        if os.path.exists(done) and all(os.path.exists(os.path.join(out, f)) for f in FACT_FILES + ['diagnostics.json']):
            os.utime(out)
            return out, json.load(open(done))
        if os.path.isdir(out):
            shutil.rmtree(out)
        os.makedirs(out)
        target = os.path.join(CACHE, 'target')
        # defeat cargo's freshness cache for the workspace members whose facts we need
        for fp in glob.glob(os.path.join(target, 'debug', '.fingerprint', '*')):
            b = os.path.basename(fp)
            if b.startswith('server-') or b.startswith('iggy-'):
                shutil.rmtree(fp, ignore_errors=True)
        env = dict(os.environ)
        env.update(LD_LIBRARY_PATH=_sysroot() + '/lib', CARGO_INCREMENTAL='0', CARGO_NET_OFFLINE='true',
                   RUSTFLAGS='-Zmir-opt-level=0', RUSTC_WORKSPACE_WRAPPER=DRIVER,
                   VERIF_FACTS_DIR=out, VERIF_CRATES=CRATES, CARGO_TARGET_DIR=target)
        t0 = time.time()
        p = subprocess.run(['cargo', '+nightly', 'check', '--offline', '-p', 'server', '--lib', '--bins', '--message-format=json'], cwd=repo, env=env,
                           stdout=subprocess.PIPE, stderr=subprocess.PIPE, text=True)
        dt = time.time() - t0
        if p.returncode != 0:
            sys.stderr.write(p.stderr[-6000:])
            raise RuntimeError('fact extraction failed: the tree does not type-check under cargo +nightly check')
        missing = [f for f in FACT_FILES if not os.path.exists(os.path.join(out, f))]
        if missing:
            sys.stderr.write(p.stderr[-3000:])
            raise RuntimeError('fact files missing after extraction: %s' % missing)
        # rustc's own diagnostics for the workspace members (A17): kept beside the facts
        diags, artifacts = [], 0
        for line in p.stdout.splitlines():
            if not line.startswith('{'):
                continue
            try:
                m = json.loads(line)
            except ValueError:
                continue
            if m.get('reason') == 'compiler-artifact':
                artifacts += 1
            elif m.get('reason') == 'compiler-message':
                d = m['message']
                sp = [x for x in d.get('spans', []) if x.get('is_primary')] or d.get('spans', [])
                diags.append({'level': d.get('level'), 'code': (d.get('code') or {}).get('code'), 'message': d.get('message'),
                              'file': sp[0]['file_name'] if sp else None, 'line': sp[0]['line_start'] if sp else None,
                              'text': (sp[0].get('text') or [{}])[0].get('text', '').strip() if sp else ''})
        json.dump({'artifacts': artifacts, 'diagnostics': diags}, open(os.path.join(out, 'diagnostics.json'), 'w'), indent=1)
        info = {'hash': hsh, 'extract_s': round(dt, 1), 'crates': {}}
        for f in FACT_FILES:
            with open(os.path.join(out, f)) as fh:
                info['crates'][f] = json.loads(fh.readline())
        json.dump(info, open(done, 'w'))
        # keep only the 4 most recent fact dirs
        dirs = sorted(glob.glob(os.path.join(CACHE, 'facts', '*')), key=os.path.getmtime)
        for d in dirs[:-8]:
            shutil.rmtree(d, ignore_errors=True)
        if verbose:
            sys.stderr.write('[facts] extracted in %.1fs -> %s\n' % (dt, out))
        return out, info
    finally:
        fcntl.flock(lock, fcntl.LOCK_UN)
        lock.close()


def fingerprint(raw, rec):
    """shape of a function that survives a rename: parameter types, and the ordered resolved callees and constants of its own
    (non-macro) code; the function's own name is masked"""
    h = hashlib.sha1()
    own = raw['def'].split('::')[-1]
    h.update(json.dumps([rec.get('params'), rec.get('ret'), bool(rec.get('async'))]).encode())
    for bl in raw['blocks']:
        if bl.get('cleanup'):
            continue
        for s in bl['s']:
            if s.get('x', '').startswith('m:'):
                continue
            a = (s.get('rv') or {}).get('a') or {}
            if 'k' in a and '{alloc' not in str(a['k']) and '::promoted[' not in str(a['k']):
                h.update(str(a['k']).replace(own, '@').encode())
        t = bl.get('term') or {}
        if t.get('t') == 'call' and not t.get('x', '').startswith('m:'):
            h.update((t.get('res') or t.get('fn') or '?').replace(own, '@').encode())
    return h.hexdigest()[:16]


def fingerprint_of(F, n):
    """fingerprint of function n including the body of its coroutine (async fn) when there is one"""
    fp = fingerprint(F.load_raw(n), F.fns[n])
    co = n + '::{closure#0}'
    if F.fns[n].get('async') and F.has_raw(co):
        raw = dict(F.load_raw(co))
        raw['def'] = n
        fp += fingerprint(raw, {})
    return fp


class Facts:
    """Lazy store: item records are parsed eagerly (small), bodies on demand."""

    def __init__(self, facts_dir):
        self.dir = facts_dir
        self.fns = {}      # def -> record
        self.adts = {}     # def -> record
        self.consts = {}   # def -> (ty, int)
        self._body_pos = {}  # def -> (file, offset, length)
        self._bodies = {}
        self.crates = {}
        self.body_crate = {}
        for f in FACT_FILES:
            path = os.path.join(facts_dir, f)
            with open(path, 'rb') as fh:
                off = 0
                for line in fh:
                    n = len(line)
                    if line.startswith(b'{"rec":"body"'):
                        # def is the 2nd key
                        i = line.index(b'"def":"') + 7
                        j = i
                        while True:
                            j = line.index(b'"', j)
                            if line[j - 1:j] != b'\\':
                                break
                            j += 1
                        d = json.loads(b'"' + line[i:j] + b'"')
                        self._body_pos[d] = (path, off, n)
                        self.body_crate[d] = f
                    else:
                        r = json.loads(line)
                        k = r['rec']
                        if k == 'fn':
                            self.fns[r['def']] = r
                        elif k == 'adt':
                            self.adts[r['def']] = r
                        elif k == 'const':
                            self.consts[r['def']] = (r['ty'], int(r['val']))
                        elif k == 'crate':
                            self.crates[f] = r
                    off += n

        self._raw = {}
        self.inlined = {}
        self.hidden = set()
        self.new_fns = set()
        self.aliases = {}
        self._look_through_new_helpers()

    # ---- helper look-through (rules/inline.py): functions that did not exist on the reference tree
    def _look_through_new_helpers(self):
        kp = os.path.join(os.path.dirname(os.path.abspath(__file__)), 'known_fns.json')
        if not os.path.exists(kp) or os.environ.get('VERIF_NO_INLINE'):
            return
        kj = json.load(open(kp))
        known = set(kj['names']) if isinstance(kj, dict) else set(kj)
        known_fp = kj.get('fp', {}) if isinstance(kj, dict) else {}
        # moved / re-homed functions: a known function is gone and exactly one new function carries its simple name
        # (associated fn made free, moved to another impl or module): keep analysing it under the path the tables use
        missing = {}
        for d in known - set(self.fns):
            if '::{' not in d and not d.startswith('<'):
                missing.setdefault(d.split('::')[-1], []).append(d)
        fresh = {}
        for d, r in self.fns.items():
            if d not in known and '::{' not in d and not d.startswith('<') and r.get('has_body') and d in self._body_pos:
                fresh.setdefault(d.split('::')[-1], []).append(d)
        self.aliases = {}
        for name, olds in missing.items():
            news = fresh.get(name, [])
            if len(olds) == 1 and len(news) == 1 and len(self.fns[news[0]].get('params', [])) == len(self._known_params(olds[0], news[0])):
                self.aliases[news[0]] = olds[0]
        # renamed functions: a known function is gone and exactly one new function (with another name) has its fingerprint
        taken_new = set(self.aliases)
        taken_old = set(self.aliases.values())
        fresh_fp = {}
        for news in fresh.values():
            for n in news:
                if n not in taken_new:
                    try:
                        fresh_fp.setdefault(fingerprint_of(self, n), []).append(n)
                    except Exception:
                        pass
        self._raw.clear()
        for olds in missing.values():
            for o in olds:
                if o in taken_old or o not in known_fp:
                    continue
                cands = fresh_fp.get(known_fp[o], [])
                if len(cands) == 1 and cands[0] not in self.aliases:
                    self.aliases[cands[0]] = o
        if self.aliases:
            self._subst = [(json.dumps(n)[:-1].encode(), json.dumps(o)[:-1].encode()) for n, o in self.aliases.items()]
            for n, o in self.aliases.items():
                rec = dict(self.fns.pop(n)); rec['def'] = o; rec['moved_from'] = n
                self.fns[o] = rec
                for k in [k for k in self._body_pos if k == n or k.startswith(n + '::{')]:
                    k2 = o + k[len(n):]
                    self._body_pos[k2] = self._body_pos.pop(k)
                    self.body_crate[k2] = self.body_crate.pop(k, None)
        cand = set()
        for d, r in self.fns.items():
            if d in known or d.startswith('<') or not r.get('has_body') or r.get('kind') not in ('Fn', 'AssocFn') or d not in self._body_pos:
                continue
            if d.endswith('::main') or '::{' in d:
                continue
            cand.add(d)
        if not cand:
            return
        # who references them, and how (call vs. address taken)
        callers = {d: set() for d in cand}
        taken = set()
        for f in FACT_FILES:
            with open(os.path.join(self.dir, f), 'rb') as fh:
                for line in fh:
                    if not line.startswith(b'{"rec":"body"'):
                        continue
                    for d in cand:
                        q = json.dumps(d).encode()
                        n_fn = line.count(b'"fn":' + q)
                        n_res = line.count(b'"res":' + q)
                        if not n_fn and not n_res:
                            continue
                        n_call = line.count(b'"t":"call","fn":' + q)
                        i = line.index(b'"def":"') + 7
                        j = line.index(b'"', i)
                        owner = json.loads(b'"' + line[i:j] + b'"')
                        if n_fn > n_call:
                            taken.add(d)
                        callers[d].add(owner)
        self.new_fns = {d for d in cand if d not in taken and callers[d]}
        if not self.new_fns:
            return
        import inline
        for d in sorted(self.new_fns):
            for owner in sorted(callers[d]):
                if owner in self._body_pos:
                    self.raw_body(owner)
        # a helper is absorbed when no expanded caller still calls it
        for d in sorted(self.new_fns):
            residual = False
            for owner in callers[d]:
                root = owner.split('::{')[0]
                if root in self.new_fns and root != d:
                    continue   # the caller is itself a looked-through helper; its expanded copies live in its callers
                if root == d:
                    residual = True   # recursive helper
                    continue
                b = self._bodies.get(owner)
                if b is None:
                    residual = True
                    continue
                for blk in b['blocks']:
                    t = blk.get('term') or {}
                    if t.get('t') == 'call' and inline.callee_of(t) == d:
                        residual = True
            if not residual:
                self.hidden.add(d)
                if self.fns[d].get('async'):
                    self.hidden.add(d + '::{closure#0}')
        for d in self.hidden:
            self.fns.pop(d, None)

    def body_defs(self):
        if self.hidden:
            return [d for d in self._body_pos if d not in self.hidden]
        return self._body_pos.keys()

    def has_body(self, d):
        return d in self._body_pos and d not in self.hidden

    def has_raw(self, d):
        return d in self._body_pos

    def _known_params(self, old, new):
        # the frozen table holds names only: accept the alias when the simple name is unique on both sides
        return self.fns[new].get('params', [])

    def load_raw(self, d):
        b = self._raw.get(d)
        if b is None:
            path, off, n = self._body_pos[d]
            with open(path, 'rb') as fh:
                fh.seek(off)
                data = fh.read(n)
            for a, o in getattr(self, '_subst', ()):
                if a in data:
                    data = data.replace(a + b'"', o + b'"').replace(a + b'::{', o + b'::{')
            b = json.loads(data)
            self._raw[d] = b
        return b

    def raw_body(self, d):
        b = self._bodies.get(d)
        if b is None:
            b = self.load_raw(d)
            if self.new_fns:
                import inline
                b = inline.expand(self, b, 0, (d.split('::{')[0],))
            self._bodies[d] = b
        return b


if __name__ == '__main__':
    d, info = ensure_facts()
    print(d, json.dumps(info))
