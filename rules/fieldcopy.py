"""A18 — field copy by name.  Where a struct field is assigned (or built in a struct literal) from a plain variable,
parameter or field, the name of that source is not the name of a *sibling* field of the same struct
(`size_of_parent_stream: size_of_parent_topic`, `consumer_group_offsets_path = self.consumer_offsets_path`).  No table:
field names come from the ADT facts, the source name from the canonical form of the right-hand side at the assignment
(locals followed to what they were read from).  The pinned tree has 1 438 such copies and two where the names differ on
purpose; they are listed below with the reason."""
import re
import argsel
from lib import in_crate
from mir import canon

ALLOW = {
    ('Segment', 'current_offset', 'start_offset'): 'a fresh segment is positioned at its first offset',
    ('Segment', 'end_offset', 'current_offset'): 'a closed segment ends at the last offset written',
}


FLOORS = {'C01': 68, 'C02': 72, 'C03': 69, 'C04': 57, 'C05': 74, 'C06': 35, 'C07': 3, 'C08': 8, 'C09': 68, 'C10': 26, 'C11': 12, 'C12': 55, 'C13': 832, 'C14': 56, 'C15': 24,
          'C16': 128, 'C17': 584, 'C18': 39, 'C19': 25, 'C20': 568}   # ~80 % of the copies counted on the pinned tree


def sites(ctx):
    if getattr(ctx, '_fieldcopy', None) is None:
        out = []
        for d in sorted(ctx.facts.body_defs()):
            if not d.lstrip('<').startswith(('server::', 'iggy::')) or '__CALLSITE' in d:
                continue
            b = ctx.body(d)
            for bb in sorted(b.reach):
                for si, s in enumerate(b.stmts(bb)):
                    if s.get('x', '').startswith('m:'):
                        continue
                    rv, lhs = s.get('rv'), s.get('lhs')
                    pairs = []
                    if rv and rv['r'] == 'agg' and rv.get('kind') == 'adt':
                        e = b._pexpr_rvalue(rv, 0, frozenset(), (bb, si))
                        for n, v in e[3]:
                            pairs.append((rv['adt'], n, v))
                    elif rv and lhs is not None and len(lhs) > 1 and isinstance(lhs[-1], list) and lhs[-1][0] == '.':
                        pairs.append((lhs[-1][1], lhs[-1][2], b._pexpr_rvalue(rv, 0, frozenset(), (bb, si))))
                    for adt, n, v in pairs:
                        rec = ctx.facts.adts.get(adt)
                        if not rec or not n or str(n).isdigit():
                            continue
                        m = re.fullmatch(r'(?:\w+\.)*(\w+)', canon(v, 0, 1))
                        if not m:
                            continue
                        fields = {f[0] for var in rec['variants'] for f in var['fields']}
                        out.append((d, adt, n, m.group(1), fields, '%s:%s' % (b.file, s.get('ln'))))
        ctx._fieldcopy = out
    return ctx._fieldcopy


def check(ctx, rep, prop):
    rid = 'R%s.copy' % prop[1:]
    pre = argsel.SCOPE[prop]
    rep.rule(rid, 'field copy by name: a struct field assigned or built from a plain variable / parameter / field is not fed from something carrying the name of a sibling field of the same struct (a copy from the neighbouring field compiles whenever the types agree); two confirmed exceptions', floor=FLOORS.get(prop), analysis='A18')
    n = 0
    for d, adt, f, g, fields, where in sites(ctx):
        key = ctx.user_fn_of(d)
        if not (argsel.in_scope(ctx, key, prop) or any(adt.startswith(p) for p in pre)):
            continue
        n += 1
        bad = g != f and g in fields and (adt.split('::')[-1], f, g) not in ALLOW
        rep.ob(rid, key, '%s.%s <- %s' % (adt.split('::')[-1], f, g), not bad, where, None if not bad else
               '`%s.%s` is fed from `%s`, the name of its sibling field: the neighbouring value is stored here' % (adt.split('::')[-1], f, g))
    return n
