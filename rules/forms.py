"""A9/A10 — provenance tables: every assignment to a designated state field must have one of the expected normal forms."""
from mir import canon
from lib import place_fields, _place_ends_in_field, in_crate
import os
FLOW = not os.environ.get('VERIF_FLOW_INSENSITIVE')   # use-site (reaching definitions) expansion of reassigned locals


def field_assignments(ctx, adt, field, prefix='server::'):
    """[(fn_def, body, bb, line, canon_rhs)] for every `X.field = rhs` with X: adt, in production code"""
    out = []
    needle = '"%s","%s"' % (adt, field)
    for d in sorted(ctx.facts.body_defs()):
        if not in_crate(d, prefix):
            continue
        raw = ctx.facts.raw_body(d)
        hit = False
        for bl in raw['blocks']:
            if bl.get('cleanup'):
                continue
            for s in bl['s']:
                lhs = s.get('lhs')
                if lhs is not None and len(lhs) > 1 and _place_ends_in_field(lhs, adt, field):
                    hit = True
        if not hit:
            continue
        b = ctx.body(d)
        for bb in sorted(b.reach):
            for si, s in enumerate(b.stmts(bb)):
                lhs = s.get('lhs')
                if lhs is not None and len(lhs) > 1 and _place_ends_in_field(lhs, adt, field):
                    rhs = b._pexpr_rvalue(s['rv'], 0, frozenset(), (bb, si) if FLOW else None)
                    out.append((ctx.user_fn_of(d), b, bb, s.get('ln'), canon(rhs)))
    return out


_ACC_RW = None


def accessor_rewrites():
    """[(regex, replacement)] turning a call of a confirmed accessor (props/accessors.py: `Topic::get_partitions_count(x)`
    returns `HashMap::len(x.partitions)`) into the expression it returns, so that a form written with the accessor and one
    written with the field agree.  Only accessors whose confirmed form is an expression over `self` are used; the
    accessor table itself is checked by the rules R*.acc."""
    global _ACC_RW
    if _ACC_RW is None:
        import re
        from props import accessors
        out = []
        for tab in accessors.ACCESSORS.values():
            for fn, form in tab.items():
                if fn.startswith('<') or 'self' not in form or '::' not in fn:
                    continue
                short = '::'.join(fn.split('::')[-2:])
                out.append((re.compile(re.escape(short) + r'\((self|[a-z_][\w\.]*)\)'), form))
        _ACC_RW = out
    return _ACC_RW


def expand_accessors(form):
    import re
    for rx, repl in accessor_rewrites():
        form = rx.sub(lambda m: re.sub(r'\bself\b', m.group(1), repl), form)
    return form


CTX = None          # set by `check`: lets the matcher know which pinned helpers no longer exist
_SUMM = None


def summaries():
    global _SUMM
    if _SUMM is None:
        import json
        _SUMM = json.load(open(os.path.join(os.path.dirname(os.path.abspath(__file__)), 'helper_summaries.json')))
    return _SUMM


def gone_helpers():
    """short names of pinned helpers (helper_summaries.json) that the current tree no longer has: inlined and deleted"""
    if CTX is None:
        return {}
    g = getattr(CTX, '_gone_helpers', None)
    if g is None:
        g = {k: v for k, v in summaries().items() if not CTX.has(v['def'])}
        CTX._gone_helpers = g
    return g


def _split_args(s):
    out, depth, cur = [], 0, ''
    for ch in s:
        if ch in '([{':
            depth += 1
        elif ch in ')]}':
            depth -= 1
        if ch == ',' and depth == 0:
            out.append(cur.strip()); cur = ''
        else:
            cur += ch
    if cur.strip():
        out.append(cur.strip())
    return out


def norm_phi(form):
    """sort the alternatives of every phi{a | b} (they are sorted by rendering, which a substitution can disturb)"""
    out, i = '', 0
    while True:
        j = form.find('phi{', i)
        if j < 0:
            return out + form[i:]
        out += form[i:j]
        depth, k = 0, j + 3
        while k < len(form):
            if form[k] in '{([':
                depth += 1
            elif form[k] in '})]':
                depth -= 1
                if depth == 0:
                    break
            k += 1
        inner = form[j + 4:k]
        alts, depth, cur, x = [], 0, '', 0
        while x < len(inner):
            ch = inner[x]
            if ch in '{([':
                depth += 1
            elif ch in '})]':
                depth -= 1
            if depth == 0 and inner[x:x + 3] == ' | ':
                alts.append(cur); cur = ''; x += 3
                continue
            cur += ch
            x += 1
        alts.append(cur)
        out += 'phi{' + ' | '.join(sorted(norm_phi(a) for a in alts)) + '}'
        i = k + 1


def expand_gone(form):
    """replace a call of a pinned helper that no longer exists by the helper's pinned return form (parameters replaced by
    the arguments of the call): what the caller computes now that the helper has been inlined into it"""
    import re
    g = gone_helpers()
    if not g:
        return form
    for _ in range(3):
        changed = False
        for short, v in g.items():
            j = form.find(short + '(')
            if j < 0:
                continue
            depth, k = 0, j + len(short)
            while k < len(form):
                if form[k] == '(':
                    depth += 1
                elif form[k] == ')':
                    depth -= 1
                    if depth == 0:
                        break
                k += 1
            args = _split_args(form[j + len(short) + 1:k])
            params = v['params']
            if len(args) == len(params) - 1 and params and params[0] == 'self':
                args = ['self'] + args      # tables written without the receiver
            if len(args) != len(params):
                continue
            m = dict(zip(params, args))
            body = re.sub(r'\b(' + '|'.join(re.escape(x) for x in params if x) + r')\b', lambda mm: m[mm.group(1)], v['ret'])
            form = form[:j] + body + form[k + 1:]
            changed = True
        if not changed:
            break
    return form


def _match(form, expected):
    import re
    m0 = _match0(form, expected)
    if m0 is not None:
        return m0
    ef = expand_accessors(form)
    if ef != form:
        m1 = _match0(ef, expected)
        if m1 is not None:
            return m1
    if gone_helpers():
        nf = norm_phi(form)
        for x in expected:
            if not x.startswith('re:') and norm_phi(expand_gone(x)) == nf and expand_gone(x) != x:
                return x
    return None


def _match0(form, expected):
    import re
    for x in expected:
        if x.startswith('re:'):
            if re.search(x[3:], form):
                return x
        elif x == form:
            return x
    return None


def check_table(ctx, rep, rid, adt, table, allow_in=()):
    """table: {field: {fn_def: [expected canon forms (multiset)]}}.  Every assignment site must match an expected form of
    its function; every expected form must be matched by a site; assignments in functions not listed are violations
    unless the function starts with one of allow_in (constructors / owners whose forms are not frozen)."""
    for field, per_fn in table.items():
        sites = field_assignments(ctx, adt, field)
        byfn = {}
        for fn, b, bb, ln, form in sites:
            byfn.setdefault(fn, []).append((form, b, ln))
        for fn, expected in per_fn.items():
            got = byfn.pop(fn, [])
            matched = set()
            for form, b, ln in got:
                m = _match(form, expected)
                if m is not None:
                    matched.add(m)
                    rep.ob(rid, fn, '%s = %s' % (field, form), True, '%s:%s' % (b.file, ln), None)
                else:
                    rep.ob(rid, fn, '%s = %s' % (field, form), False, '%s:%s' % (b.file, ln),
                           '`%s.%s` is assigned `%s`; the forms confirmed for this function are %s' % (adt.split('::')[-1], field, form, sorted(set(expected))))
            for form in sorted(set(expected) - matched):
                rep.ob(rid, fn, '%s = %s' % (field, form), False, None,
                       'the assignment `%s.%s = %s` expected in this function is missing' % (adt.split('::')[-1], field, form))
        for fn, got in byfn.items():
            ok = any(fn.startswith(a) for a in allow_in)
            for form, b, ln in got:
                rep.ob(rid, fn, '%s = %s' % (field, form), ok, '%s:%s' % (b.file, ln),
                       None if ok else '`%s.%s` is written by a function that is not one of its confirmed writers (%s)' % (adt.split('::')[-1], field, sorted(per_fn)))


def call_arg_forms(ctx, fn, callee_suffix, skip_self=True, cd=1):
    """[(line, 'arg1, arg2, ...')] canonical argument forms of every user call in fn (and its closures) to a callee
    whose name ends with callee_suffix"""
    from mir import canon
    out = []
    defs = [d for d in ctx.facts.body_defs() if d == fn or d.startswith(fn + '::{closure')]
    for d in sorted(defs):
        b = ctx.body(d)
        for c in b.calls:
            if c.x.startswith('m:') or not (c.name.endswith('::' + callee_suffix) or c.name == callee_suffix):
                continue
            args = c.args[1:] if skip_self else c.args
            out.append((c.ln, ', '.join(canon(b.pexpr_operand(a, 0, frozenset(), (c.bb, 't') if FLOW else None), 0, cd) for a in args), b))
    return out


def check_call_args(ctx, rep, rid, table, skip_self=True, cd=1):
    """table: {fn: {callee_suffix: [expected 'a, b' forms (set)]}}: every call must use an expected form, every expected
    form must be used"""
    for fn, per in table.items():
        if not ctx.has(fn):
            rep.anchor_lost(rid, fn)
            continue
        for callee, expected in per.items():
            got = call_arg_forms(ctx, fn, callee, skip_self, cd)
            matched = set()
            for ln, form, b in got:
                m = _match(form, expected)
                if m is not None:
                    matched.add(m)
                    rep.ob(rid, fn, '%s(%s)' % (callee.split('::')[-1], form), True, '%s:%s' % (b.file, ln), None)
                else:
                    rep.ob(rid, fn, '%s(%s)' % (callee.split('::')[-1], form), False, '%s:%s' % (b.file, ln),
                           '%s is called with `%s`; the argument forms confirmed for this call are %s' % (callee, form, sorted(expected)))
            for form in sorted(set(expected) - matched):
                if any(callee.endswith(k) or k.endswith('::' + callee.split('::')[-1]) and callee.split('::')[-1] == k.split('::')[-1] for k in gone_helpers()) and not got:
                    rep.ob(rid, fn, '%s(%s)' % (callee.split('::')[-1], form), True, None, 'the helper has been inlined into its caller and deleted: its pinned return form is used where tables name it')
                    continue
                rep.ob(rid, fn, '%s(%s)' % (callee.split('::')[-1], form), False, None, 'the call %s(%s) expected in this function is missing' % (callee, form))


def aggregate_forms(ctx, fn, adt):
    """[{field: canon form}] for every aggregate of type adt built in fn (and its closures)"""
    from mir import canon
    out = []
    defs = [d for d in ctx.facts.body_defs() if d == fn or d.startswith(fn + '::{closure')]
    for d in sorted(defs):
        b = ctx.body(d)
        for blk in sorted(b.reach):
            for si, s in enumerate(b.stmts(blk)):
                rv = s.get('rv')
                if rv and rv['r'] == 'agg' and rv.get('kind') == 'adt' and rv['adt'] == adt and not s.get('x', '').startswith('m:'):
                    e = b._pexpr_rvalue(rv, 0, frozenset(), (blk, si) if FLOW else None)
                    out.append(({n: canon(v, 0, 2) for n, v in e[3]}, '%s:%s' % (b.file, s.get('ln'))))
    return out


def check_aggregates(ctx, rep, rid, table, skip_absent=False):
    """table: {fn: {adt: {field: expected form}}} — the (first) aggregate of adt built in fn must have these field forms
    (skip_absent: a field the type no longer has is not an obligation)"""
    for fn, per in table.items():
        if not ctx.has(fn):
            rep.anchor_lost(rid, fn)
            continue
        for adt, want in per.items():
            got = aggregate_forms(ctx, fn, adt)
            if not got:
                rep.ob(rid, fn, adt.split('::')[-1] + ' built', False, None, '%s no longer builds a %s' % (fn.split('::')[-1], adt.split('::')[-1]))
                continue
            fields, where = got[0]
            for f, form in want.items():
                if skip_absent and f not in fields:
                    continue
                ok = _match(fields.get(f, '<absent>'), [form]) is not None
                rep.ob(rid, fn, '%s.%s = %s' % (adt.split('::')[-1], f, form), ok, where, None if ok else
                       '%s.%s is built from `%s` (confirmed: `%s`)' % (adt.split('::')[-1], f, fields.get(f), form))
