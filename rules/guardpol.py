"""A22 — guards keep their polarity.  For every branch on a comparison where exactly one of the two edges leaves the
function at once (an early return: every path from that edge reaches `return` within a few blocks, without a loop or a suspension point, while the other edge does not), the
comparison is recorded as "the function is left early when <orderings of the two operands>".  Written this way the
record does not change when an `if` is inverted and its branches are swapped (`if x == 0 { return … }` and
`if x != 0 { … } else { return … }` leave early under the same condition), but it does change when the operator is
flipped or the boundary moved while the branches stay.  rules/guards_frozen.json holds the records of the pinned tree
(tools/freeze_guards.py); the rule compares, per function and operand pair that still exists, the leave-early
conditions.  Branches where both or neither edge leave at once (value selection, two substantial arms, loop
conditions) have no defined polarity and are not recorded.  Inside a loop the same is done relative to the
iteration: the edge that reaches the loop header again (`continue`) or leaves the loop (`break`) within a few blocks.
Short-circuit chains are recorded as "the second condition is evaluated when the first is {…}": `a && b` and `a || b`
differ exactly there, nested `if`s and De Morgan forms of the same condition do not.  Boolean conditions that are not comparisons (a flag, a predicate call such as `is_empty()`)
are recorded the same way: "left early when it is true / false"."""
import json, os
import argsel
from lib import switch_exprs, bool_targets, norm_bool
from mir import canon

_CASES = {'Lt': {'lt'}, 'Le': {'lt', 'eq'}, 'Gt': {'gt'}, 'Ge': {'gt', 'eq'}, 'Eq': {'eq'}, 'Ne': {'lt', 'gt'}}
_SWAP = {'lt': 'gt', 'gt': 'lt', 'eq': 'eq'}
_ALL = {'lt', 'eq', 'gt'}
_FROZEN = None


def frozen():
    global _FROZEN
    if _FROZEN is None:
        _FROZEN = json.load(open(os.path.join(os.path.dirname(os.path.abspath(__file__)), 'guards_frozen.json')))
    return _FROZEN


def _leaves_at_once(b, start, limit=16):
    """every path from block start reaches `return` within a few blocks: no loop, no suspension point (an early return
    with its error construction, logging and drops; not the body of the function)"""
    seen, todo = set(), [start]
    reached = False
    own = 0
    while todo:
        x = todo.pop()
        if x in seen:
            continue
        seen.add(x)
        if b.blocks[x].get('cleanup'):
            continue
        t = b.term(x)
        k = t.get('t')
        macro = t.get('x', '').startswith('m:')    # logging macros expand to many blocks (and an internal loop): not counted
        if not macro:
            own += 1
            if own > limit:
                return False
        if len(seen) > 400:
            return False
        if k == 'return':
            reached = True
            continue
        if k in ('unreachable', 'resume'):
            continue
        if k == 'yield':
            return False
        succ = [s for s in b.succ(x) if not b.blocks[s].get('cleanup')]
        if not macro and any(b.dominates(s, x) for s in succ):   # back edge: a loop, not an exit
            return False
        todo.extend(succ)
    return reached


def _leaves_iteration_at_once(b, start, loop, limit=16):
    """inside a loop: every path from block start reaches the loop header again (continue) or leaves the loop (break /
    return) within a few blocks, without a suspension point"""
    header, blocks = loop
    seen, todo = set(), [start]
    own = 0
    reached = False
    while todo:
        x = todo.pop()
        if x in seen:
            continue
        if x == header or x not in blocks:
            reached = True
            continue
        seen.add(x)
        if b.blocks[x].get('cleanup'):
            continue
        t = b.term(x)
        k = t.get('t')
        macro = t.get('x', '').startswith('m:')
        if not macro:
            own += 1
            if own > limit:
                return False
        if len(seen) > 400 or k == 'yield':
            return False
        if k in ('unreachable', 'resume'):
            continue
        if k == 'return':
            reached = True
            continue
        todo.extend(s_ for s_ in b.succ(x) if not b.blocks[s_].get('cleanup'))
    return reached


def _innermost_loop(loops, bb):
    best = None
    for h, bl in loops:
        if bb in bl and (best is None or len(bl) < len(best[1])):
            best = (h, bl)
    return best


_CALL_OPS = {'lt': 'Lt', 'le': 'Le', 'gt': 'Gt', 'ge': 'Ge', 'eq': 'Eq', 'ne': 'Ne'}


def _as_cmp(e):
    """(op, lhs, rhs) of a primitive comparison or a PartialEq / PartialOrd call, else None"""
    if e[0] == 'bin' and e[1] in _CASES:
        return e[1], e[2], e[3]
    if e[0] == 'call' and len(e[2]) == 2:
        last = e[1].split('::')[-1]
        if last in _CALL_OPS and ('PartialEq' in e[1] or 'PartialOrd' in e[1] or e[1].startswith('::')):
            return _CALL_OPS[last], e[2][0], e[2][1]
    return None


def sites(ctx, fn):
    """{operand pair: sorted list of leave-early conditions (tuples of orderings)} for fn and its closures"""
    out = {}
    for d in ctx.facts.body_defs():
        if not (d == fn or d.startswith(fn + '::{closure')) or '__CALLSITE' in d:
            continue
        b = ctx.body(d)
        loops = None

        def polarity(bb, tt, tf):
            """(leaving edge is the true edge?, suffix) or None when the branch has no defined polarity"""
            nonlocal loops
            lt_, lf_ = _leaves_at_once(b, tt), _leaves_at_once(b, tf)
            if lt_ != lf_:
                return lt_, ''
            if loops is None:
                from lib import natural_loops
                loops = natural_loops(b)
            lp = _innermost_loop(loops, bb)
            if lp is None:
                return None
            lt_, lf_ = _leaves_iteration_at_once(b, tt, lp), _leaves_iteration_at_once(b, tf, lp)
            if lt_ != lf_:
                return lt_, ' @@ <iteration>'
            return None
        for bb, t, _e in switch_exprs(b):
            if t.get('ty') != 'bool':
                continue
            tt, tf = bool_targets(t)
            if tt is None or tf is None:
                continue
            e, tr = norm_bool(b.pexpr_operand(t['op'], 0, frozenset(), (bb, 't')), True)
            cmp_ = _as_cmp(e)
            if cmp_ is None:
                # a boolean that is not a comparison (a flag, a predicate call): recorded as "left early when it is true / false"
                if e[0] not in ('call', 'field', 'param', 'upvar') or (e[0] == 'call' and e[1].split('::')[-1] in ('poll', 'next', 'branch')):
                    continue
                pol = polarity(bb, tt, tf)
                if pol is None:
                    continue
                lt_, suffix = pol
                val = tr if lt_ else (not tr)      # value of e on the leaving edge
                out.setdefault(canon(e, 0, 1) + ' @@ <bool>' + suffix, set()).add('true' if val else 'false')
                continue
            op_, lhs_, rhs_ = cmp_
            pol = polarity(bb, tt, tf)
            if pol is None:
                continue
            lt_, suffix = pol
            A, B = canon(lhs_, 0, 1), canon(rhs_, 0, 1)
            cases = set(_CASES[op_])
            if not tr:
                cases = _ALL - cases           # orderings under which the true edge is taken
            if not lt_:
                cases = _ALL - cases           # orderings under which the leaving edge is taken
            if B < A:
                A, B = B, A
                cases = {_SWAP[c] for c in cases}
            out.setdefault(A + ' @@ ' + B + suffix, set()).add(','.join(sorted(cases)))
        # short-circuit chains: which outcome of one condition leads straight to the evaluation of the next
        # (`a && b`: b is evaluated when a holds; `a || b`: when it does not) — the same CFG for nested ifs and De Morgan forms
        def cond_key(bb_, t_):
            e_, tr_ = norm_bool(b.pexpr_operand(t_['op'], 0, frozenset(), (bb_, 't')), True)
            c_ = _as_cmp(e_)
            if c_ is not None:
                A_, B_ = canon(c_[1], 0, 1), canon(c_[2], 0, 1)
                cs_ = set(_CASES[c_[0]])
                if not tr_:
                    cs_ = _ALL - cs_
                if B_ < A_:
                    A_, B_ = B_, A_
                    cs_ = {_SWAP[x_] for x_ in cs_}
                return A_ + ' @@ ' + B_, cs_, _ALL
            if e_[0] in ('call', 'field', 'param', 'upvar') and not (e_[0] == 'call' and e_[1].split('::')[-1] in ('poll', 'next', 'branch')):
                return canon(e_, 0, 1), ({'true'} if tr_ else {'false'}), {'true', 'false'}
            return None

        def next_switch(start):
            x, n_ = start, 0
            while n_ < 8:
                t_ = b.term(x)
                if t_.get('t') == 'switch':
                    return x if t_.get('ty') == 'bool' and not t_.get('x', '').startswith('m:') else None
                if t_.get('t') in ('return', 'yield', 'unreachable', 'resume'):
                    return None
                su = [s_ for s_ in b.succ(x) if not b.blocks[s_].get('cleanup')]
                if len(su) != 1 or len([p_ for p_ in b.pred(su[0]) if p_ in b.reach and not b.blocks[p_].get('cleanup')]) != 1:
                    return None
                x, n_ = su[0], n_ + 1
            return None
        for bb, t, _e in switch_exprs(b):
            if t.get('ty') != 'bool':
                continue
            tt, tf = bool_targets(t)
            if tt is None or tf is None:
                continue
            ka = cond_key(bb, t)
            if ka is None:
                continue
            nt, nf = next_switch(tt), next_switch(tf)
            if (nt is None) == (nf is None):
                continue
            nb_, on_true = (nt, True) if nt is not None else (nf, False)
            kb = cond_key(nb_, b.term(nb_))
            if kb is None or kb[0] == ka[0]:
                continue
            holds = ka[1] if on_true else (ka[2] - ka[1])
            out.setdefault(ka[0] + ' @@ => ' + kb[0] + ' @@ <then>', set()).add(','.join(sorted(holds)))
        # predicates: a closure or function whose result *is* the comparison (`.find(|x| x.name == name)`, `fn is_x() { a < b }`)
        for bb in sorted(b.reach):
            cands = []
            for si, st in enumerate(b.stmts(bb)):
                if st.get('lhs') == [0] and st.get('rv') and not st.get('x', '').startswith('m:'):
                    cands.append(b._pexpr_rvalue(st['rv'], 0, frozenset(), (bb, si)))
            t = b.term(bb)
            if t.get('t') == 'call' and t.get('dest') == [0] and not t.get('x', '').startswith('m:'):
                cands.append(b._pexpr_call(bb, t, 0, frozenset(), (bb, 't')) if hasattr(b, '_pexpr_call') else None)
            for e0 in cands:
                if e0 is None:
                    continue
                e, tr = norm_bool(e0, True)
                cmp_ = _as_cmp(e)
                if cmp_ is None:
                    continue
                op_, lhs_, rhs_ = cmp_
                A, B = canon(lhs_, 0, 1), canon(rhs_, 0, 1)
                cases = set(_CASES[op_])
                if not tr:
                    cases = _ALL - cases
                if B < A:
                    A, B = B, A
                    cases = {_SWAP[c] for c in cases}
                out.setdefault(A + ' @@ ' + B + ' @@ <result>', set()).add(','.join(sorted(cases)))
    return {k: sorted(v) for k, v in out.items()}


def collect(ctx):
    out = {}
    for fn in sorted(ctx.facts.fns):
        if not fn.lstrip('<').startswith(('server::', 'iggy::')) or not ctx.facts.fns[fn].get('has_body'):
            continue
        try:
            s = sites(ctx, fn)
        except Exception:
            continue
        if s:
            out[fn] = s
    return out


FLOORS = {'C01': 96, 'C02': 95, 'C03': 137, 'C04': 84, 'C05': 90, 'C06': 100, 'C07': 20, 'C08': 13, 'C09': 119, 'C10': 71, 'C11': 8, 'C12': 84, 'C13': 501, 'C14': 91, 'C15': 46, 'C16': 238, 'C17': 98, 'C18': 49, 'C19': 49, 'C20': 73}   # ~70 % of the records counted on the pinned tree


def check(ctx, rep, prop):
    rid = 'R%s.pol' % prop[1:]
    rep.rule(rid, 'guards keep their polarity: where a function still leaves early on a comparison of the same two operands as on the pinned tree, it leaves under the same orderings of the two (recorded relative to the leaving edge, so an inverted `if` with swapped branches is the same guard; a flipped operator or a moved boundary is not)', floor=FLOORS.get(prop), analysis='A22')
    n = 0
    for fn, pairs in sorted(frozen().items()):
        if not argsel.in_scope(ctx, fn, prop) or not ctx.has(fn):
            continue
        try:
            cur = sites(ctx, fn)
        except Exception:
            continue
        for key, want in pairs.items():
            if key not in cur:
                continue
            n += 1
            ok = cur[key] == want
            parts = key.split(' @@ ')
            a_, b_ = parts[0], parts[1]
            where_ = 'the iteration' if parts[-1] == '<iteration>' else 'the function'
            if parts[-1] == '<then>':
                first_, second_ = key.split(' @@ => ')[0], key.split(' @@ => ')[1].rsplit(' @@ ', 1)[0]
                msg = 'the condition on `%s` is now evaluated when the condition on `%s` is {%s} (pinned tree: {%s}): `&&` and `||` were exchanged, or a nested test moved to the other branch' % (
                    second_.replace(' @@ ', ' / '), first_.replace(' @@ ', ' / '), ' | '.join(cur[key]), ' | '.join(want))
            elif parts[-1] == '<result>':
                msg = 'the predicate comparing `%s` with `%s` now holds when {%s} (pinned tree: when {%s})' % (a_, b_, ' | '.join(cur[key]), ' | '.join(want))
            else:
                what = ('on `%s`' % a_) if b_ == '<bool>' else ('comparing `%s` with `%s`' % (a_, b_))
                msg = '%s, %s is now left early when {%s} (pinned tree: when {%s})' % (what, where_, ' | '.join(cur[key]), ' | '.join(want))
            rep.ob(rid, fn, key[:140], ok, None, None if ok else msg)
    return n
