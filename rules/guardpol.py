"""A22 — guards keep their polarity.  For every branch on a comparison where exactly one of the two edges leaves the
function at once (an early return: every path from that edge reaches `return` within a few blocks, without a loop or a suspension point, while the other edge does not), the
comparison is recorded as "the function is left early when <orderings of the two operands>".  Written this way the
record does not change when an `if` is inverted and its branches are swapped (`if x == 0 { return … }` and
`if x != 0 { … } else { return … }` leave early under the same condition), but it does change when the operator is
flipped or the boundary moved while the branches stay.  rules/guards_frozen.json holds the records of the pinned tree
(tools/freeze_guards.py); the rule compares, per function and operand pair that still exists, the leave-early
conditions.  Branches where both or neither edge leave at once (value selection, two substantial arms, loop
conditions) have no defined polarity and are not recorded.  Boolean conditions that are not comparisons (a flag, a predicate call such as `is_empty()`)
are recorded the same way: "left early when it is true / false"."""
import json, os
import argsel
from lib import switch_exprs, bool_targets, norm_bool
from mir import canon

_CASES = {'Lt': {'lt'}, 'Le': {'lt', 'eq'}, 'Gt': {'gt'}, 'Ge': {'gt', 'eq'}, 'Eq': {'eq'}, 'Ne': {'lt', 'gt'}}
_SWAP = {'lt': 'gt', 'gt': 'lt', 'eq': 'eq'}
_ALL = {'lt', 'eq', 'gt'}
_FROZEN = None


def frozen():
    global _FROZEN
    if _FROZEN is None:
        _FROZEN = json.load(open(os.path.join(os.path.dirname(os.path.abspath(__file__)), 'guards_frozen.json')))
    return _FROZEN


def _leaves_at_once(b, start, limit=16):
    """every path from block start reaches `return` within a few blocks: no loop, no suspension point (an early return
    with its error construction, logging and drops; not the body of the function)"""
    seen, todo = set(), [start]
    reached = False
    own = 0
    while todo:
        x = todo.pop()
        if x in seen:
            continue
        seen.add(x)
        if b.blocks[x].get('cleanup'):
            continue
        t = b.term(x)
        k = t.get('t')
        macro = t.get('x', '').startswith('m:')    # logging macros expand to many blocks (and an internal loop): not counted
        if not macro:
            own += 1
            if own > limit:
                return False
        if len(seen) > 400:
            return False
        if k == 'return':
            reached = True
            continue
        if k in ('unreachable', 'resume'):
            continue
        if k == 'yield':
            return False
        succ = [s for s in b.succ(x) if not b.blocks[s].get('cleanup')]
        if not macro and any(b.dominates(s, x) for s in succ):   # back edge: a loop, not an exit
            return False
        todo.extend(succ)
    return reached


_CALL_OPS = {'lt': 'Lt', 'le': 'Le', 'gt': 'Gt', 'ge': 'Ge', 'eq': 'Eq', 'ne': 'Ne'}


def _as_cmp(e):
    """(op, lhs, rhs) of a primitive comparison or a PartialEq / PartialOrd call, else None"""
    if e[0] == 'bin' and e[1] in _CASES:
        return e[1], e[2], e[3]
    if e[0] == 'call' and len(e[2]) == 2:
        last = e[1].split('::')[-1]
        if last in _CALL_OPS and ('PartialEq' in e[1] or 'PartialOrd' in e[1] or e[1].startswith('::')):
            return _CALL_OPS[last], e[2][0], e[2][1]
    return None


def sites(ctx, fn):
    """{operand pair: sorted list of leave-early conditions (tuples of orderings)} for fn and its closures"""
    out = {}
    for d in ctx.facts.body_defs():
        if not (d == fn or d.startswith(fn + '::{closure')) or '__CALLSITE' in d:
            continue
        b = ctx.body(d)
        for bb, t, _e in switch_exprs(b):
            if t.get('ty') != 'bool':
                continue
            tt, tf = bool_targets(t)
            if tt is None or tf is None:
                continue
            e, tr = norm_bool(b.pexpr_operand(t['op'], 0, frozenset(), (bb, 't')), True)
            cmp_ = _as_cmp(e)
            if cmp_ is None:
                # a boolean that is not a comparison (a flag, a predicate call): recorded as "left early when it is true / false"
                if e[0] not in ('call', 'field', 'param', 'upvar') or (e[0] == 'call' and e[1].split('::')[-1] in ('poll', 'next', 'branch')):
                    continue
                lt_, lf_ = _leaves_at_once(b, tt), _leaves_at_once(b, tf)
                if lt_ == lf_:
                    continue
                val = tr if lt_ else (not tr)      # value of e on the leaving edge
                out.setdefault(canon(e, 0, 1) + ' @@ <bool>', set()).add('true' if val else 'false')
                continue
            op_, lhs_, rhs_ = cmp_
            lt_, lf_ = _leaves_at_once(b, tt), _leaves_at_once(b, tf)
            if lt_ == lf_:
                continue
            A, B = canon(lhs_, 0, 1), canon(rhs_, 0, 1)
            cases = set(_CASES[op_])
            if not tr:
                cases = _ALL - cases           # orderings under which the true edge is taken
            if not lt_:
                cases = _ALL - cases           # orderings under which the leaving edge is taken
            if B < A:
                A, B = B, A
                cases = {_SWAP[c] for c in cases}
            out.setdefault(A + ' @@ ' + B, set()).add(','.join(sorted(cases)))
        # predicates: a closure or function whose result *is* the comparison (`.find(|x| x.name == name)`, `fn is_x() { a < b }`)
        for bb in sorted(b.reach):
            cands = []
            for si, st in enumerate(b.stmts(bb)):
                if st.get('lhs') == [0] and st.get('rv') and not st.get('x', '').startswith('m:'):
                    cands.append(b._pexpr_rvalue(st['rv'], 0, frozenset(), (bb, si)))
            t = b.term(bb)
            if t.get('t') == 'call' and t.get('dest') == [0] and not t.get('x', '').startswith('m:'):
                cands.append(b._pexpr_call(bb, t, 0, frozenset(), (bb, 't')) if hasattr(b, '_pexpr_call') else None)
            for e0 in cands:
                if e0 is None:
                    continue
                e, tr = norm_bool(e0, True)
                cmp_ = _as_cmp(e)
                if cmp_ is None:
                    continue
                op_, lhs_, rhs_ = cmp_
                A, B = canon(lhs_, 0, 1), canon(rhs_, 0, 1)
                cases = set(_CASES[op_])
                if not tr:
                    cases = _ALL - cases
                if B < A:
                    A, B = B, A
                    cases = {_SWAP[c] for c in cases}
                out.setdefault(A + ' @@ ' + B + ' @@ <result>', set()).add(','.join(sorted(cases)))
    return {k: sorted(v) for k, v in out.items()}


def collect(ctx):
    out = {}
    for fn in sorted(ctx.facts.fns):
        if not fn.lstrip('<').startswith(('server::', 'iggy::')) or not ctx.facts.fns[fn].get('has_body'):
            continue
        try:
            s = sites(ctx, fn)
        except Exception:
            continue
        if s:
            out[fn] = s
    return out


FLOORS = {'C01': 62, 'C02': 62, 'C03': 85, 'C04': 54, 'C05': 44, 'C06': 53, 'C07': 9, 'C08': 9, 'C09': 56, 'C10': 38, 'C11': 4, 'C12': 53, 'C13': 197, 'C14': 56, 'C15': 23, 'C16': 134, 'C17': 44, 'C18': 28, 'C19': 31, 'C20': 30}   # ~70 % of the guards counted on the pinned tree


def check(ctx, rep, prop):
    rid = 'R%s.pol' % prop[1:]
    rep.rule(rid, 'guards keep their polarity: where a function still leaves early on a comparison of the same two operands as on the pinned tree, it leaves under the same orderings of the two (recorded relative to the leaving edge, so an inverted `if` with swapped branches is the same guard; a flipped operator or a moved boundary is not)', floor=FLOORS.get(prop), analysis='A22')
    n = 0
    for fn, pairs in sorted(frozen().items()):
        if not argsel.in_scope(ctx, fn, prop) or not ctx.has(fn):
            continue
        try:
            cur = sites(ctx, fn)
        except Exception:
            continue
        for key, want in pairs.items():
            if key not in cur:
                continue
            n += 1
            ok = cur[key] == want
            parts = key.split(' @@ ')
            a_, b_ = parts[0], parts[1]
            if parts[-1] == '<result>':
                msg = 'the predicate comparing `%s` with `%s` now holds when {%s} (pinned tree: when {%s})' % (a_, b_, ' | '.join(cur[key]), ' | '.join(want))
            else:
                what = ('on `%s`' % a_) if b_ == '<bool>' else ('comparing `%s` with `%s`' % (a_, b_))
                msg = '%s, the function now leaves early when {%s} (pinned tree: when {%s})' % (what, ' | '.join(cur[key]), ' | '.join(want))
            rep.ob(rid, fn, key[:140], ok, None, None if ok else msg)
    return n
