"""A13 (id kinds): an argument whose expression is known to denote one kind of id (stream, topic, partition, user,
consumer group, client, member) must not be passed to a parameter declared for a different kind."""
import re
from mir import walk, render, short
from lib import strip_adaptors, is_user_call, in_crate

KIND_WORDS = [
    ('consumer_group', 'group'), ('group', 'group'), ('stream', 'stream'), ('topic', 'topic'), ('partition', 'partition'),
    ('user', 'user'), ('client', 'client'), ('member', 'member'), ('consumer', 'consumer'),
]
ID_NAME = re.compile(r'^(?:[a-z_]*?_)?(consumer_group|group|stream|topic|partition|user|client|member|consumer)_id(?:_value|_u32)?$')


def name_kind(n):
    if n is None:
        return None
    m = ID_NAME.match(n)
    if not m:
        return None
    w = m.group(1)
    return 'group' if w in ('consumer_group', 'group') else w


def expr_kind(e, depth=0):
    if depth > 6 or not isinstance(e, tuple):
        return None
    e = strip_adaptors(e)
    k = e[0]
    if k == 'field':
        nk = name_kind(e[2])
        if nk:
            return nk
        if e[2] in ('0', 'value'):
            return expr_kind(e[1], depth + 1)
        return None
    if k == 'local':
        return name_kind(e[2])
    if k in ('param', 'upvar'):
        return name_kind(e[1])
    if k == 'call':
        last = e[1].split('::')[-1]
        if last in ('get_u32_value', 'unwrap', 'expect', 'unwrap_or_default', 'clone', 'into', 'try_into', 'from', 'to_owned') and e[2]:
            return expr_kind(e[2][0], depth + 1)
        if last == 'get_user_id':
            return 'user'
        nk = name_kind(last.replace('get_', ''))
        return nk
    if k == 'variant':
        return expr_kind(e[1], depth + 1)
    return None


def check_calls(ctx, rep, rid, scope_prefixes, callee_prefix='server::'):
    """one obligation per (call site, id-kinded parameter) in functions whose def starts with one of scope_prefixes"""
    n = 0
    for d in sorted(ctx.facts.body_defs()):
        if not any(in_crate(d, p) for p in scope_prefixes):
            continue
        raw = ctx.facts.raw_body(d)
        b = None
        for bl in raw['blocks']:
            t = bl.get('term')
            if not t or t.get('t') != 'call':
                continue
            callee = t.get('res') or t.get('fn')
            if not callee or not callee.startswith(callee_prefix):
                continue
            rec = ctx.facts.fns.get(callee)
            if not rec or not rec.get('pnames'):
                continue
            kinds = [name_kind(p) for p in rec['pnames']]
            if not any(kinds):
                continue
            if b is None:
                b = ctx.body(d)
            if t.get('x', '').startswith('m:'):
                continue
            for i, pk in enumerate(kinds):
                if pk is None or i >= len(t['args']):
                    continue
                ae = b.expr_operand(t['args'][i])
                ak = expr_kind(ae)
                if ak is None:
                    continue
                n += 1
                ok = (ak == pk) or {ak, pk} <= {'member', 'client'} or {ak, pk} <= {'consumer', 'group'} and False
                rep.ob(rid, ctx.user_fn_of(d), '%s(%s:=%s)' % (short(callee), rec['pnames'][i], _nm(ae)), ok, '%s:%s' % (b.file, t.get('ln')),
                       None if ok else 'parameter `%s` (a %s id) of %s receives `%s`, which is a %s id' % (rec['pnames'][i], pk, short(callee), render(ae)[:80], ak))
    return n


def _nm(e):
    e = strip_adaptors(e)
    if e[0] == 'field':
        return e[2]
    if e[0] == 'local':
        return e[2] or '_'
    if e[0] in ('param', 'upvar'):
        return e[1]
    if e[0] == 'call':
        return e[1].split('::')[-1] + '()'
    return e[0]


CONTAINER_KIND = {'streams': 'stream', 'topics': 'topic', 'partitions': 'partition', 'users': 'user', 'consumer_groups': 'group', 'clients': 'client',
                  'streams_ids': None, 'topics_ids': None, 'consumer_groups_ids': None}
MAP_OPS = ('get', 'get_mut', 'remove', 'insert', 'contains_key', 'entry')


def check_map_keys(ctx, rep, rid, scope_prefixes):
    """one obligation per map operation `X.<entities>.get/remove/insert(key ..)` whose key expression has a known id kind:
    the key kind is the kind of the entities the map holds"""
    n = 0
    for d in sorted(ctx.facts.body_defs()):
        if not any(in_crate(d, p) for p in scope_prefixes):
            continue
        raw = ctx.facts.raw_body(d)
        if not any((bl.get('term') or {}).get('t') == 'call' and ((bl['term'].get('fn') or '').split('::')[-1] in MAP_OPS) for bl in raw['blocks']):
            continue
        b = ctx.body(d)
        for c in b.calls:
            if not is_user_call(c) or (c.fn or '').split('::')[-1] not in MAP_OPS or len(c.args) < 2:
                continue
            if not any(w in (c.fn or '') for w in ('HashMap', 'AHashMap', 'BTreeMap', 'DashMap')):
                continue
            recv = strip_adaptors(b.expr_operand(c.args[0]))
            if recv[0] != 'field' or CONTAINER_KIND.get(recv[2]) is None:
                # a named local/param that holds the map (`topics`, `groups`)
                nm = recv[2] if recv[0] == 'local' else (recv[1] if recv[0] in ('param', 'upvar') else None)
                ck = CONTAINER_KIND.get(nm) if nm else None
                cname = nm
            else:
                ck = CONTAINER_KIND[recv[2]]
                cname = recv[2]
            if ck is None:
                continue
            ke = b.expr_operand(c.args[1])
            kk = expr_kind(ke)
            if kk is None:
                continue
            n += 1
            ok = kk == ck
            rep.ob(rid, ctx.user_fn_of(d), '%s.%s(%s)' % (cname, (c.fn or '').split('::')[-1], _nm(ke)), ok, c.where(),
                   None if ok else 'the map of %ss `%s` is accessed with `%s`, which is a %s id' % (ck, cname, render(ke)[:80], kk))
    return n


# ---------------------------------------------------------------------------------------------------- shared counters
COUNTER_PARAM = re.compile(r'^(size|messages_count|segments_count)_of_parent_(stream|topic|partition)$')
OWN_COUNTER = {'size_bytes': 'size', 'messages_count': 'messages_count', 'segments_count': 'segments_count'}
LEVEL_OF_ADT = {'server::streaming::streams::stream::Stream': 'stream', 'server::streaming::topics::topic::Topic': 'topic',
                'server::streaming::partitions::partition::Partition': 'partition'}


def counter_kind(e):
    """(what, level) of a shared counter expression: `x.size_of_parent_topic` or the own counter `topic.size_bytes`"""
    e = strip_adaptors(e)
    if e[0] == 'call' and e[1].split('::')[-1] in ('clone',) and e[2]:
        return counter_kind(e[2][0])
    if e[0] == 'field':
        m = COUNTER_PARAM.match(e[2])
        if m:
            return (m.group(1), m.group(2))
        if e[2] in OWN_COUNTER and len(e) > 3 and e[3] in LEVEL_OF_ADT:
            return (OWN_COUNTER[e[2]], LEVEL_OF_ADT[e[3]])
        return None
    if e[0] in ('param', 'upvar'):
        m = COUNTER_PARAM.match(e[1])
        return (m.group(1), m.group(2)) if m else None
    if e[0] == 'local' and e[2]:
        m = COUNTER_PARAM.match(e[2])
        return (m.group(1), m.group(2)) if m else None
    return None


def check_counter_kinds(ctx, rep, rid, scope_prefixes):
    """the shared size / message / segment counters handed down the hierarchy reach the parameter of their own kind and level
    (`size_of_parent_topic` receives a topic's size counter, not the stream's)"""
    n = 0
    for d in sorted(ctx.facts.body_defs()):
        if not any(in_crate(d, p) for p in scope_prefixes) or '::tests' in d:
            continue
        raw = ctx.facts.raw_body(d)
        b = None
        for bl in raw['blocks']:
            t = bl.get('term')
            if not t or t.get('t') != 'call' or t.get('x', '').startswith('m:'):
                continue
            callee = t.get('res') or t.get('fn')
            rec = ctx.facts.fns.get(callee) if callee else None
            if not rec or not rec.get('pnames'):
                continue
            pk = [COUNTER_PARAM.match(p or '') for p in rec['pnames']]
            if not any(pk):
                continue
            if b is None:
                b = ctx.body(d)
            for i, m in enumerate(pk):
                if not m or i >= len(t['args']):
                    continue
                ae = b.expr_operand(t['args'][i])
                ak = counter_kind(ae)
                if ak is None:
                    continue
                n += 1
                want = (m.group(1), m.group(2))
                ok = ak == want
                rep.ob(rid, ctx.user_fn_of(d), '%s(%s:=%s)' % (short(callee), rec['pnames'][i], _nm(ae)), ok, '%s:%s' % (b.file, t.get('ln')),
                       None if ok else 'parameter `%s` of %s receives `%s`, which is the %s counter of a %s: sizes/counts are then added to the wrong level (or twice to one level)' % (rec['pnames'][i], short(callee), render(ae)[:80], ak[0], ak[1]))
    return n
