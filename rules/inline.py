"""Helper look-through (facts-level inlining of functions that did not exist on the reference tree).

The rule tables name the functions of the reference tree.  A function whose path is not in rules/known_fns.json is new
to the rules: typically the product of an extract-method refactoring.  Instead of treating it as an unknown writer /
losing the anchor, every call to such a function is replaced by its body (locals and blocks renumbered, parameters
bound by assignments, `return` turned into an assignment to the call's destination), so the caller is analysed as if
the code had never been moved.  Inlining preserves the semantics of the caller, so it can neither hide nor create a
violation; a function is looked through only when it is a plain (non-trait) function or inherent method.  An `async fn`
helper that is awaited is looked through as well: the coroutine body replaces the `Future::poll` of the await loop.
"""
import copy

MAX_BLOCKS = 400
MAX_DEPTH = 4


def _place(p, lm):
    out = [lm(p[0])]
    for pr in p[1:]:
        if isinstance(pr, list) and pr and pr[0] == '[]':
            out.append(['[]', lm(pr[1])])
        else:
            out.append(pr)
    return out


def _operand(op, lm):
    if 'm' in op:
        o = dict(op); o['m'] = _place(op['m'], lm); return o
    if 'c' in op:
        o = dict(op); o['c'] = _place(op['c'], lm); return o
    return op


def _rv(rv, lm):
    o = dict(rv)
    for k in ('a', 'b'):
        if k in o:
            o[k] = _operand(o[k], lm)
    if 'p' in o:
        o['p'] = _place(o['p'], lm)
    if 'ops' in o:
        o['ops'] = [_operand(x, lm) for x in o['ops']]
    return o


def _stmt(s, lm):
    o = dict(s)
    if 'lhs' in o:
        o['lhs'] = _place(o['lhs'], lm)
        o['rv'] = _rv(o['rv'], lm)
    if 'setdiscr' in o:
        o['setdiscr'] = _place(o['setdiscr'], lm)
    return o


def _term(t, lm, bm):
    o = dict(t)
    k = o.get('t')
    for key in ('to', 'else', 'unwind', 'false_edge', 'drop'):
        if isinstance(o.get(key), int) and not isinstance(o.get(key), bool):
            o[key] = bm(o[key])
    if k == 'switch':
        o['op'] = _operand(o['op'], lm)
        o['arms'] = [[v, bm(b)] for v, b in o['arms']]
    elif k == 'drop':
        o['p'] = _place(o['p'], lm)
    elif k == 'call':
        o['args'] = [_operand(a, lm) for a in o.get('args', [])]
        o['dest'] = _place(o['dest'], lm)
        if 'fnop' in o:
            o['fnop'] = _operand(o['fnop'], lm)
    elif k == 'assert':
        o['cond'] = _operand(o['cond'], lm)
    elif k == 'yield':
        o['val'] = _operand(o['val'], lm)
        o['resume_arg'] = _place(o['resume_arg'], lm)
    return o


def callee_of(t):
    return t.get('res') or t.get('fn')


def splice_sync(caller, bi, callee):
    """replace the call terminating block bi of caller (a raw body dict, modified in place) by callee's body"""
    t = caller['blocks'][bi]['term']
    off = len(caller['locals'])
    nb = len(caller['blocks'])
    lm = lambda l: off + l
    bm = lambda b: nb + b
    caller['locals'].extend(callee['locals'])
    argc = callee['argc']
    ln = t.get('ln')
    pro = []
    for k, a in enumerate(t.get('args', [])[:argc]):
        pro.append({'lhs': [off + 1 + k], 'rv': {'r': 'use', 'a': a}, 'ln': ln, 'x': t.get('x', '')})
    caller['blocks'][bi]['s'] = caller['blocks'][bi]['s'] + pro
    caller['blocks'][bi]['term'] = {'t': 'goto', 'to': nb, 'ln': ln, 'x': t.get('x', ''), 'inl': callee['def']}
    cont, unwind = t.get('to'), t.get('unwind')
    for blk in callee['blocks']:
        nblk = {'s': [_stmt(s, lm) for s in blk['s']], 'inl': callee['def'], 'inl_cont': cont}
        if blk.get('cleanup'):
            nblk['cleanup'] = True
        tm = blk.get('term') or {'t': 'unreachable'}
        if tm.get('t') == 'return':
            nblk['s'].append({'lhs': t['dest'], 'rv': {'r': 'use', 'a': {'m': [off]}}, 'ln': ln, 'x': t.get('x', '')})
            nblk['term'] = {'t': 'goto', 'to': cont, 'ln': ln} if cont is not None else {'t': 'unreachable', 'ln': ln}
        elif tm.get('t') == 'resume' and unwind is not None:
            nblk['term'] = {'t': 'goto', 'to': unwind, 'ln': ln}
        else:
            nblk['term'] = _term(tm, lm, bm)
        caller['blocks'].append(nblk)
    # names of the callee's own variables (not of its parameters: those alias caller expressions)
    for name, place in callee.get('vars', []):
        if place and isinstance(place[0], int) and place[0] > argc:
            caller['vars'].append([name, _place(place, lm)])
    _thread_errors(caller, nb, off, cont)


def _thread_errors(caller, nb, off, cont):
    """Jump threading for a spliced helper whose result the caller hands to `?`.  All returns of the helper join at the
    caller's continuation and only the caller's `?` separates Ok from Err again, so on the CFG an error produced in
    the helper seems able to reach the caller's success branch.  Where the continuation is recognisably
    `[match Poll::Ready] -> Try::branch(result) -> switch`, the error exits of the helper (an `Err(..)` aggregate or a
    `?` residual written to the helper's return place) get their own copy of the tail (drops, the return block, the
    Try::branch call) that ends in the Break arm of that switch.  Anything unrecognised is left as it was."""
    blocks = caller['blocks']
    if cont is None:
        return
    # ---- recognise the continuation chain up to the switch that follows Try::branch
    chain, x = [], cont
    for _ in range(8):
        bl = blocks[x]
        t = bl.get('term') or {}
        k = t.get('t')
        if k == 'call' and (t.get('fn') or '') == 'std::ops::Try::branch':
            chain.append((x, None))
            break
        if k in ('goto', 'drop') and isinstance(t.get('to'), int):
            chain.append((x, t['to']))
            x = t['to']
            continue
        if k == 'switch' and bl['s'] and bl['s'][-1].get('rv', {}).get('r') == 'discr':
            ready = [tb for v, tb in t.get('arms', []) if v == 0]     # Poll::Ready = 0
            if len(ready) != 1:
                return
            chain.append((x, ready[0]))
            x = ready[0]
            continue
        return
    else:
        return
    tb_bi = chain[-1][0]
    nxt = blocks[tb_bi]['term'].get('to')
    if not isinstance(nxt, int):
        return
    tn = blocks[nxt].get('term') or {}
    if tn.get('t') != 'switch':
        return
    brk = [tb for v, tb in tn.get('arms', []) if v == 1]            # ControlFlow::Break = 1
    if len(brk) != 1:
        return
    # ---- error seeds of the spliced region
    end = len(blocks)
    seeds = []
    for i in range(nb, end):
        bl = blocks[i]
        if bl.get('cleanup'):
            continue
        t = bl.get('term') or {}
        err = any(s_.get('lhs') == [off] and s_.get('rv', {}).get('r') == 'agg' and s_['rv'].get('variant') == 'Err' and 'Result' in (s_['rv'].get('adt') or '') for s_ in bl['s'])
        err = err or (t.get('t') == 'call' and (t.get('fn') or '') == 'std::ops::FromResidual::from_residual' and t.get('dest') == [off])
        if err:
            seeds.append(i)
    if not seeds:
        return
    # ---- the tail of every seed: gotos / drops up to the block that jumps to the continuation
    copies = {}
    new_blocks = []

    def copy_tail(i, depth=0):
        if i in copies:
            return copies[i]
        if depth > 12 or not (nb <= i < end):
            return None
        bl = blocks[i]
        t = bl.get('term') or {}
        if any(s_.get('lhs') == [off] for s_ in bl['s']) or bl.get('cleanup'):
            return None
        idx = end + len(new_blocks)
        nblk = {'s': [dict(s_) for s_ in bl['s']], 'inl': bl.get('inl'), 'inl_cont': bl.get('inl_cont'), 'inl_err': True}
        new_blocks.append(nblk)
        copies[i] = idx
        if t.get('t') in ('goto', 'drop') and t.get('to') == cont:
            nblk['term'] = dict(t, to=None)      # patched below: jumps into the threaded chain
            nblk['_ret'] = True
            return idx
        if t.get('t') in ('goto', 'drop') and isinstance(t.get('to'), int):
            sub = copy_tail(t['to'], depth + 1)
            if sub is None:
                return None
            nblk['term'] = dict(t, to=sub)
            return idx
        return None
    plan = {}
    for sd in seeds:
        t = blocks[sd]['term']
        tgt = t.get('to')
        if not isinstance(tgt, int):
            return
        c = copy_tail(tgt)
        if c is None:
            return
        plan[sd] = c
    # ---- the threaded chain: copies of the continuation blocks with the known arms taken, ending in the Break arm
    base = end + len(new_blocks)
    for k_, (bi, taken) in enumerate(chain):
        bl = blocks[bi]
        t = dict(bl['term'])
        nblk = {'s': [dict(s_) for s_ in bl['s']], 'inl_err': True}
        if t.get('t') == 'switch':
            nblk['term'] = {'t': 'goto', 'to': base + k_ + 1, 'ln': t.get('ln')}
        elif t.get('t') == 'call':
            t['to'] = base + len(chain)
            nblk['term'] = t
        else:
            t['to'] = base + k_ + 1
            nblk['term'] = t
        new_blocks.append(nblk)
    new_blocks.append({'s': [dict(s_) for s_ in blocks[nxt]['s']], 'term': {'t': 'goto', 'to': brk[0], 'ln': tn.get('ln')}, 'inl_err': True})
    for nblk in new_blocks:
        if nblk.pop('_ret', False):
            nblk['term']['to'] = base
    blocks.extend(new_blocks)
    for sd, c in plan.items():
        blocks[sd]['term'] = dict(blocks[sd]['term'], to=c)


def _env_rewrite_place(p, off, envmap):
    """place of a coroutine body: `_1.upvar` -> the local holding that argument"""
    if p[0] == 1:
        rest = p[1:]
        while rest and rest[0] == '*':
            rest = rest[1:]
        if rest and isinstance(rest[0], list) and rest[0][0] == '.' and rest[0][1] == '{env}' and rest[0][2] in envmap:
            return [envmap[rest[0][2]]] + [(['[]', off + pr[1]] if isinstance(pr, list) and pr and pr[0] == '[]' else pr) for pr in rest[1:]]
    return None


def splice_async(caller, call_bi, poll_bi, shell, co):
    """`let f = helper(args); ... poll(f)`: the coroutine body `co` of the async fn `shell` replaces the poll call.
    Upvars of the coroutine (the captured parameters) are bound to the arguments of the helper call."""
    ct = caller['blocks'][call_bi]['term']
    pt = caller['blocks'][poll_bi]['term']
    off = len(caller['locals'])
    nb = len(caller['blocks'])
    caller['locals'].extend(co['locals'])
    # parameters of the shell become fresh locals bound at the original call site
    pnames = shell.get('_pnames') or []
    envmap = {}
    pro = []
    for k, a in enumerate(ct.get('args', [])):
        caller['locals'].append(shell['locals'][1 + k] if 1 + k < len(shell['locals']) else '?')
        l = len(caller['locals']) - 1
        pro.append({'lhs': [l], 'rv': {'r': 'use', 'a': a}, 'ln': ct.get('ln'), 'x': ct.get('x', '')})
        if k < len(pnames):
            envmap[pnames[k]] = l
    caller['blocks'][call_bi]['s'] = caller['blocks'][call_bi]['s'] + pro

    def lm(l):
        return off + l

    def place(p):
        r = _env_rewrite_place(p, off, envmap)
        return r if r is not None else _place(p, lm)

    def operand(op):
        if 'm' in op:
            o = dict(op); o['m'] = place(op['m']); return o
        if 'c' in op:
            o = dict(op); o['c'] = place(op['c']); return o
        return op

    def rv(r):
        o = dict(r)
        for k in ('a', 'b'):
            if k in o:
                o[k] = operand(o[k])
        if 'p' in o:
            o['p'] = place(o['p'])
        if 'ops' in o:
            o['ops'] = [operand(x) for x in o['ops']]
        return o

    bm = lambda b: nb + b
    ln = pt.get('ln')
    cont, unwind = pt.get('to'), pt.get('unwind')
    caller['blocks'][poll_bi]['term'] = {'t': 'goto', 'to': nb, 'ln': ln, 'x': pt.get('x', ''), 'inl': shell['def']}
    for blk in co['blocks']:
        nblk = {'s': [], 'inl': co['def'], 'inl_cont': cont}
        for s in blk['s']:
            o = dict(s)
            if 'lhs' in o:
                o['lhs'] = place(o['lhs']); o['rv'] = rv(o['rv'])
            if 'setdiscr' in o:
                o['setdiscr'] = place(o['setdiscr'])
            nblk['s'].append(o)
        if blk.get('cleanup'):
            nblk['cleanup'] = True
        tm = blk.get('term') or {'t': 'unreachable'}
        k = tm.get('t')
        if k == 'return':
            nblk['s'].append({'lhs': pt['dest'], 'rv': {'r': 'agg', 'kind': 'adt', 'adt': 'std::task::Poll', 'variant': 'Ready', 'names': ['0'],
                                                         'ops': [{'m': [off]}]}, 'ln': ln, 'x': pt.get('x', '')})
            nblk['term'] = {'t': 'goto', 'to': cont, 'ln': ln} if cont is not None else {'t': 'unreachable', 'ln': ln}
        elif k == 'resume' and unwind is not None:
            nblk['term'] = {'t': 'goto', 'to': unwind, 'ln': ln}
        else:
            o = dict(tm)
            for key in ('to', 'else', 'unwind', 'false_edge', 'drop'):
                if isinstance(o.get(key), int) and not isinstance(o.get(key), bool):
                    o[key] = bm(o[key])
            if k == 'switch':
                o['op'] = operand(o['op']); o['arms'] = [[v, bm(b)] for v, b in o['arms']]
            elif k == 'drop':
                o['p'] = place(o['p'])
            elif k == 'call':
                o['args'] = [operand(a) for a in o.get('args', [])]
                o['dest'] = place(o['dest'])
                if 'fnop' in o:
                    o['fnop'] = operand(o['fnop'])
            elif k == 'assert':
                o['cond'] = operand(o['cond'])
            elif k == 'yield':
                o['val'] = operand(o['val']); o['resume_arg'] = place(o['resume_arg'])
            nblk['term'] = o
        caller['blocks'].append(nblk)
    for name, pl in co.get('vars', []):
        if pl and isinstance(pl[0], int) and pl[0] > co['argc']:
            caller['vars'].append([name, place(pl)])
    _thread_errors(caller, nb, off, cont)


def _local_flow(body, start_local):
    """locals a future value flows into by plain moves / into_future (forward, within the body)"""
    seen = {start_local}
    changed = True
    while changed:
        changed = False
        for blk in body['blocks']:
            for s in blk['s']:
                if 'lhs' in s and len(s['lhs']) == 1 and s['lhs'][0] not in seen:
                    r = s['rv']
                    src = None
                    if r['r'] in ('use', 'cast') and ('m' in r['a'] or 'c' in r['a']):
                        src = r['a'].get('m') or r['a'].get('c')
                    elif r['r'] in ('ref', 'rawptr'):
                        src = r['p']
                    if src and src[0] in seen and all(x == '*' for x in src[1:]):
                        seen.add(s['lhs'][0]); changed = True
            t = blk.get('term') or {}
            if t.get('t') == 'call' and len(t.get('dest', [])) == 1 and t['dest'][0] not in seen:
                fn = t.get('fn') or ''
                if fn.endswith('IntoFuture::into_future') or fn.endswith('Pin::new_unchecked') or fn.endswith('Pin::new') or fn.endswith('Box::pin'):
                    a = t['args'][0] if t.get('args') else None
                    src = a and (a.get('m') or a.get('c'))
                    if src and src[0] in seen and all(x == '*' for x in src[1:]):
                        seen.add(t['dest'][0]); changed = True
    return seen


def expand(facts, body, depth=0, stack=()):
    """returns body with every call to a new (unknown) helper replaced by the helper's body; input is not modified"""
    new = facts.new_fns
    if not new:
        return body
    out = None
    bi = 0
    guard = 0
    while bi < len((out or body)['blocks']):
        cur = out or body
        if len(cur['blocks']) > MAX_BLOCKS * 4:
            break
        t = cur['blocks'][bi].get('term') or {}
        if t.get('t') == 'call' and not cur['blocks'][bi].get('cleanup'):
            name = callee_of(t)
            if name in new and name not in stack and depth < MAX_DEPTH and facts.has_raw(name):
                callee = facts.load_raw(name)
                info = facts.fns.get(name, {})
                if not info.get('async') and not callee.get('coroutine') and len(callee['blocks']) <= MAX_BLOCKS:
                    callee = expand(facts, callee, depth + 1, stack + (name,))
                    if out is None:
                        out = copy.deepcopy(body)
                    splice_sync(out, bi, copy.deepcopy(callee))
                    facts.inlined.setdefault(name, set()).add(body['def'])
                    continue   # re-examine the same block (now a goto)
                if info.get('async'):
                    co_name = name + '::{closure#0}'
                    if facts.has_raw(co_name) and len(t.get('dest', [])) == 1:
                        flow = _local_flow(cur, t['dest'][0])
                        polls = [j for j, bl in enumerate(cur['blocks']) if (bl.get('term') or {}).get('t') == 'call'
                                 and ((bl['term'].get('fn') or '').endswith('Future::poll'))
                                 and bl['term'].get('args') and (bl['term']['args'][0].get('m') or bl['term']['args'][0].get('c') or [None])[0] in flow]
                        if len(polls) == 1:
                            co = expand(facts, facts.load_raw(co_name), depth + 1, stack + (name,))
                            shell = dict(facts.load_raw(name))
                            shell['_pnames'] = info.get('pnames') or []
                            if out is None:
                                out = copy.deepcopy(body)
                            splice_async(out, bi, polls[0], shell, copy.deepcopy(co))
                            # the helper call itself now only builds the (unused) future: neutralise it
                            ct = out['blocks'][bi]['term']
                            out['blocks'][bi]['term'] = {'t': 'goto', 'to': ct.get('to'), 'ln': ct.get('ln'), 'x': ct.get('x', ''), 'inl': name}
                            facts.inlined.setdefault(name, set()).add(body['def'])
                            bi += 1
                            continue
        bi += 1
    return out or body
