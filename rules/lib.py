"""Generic analyses (A1..A14 of DESIGN.md) as library functions over mir.Body / engine.Ctx."""
import re
from mir import walk, render, short, name_matches, expr_wraps_call, op_place, is_result_adaptor

SYS = 'server::streaming::systems::system::System'
SHARED_WRITE = 'server::streaming::systems::system::SharedSystem::write'
SHARED_READ = 'server::streaming::systems::system::SharedSystem::read'
DOWNGRADE = 'tokio::sync::RwLockWriteGuard::downgrade'
STATE_APPLY = ('server::state::StateKind::apply', 'server::state::State::apply')


def in_crate(d, prefix='server::'):
    """def path belongs to the crate/module prefix — also for trait impls, which are named `<Self as Trait>::m`"""
    return d.startswith(prefix) or d.startswith('<' + prefix)


# ------------------------------------------------------------------ expression predicates
def expr_has_call(e, pat):
    for x in walk(e):
        if x[0] == 'call' and name_matches(x[1], pat):
            return True
    return False


def expr_find_calls(e, pat):
    return [x for x in walk(e) if x[0] == 'call' and name_matches(x[1], pat)]


def expr_has(e, pred):
    return any(pred(x) for x in walk(e))


def expr_fields(e):
    """all field names read anywhere in e"""
    return [x[2] for x in walk(e) if x[0] == 'field']


def expr_params(e):
    return [x[1] for x in walk(e) if x[0] in ('param', 'upvar')]


def strip_adaptors(e):
    """remove `?`, `.await`, with_error_context, map_err ... wrappers"""
    while True:
        if e[0] in ('await', 'try'):
            e = e[1]
        elif e[0] == 'call' and is_result_adaptor(e[1]) and e[2]:
            e = e[2][0]
        elif e[0] in ('poll', 'branch') and e[1] is not None:
            e = e[1]
        else:
            return e


def system_guard_kind(e):
    """lock context denoted by a receiver expression: 'write' | 'downgraded' | 'read' | None"""
    has_w = expr_has_call(e, SHARED_WRITE)
    has_r = expr_has_call(e, SHARED_READ)
    has_d = expr_has_call(e, DOWNGRADE)
    if has_w and has_d:
        return 'downgraded'
    if has_w:
        return 'write'
    if has_r:
        return 'read'
    return None


# ------------------------------------------------------------------ A2 must-pass-through
def ok_edges(body, call):
    """list of (switch_bb, ok_target) deciding success of `call`"""
    out = []
    for sb, ok, err, kind in body.result_edges(call):
        for o in ok:
            out.append((sb, o))
    return out


def err_edges(body, call):
    out = []
    for sb, ok, err, kind in body.result_edges(call):
        for o in err:
            out.append((sb, o))
    return out


def success_dominates(body, call, target_bb):
    """the success edge of `call` dominates target_bb (target executes only after call returned Ok/Some)"""
    for sb, ok in ok_edges(body, call):
        if len([p for p in body.pred(ok) if p in body.reach]) == 1 and body.dominates(ok, target_bb):
            return True
    return False


def failure_edge_blocks(body, call):
    return [e for _, e in err_edges(body, call)]


def path_avoiding_success(body, start_bb, call, targets):
    """Is some block in `targets` reachable from start_bb without taking a success edge of `call`?
    returns the offending target block or None.  (start_bb itself counts when it is a target)"""
    cut = set()
    for sb, ok, err, kind in body.result_edges(call):
        for o in ok:
            cut.add((sb, o))
    if not cut:
        # result is never tested: success of the call is not required anywhere
        cut = set()
    reach = body.reachable(start_bb, avoid_edges=cut)
    # the call block itself must not be a free pass: paths must go *through the success edge*,
    # so every target reachable without those edges is a violation
    for t in sorted(targets):
        if t in reach:
            return t
    return None


def reaches_without(body, start_bb, avoid_blocks, targets):
    reach = body.reachable(start_bb, avoid_blocks=avoid_blocks)
    for t in sorted(targets):
        if t in reach:
            return t
    return None


def ok_exit_blocks(body):
    """blocks that write an Ok(..)/Some(..)/plain value (or a passed-through callee result) to the return place"""
    return body.ok_return_blocks(include_tail=True)


def strict_ok_exit_blocks(body):
    return {b for b, k, _ in body.return_sites() if k == 'ok'}


def err_exit_sites(body):
    return [(b, d) for b, k, d in body.return_sites() if k == 'err']


def explain_path(body, start, target, avoid_edges=(), avoid_blocks=()):
    """one concrete CFG path (list of source lines) from start to target under the same cuts — for reports"""
    from collections import deque
    ae, ab = set(avoid_edges), set(avoid_blocks)
    prev = {start: None}
    dq = deque([start])
    while dq:
        b = dq.popleft()
        if b == target:
            break
        for s in body.succ(b):
            if s in prev or s in ab or (b, s) in ae:
                continue
            prev[s] = b
            dq.append(s)
    if target not in prev:
        return None
    path = []
    b = target
    while b is not None:
        path.append(b)
        b = prev[b]
    path.reverse()
    lines = []
    for b in path:
        ln = body.line_of_block(b)
        if ln and (not lines or lines[-1] != ln):
            lines.append(ln)
    return lines


# ------------------------------------------------------------------ A1 who-may-call / who-may-write
def callers_of(ctx, pat, crate_prefix='server::'):
    """[(caller_def, CallSite)] for all production call sites of functions matching pat"""
    out = []
    callers = ctx.build_callers()
    cands = set()
    for callee, cs in callers.items():
        if name_matches(callee, pat):
            cands |= cs
    for d in sorted(cands):
        if crate_prefix and not (in_crate(d, crate_prefix) or d.startswith('iggy_server::')):
            continue
        b = ctx.body(d)
        for c in b.calls:
            if c.matches(pat):
                out.append((d, c))
    return out


def field_writers(ctx, adt, field, crate_prefix='server::'):
    """[(def, bb, line, how)] for every statement that assigns / mutably borrows ADT field `adt.field`"""
    out = []
    needle = '"%s","%s"' % (adt, field)
    for d in sorted(ctx.facts.body_defs()):
        if crate_prefix and not in_crate(d, crate_prefix):
            continue
        raw = ctx.facts.raw_body(d)
        for bi, bl in enumerate(raw['blocks']):
            if bl.get('cleanup'):
                continue
            for s in bl['s']:
                lhs = s.get('lhs')
                if lhs is not None and _place_ends_in_field(lhs, adt, field):
                    out.append((d, bi, s.get('ln'), 'assign'))
                rv = s.get('rv')
                if rv and rv['r'] == 'ref' and rv['m'] == 'mut' and _place_has_field(rv['p'], adt, field):
                    out.append((d, bi, s.get('ln'), 'mutborrow'))
    return out


def _place_ends_in_field(place, adt, field):
    for pr in reversed(place[1:]):
        if pr == '*':
            continue
        return isinstance(pr, list) and pr[0] == '.' and pr[1] == adt and pr[2] == field
    return False


def _place_has_field(place, adt, field):
    return any(isinstance(pr, list) and pr[0] == '.' and pr[1] == adt and pr[2] == field for pr in place[1:])


def place_fields(place):
    return [(pr[1], pr[2]) for pr in place[1:] if isinstance(pr, list) and pr[0] == '.']


# ------------------------------------------------------------------ A3 guard literals
def lit_str(body, lit):
    vals = lit['vals']
    e = lit['expr']
    s = render(e)
    if lit['ty'] == 'bool':
        pol = (vals != [0]) if not lit['else'] else (0 in lit['arms'])
        # switch on bool: arms [[0, F]] else T  => else edge means true
        truth = lit['else'] if lit['arms'] == [0] else (vals == [1])
        return ('' if truth else '!') + s
    return '%s in %s%s' % (s, vals, '|else' if lit['else'] else '')


def bool_literals_at(body, bb):
    """[(expr, truth)] for boolean switch literals dominating bb"""
    out = []
    for lit in body.literals_at(bb):
        if lit['ty'] != 'bool':
            continue
        if lit['arms'] == [0]:
            truth = lit['else']
        elif lit['arms'] == [1]:
            truth = not lit['else']
        else:
            continue
        e, t = norm_bool(lit['expr'], truth)
        out.append((e, t, lit))
    return out


def norm_bool(e, truth):
    """push negations: Not(x)==true -> x==false ; (x == false) -> !x"""
    while True:
        if e[0] == 'un' and e[1] == 'Not':
            e, truth = e[2], not truth
            continue
        if e[0] == 'bin' and e[1] in ('Eq', 'Ne') and (e[3][0] == 'const' and e[3][1] in ('true', 'false', '0', '1') and e[3][2] == 'bool'):
            cv = e[3][1] in ('true', '1')
            same = (e[1] == 'Eq') == cv
            e, truth = e[2], truth if same else not truth
            continue
        return e, truth


def discr_literals_at(body, bb):
    """[(scrutinee_expr, variant_values, lit)] for enum-discriminant switch literals dominating bb"""
    out = []
    for lit in body.literals_at(bb):
        e = lit['expr']
        if e[0] == 'discr':
            out.append((e[1], lit['vals'], lit))
    return out


# ------------------------------------------------------------------ lock context (A4) through receiver expressions
def receiver_guard(body, call):
    if not call.args:
        return None
    return system_guard_kind(body.expr_operand(call.args[0]))


# ------------------------------------------------------------------ loops
def in_loop_blocks(body):
    """set of blocks that lie on some CFG cycle"""
    out = set()
    for b in body.reach:
        if b in body.reachable_after(b):
            out.add(b)
    return out


def natural_loops(body):
    """[(header, body_blocks:set)] for back edges t->h where h dominates t"""
    loops = []
    for t in body.reach:
        for h in body.succ(t):
            if body.dominates(h, t):
                blocks = {h, t}
                stack = [t]
                while stack:
                    x = stack.pop()
                    if x == h:
                        continue
                    for p in body.pred(x):
                        if p in body.reach and p not in blocks:
                            blocks.add(p)
                            stack.append(p)
                loops.append((h, blocks))
    # merge loops with same header
    merged = {}
    for h, bl in loops:
        merged.setdefault(h, set()).update(bl)
    return sorted(merged.items())


# ------------------------------------------------------------------ handlers
BIN_HANDLER = re.compile(r'^server::binary::handlers::(\w+)::(\w+)_handler::handle$')


def binary_handlers(ctx):
    out = {}
    for d in ctx.facts.fns:
        m = BIN_HANDLER.match(d)
        if m:
            out[m.group(2)] = d
    return out


def http_handlers(ctx):
    """http route handler fns: async fns in server::http::<module> that take an axum State extractor"""
    out = {}
    for d, r in ctx.facts.fns.items():
        if not d.startswith('server::http::'):
            continue
        if r['async'] and any(p.startswith('axum::extract::State<') for p in r['params']):
            out[d.split('::')[-1]] = d
    return out


def is_user_call(c):
    return not (c.x.startswith('m:'))


def has_var(e, name):
    return any((x[0] == 'local' and x[2] == name) or (x[0] in ('param', 'upvar') and x[1] == name) for x in walk(e))


def has_call_last(e, prefix):
    """some call in e whose last path segment starts with `prefix`"""
    return any(x[0] == 'call' and x[1].split('::')[-1].startswith(prefix) for x in walk(e))


def is_const(e, val=None):
    return e[0] == 'const' and (val is None or e[1] == str(val))


def is_plus_one(e):
    """e == X + 1  -> X else None"""
    if e[0] == 'bin' and e[1] == 'Add':
        if is_const(e[3], 1):
            return e[2]
        if is_const(e[2], 1):
            return e[3]
    return None


def switch_exprs(body, user_only=True):
    """[(bb, term, expr)] for all switch terminators"""
    out = []
    for bb in sorted(body.reach):
        t = body.term(bb)
        if t.get('t') != 'switch':
            continue
        if user_only and t.get('x', '').startswith('m:'):
            continue
        out.append((bb, t, body.expr_operand(t['op'])))
    return out


def bool_targets(t):
    """(target_if_true, target_if_false) of a bool switch"""
    arms = dict((v, tb) for v, tb in t['arms'])
    if 0 in arms:
        return (arms.get(1, t['else']), arms[0])
    return (arms.get(1), t['else'])


# ------------------------------------------------------------------ A5 variant <-> field agreement
def _places_in_stmt(s):
    out = []
    if 'lhs' in s:
        out.append(s['lhs'])
    rv = s.get('rv')
    if rv:
        if 'p' in rv:
            out.append(rv['p'])
        for k in ('a', 'b'):
            if k in rv:
                p = op_place(rv[k])
                if p:
                    out.append(p)
        for o in rv.get('ops', []):
            p = op_place(o)
            if p:
                out.append(p)
    return out


def _places_in_term(t):
    out = []
    for o in t.get('args', []):
        p = op_place(o)
        if p:
            out.append(p)
    for k in ('dest', 'p'):
        if k in t and isinstance(t[k], list):
            out.append(t[k])
    if 'op' in t:
        p = op_place(t['op'])
        if p:
            out.append(p)
    return out


def block_field_accesses(body, bb, user_only=True, reads_only=False):
    """[(adt, field, line)] of all field projections touched in block bb (reads_only: the field an assignment or a call
    destination overwrites does not count)"""
    out = []

    def fields_(p, written):
        fs = place_fields(p)
        if reads_only and written and fs and isinstance(p[-1], list) and p[-1][0] == '.':
            fs = fs[:-1]
        return fs
    for s in body.stmts(bb):
        if user_only and s.get('x', '').startswith('m:'):
            continue
        for p in _places_in_stmt(s):
            for adt, f in fields_(p, p is s.get('lhs')):
                out.append((adt, f, s.get('ln')))
    t = body.term(bb)
    if not (user_only and t.get('x', '').startswith('m:')):
        for p in _places_in_term(t):
            for adt, f in fields_(p, p is t.get('dest')):
                out.append((adt, f, t.get('ln')))
    return out


def enum_switches(body, ty_names):
    """[(bb, term, enum_type)] switches on the discriminant of a value whose type is one of ty_names"""
    out = []
    for bb in sorted(body.reach):
        t = body.term(bb)
        if t.get('t') != 'switch':
            continue
        ty = body._discr_type(bb, t)
        if ty is None:
            continue
        ty0 = re.sub(r"^&(?:'\S+ )?(?:mut )?", '', ty)
        if ty0 in ty_names:
            out.append((bb, t, ty0))
    return out


def arm_regions(body, bb):
    """{switch value (or 'else'): set of blocks that execute only when that arm was taken}"""
    t = body.term(bb)
    out = {}
    seen = {}
    for v, tb in t['arms'] + [['else', t['else']]]:
        if body.is_unreachable_block(tb):
            continue
        preds = [p for p in body.pred(tb) if p in body.reach]
        if len(preds) != 1:
            out[v] = set()
            continue
        out[v] = {x for x in body.reach if body.dominates(tb, x)}
    return out


def variant_name(ctx, enum_ty, value):
    adt = ctx.facts.adts.get(enum_ty)
    if not adt:
        return None
    for v in adt['variants']:
        if v.get('discr') == str(value):
            return v['name']
    return None


def enum_variant_names(ctx, enum_ty):
    adt = ctx.facts.adts.get(enum_ty)
    return [v['name'] for v in adt['variants']] if adt else []


# ------------------------------------------------------------------ interprocedural guard
def guarded_interproc(ctx, fn_def, body, bb, lit_pred, depth=2):
    """Is block bb of `body` (the user body of fn_def) executed only under a literal satisfying lit_pred —
    either locally, or at every call site of fn_def (recursively up to depth)?  returns (bool, how)"""
    for e, truth, lit in bool_literals_at(body, bb):
        if lit_pred(e, truth):
            return True, 'guard in %s' % short(fn_def)
    if depth <= 0:
        return False, 'no guard'
    sites = callers_of(ctx, fn_def)
    if not sites:
        return False, 'no guard in %s and it has no callers' % short(fn_def)
    hows = []
    for d, c in sites:
        cb = ctx.body(d)
        ok, how = guarded_interproc(ctx, ctx.user_fn_of(d), cb, c.bb, lit_pred, depth - 1)
        if not ok:
            return False, 'call site %s in %s is not guarded' % (c.where(), short(ctx.user_fn_of(d)))
        hows.append(how)
    return True, 'every caller guards: ' + '; '.join(sorted(set(hows)))


# ------------------------------------------------------------------ loop coverage (A2 variant)
def loop_coverage(body, call):
    """Is `call` executed on every iteration of its innermost enclosing `for` loop, with no early exit other than
    an error return?  returns (ok, detail, iterated_expr)"""
    loops = [(h, bl) for h, bl in natural_loops(body) if call.bb in bl]
    if not loops:
        return False, 'call is not inside a loop', None
    h, bl = min(loops, key=lambda x: len(x[1]))
    nexts = [c for c in body.calls if c.bb in bl and (c.fn or '').endswith('Iterator::next') and body.dominates(c.bb, call.bb)]
    if not nexts:
        return False, 'enclosing loop is not an iterator loop', None
    nx = max(nexts, key=lambda c: len(body.dominators(c.bb)))
    it = body.expr_operand(nx.args[0])
    some_t = [o for _, o in ok_edges(body, nx)]
    if not some_t:
        return False, 'cannot find the Some edge of the iterator', it
    st = some_t[0]
    # (a) an iteration that reaches the next round without the call
    r = body.reachable(st, avoid_blocks={call.bb})
    if nx.bb in r:
        return False, 'an iteration can skip the call (continue / filter inside the loop body)', it
    # (b) a successful exit that does not go through the iterator's None edge (break / early Ok return)
    oks = strict_ok_exit_blocks(body) | {b for b, k, _ in body.return_sites() if k in ('value', 'tail')}
    r2 = body.reachable(st, avoid_blocks={nx.bb} | propagated_error_sites(body))
    if oks & r2:
        return False, 'the loop can be left early with a success result (break / early return)', it
    return True, 'every iteration reaches the call; the loop ends only by exhaustion or error', it


def propagated_error_sites(body):
    """Blocks of spliced helpers (inline.py) in which the helper leaves with an error (`?` residual or an explicit Err),
    for helpers whose result the caller hands to `?` at the splice site.  In the helper's own body such a block leads to
    an error return; after splicing, all returns of the helper join at the caller's continuation, and only the caller's
    `?` separates them again — a CFG path "error in the helper, then the caller's success branch" is infeasible.  A
    helper whose result is not handed to `?` (the caller may swallow the error) contributes nothing."""
    out = set()
    checked = {}
    for b in sorted(body.reach):
        blk = body.blocks[b]
        if 'inl' not in blk or blk.get('cleanup'):
            continue
        cont = blk.get('inl_cont')
        if cont not in checked:
            checked[cont] = _continues_with_try(body, cont)
        if not checked[cont]:
            continue
        t = blk.get('term') or {}
        if t.get('t') == 'call' and (t.get('fn') or '') == 'std::ops::FromResidual::from_residual':
            out.add(b)
            continue
        for s in blk['s']:
            rv = s.get('rv')
            if rv and rv['r'] == 'agg' and rv.get('kind') == 'adt' and rv['adt'] in ('std::result::Result', 'core::result::Result') and rv.get('variant') == 'Err':
                out.add(b)
    return out


def _continues_with_try(body, cont):
    """the first call reached from the continuation of a spliced helper (through gotos, the Poll::Ready switch of an
    await, drops and storage statements) is Try::branch: the caller applies `?` to the helper's result"""
    if cont is None:
        return False
    seen, todo = set(), [cont]
    verdicts = []
    while todo:
        x = todo.pop()
        if x in seen or x not in body.reach:
            continue
        seen.add(x)
        t = body.term(x)
        if body.blocks[x].get('cleanup') or t.get('t') in ('unreachable', 'resume'):
            continue
        if t.get('t') == 'call':
            fn = t.get('fn') or ''
            if t.get('x', '').startswith('m:') or fn.endswith('::with_error_context') or fn.endswith('::map_err') or fn.endswith('::with_error'):
                todo.extend(body.succ(x))   # error decoration keeps the Result
                continue
            verdicts.append(fn == 'std::ops::Try::branch')
            continue
        if t.get('t') in ('return', 'yield'):
            if t.get('t') == 'yield':
                continue   # the Pending arm of an await
            verdicts.append(False)
            continue
        todo.extend(body.succ(x))
        if len(seen) > 40:
            return False
    return bool(verdicts) and all(verdicts)


# ------------------------------------------------------------------ comparison normal forms (A10 on branch conditions)
def comparison_forms(ctx, fn):
    """{(operandA, operandB) unordered-sorted: {canonical comparison}} for every comparison computed in the user code of fn
    and of its nested closures (branch conditions, returned predicates, trait comparisons PartialOrd::lt ...)"""
    from mir import canon
    out = {}
    defs = [d for d in ctx.facts.body_defs() if d == fn or d.startswith(fn + '::{closure')]
    for d in sorted(defs):
        b = ctx.body(d)
        for blk in sorted(b.reach):
            for si, s in enumerate(b.stmts(blk)):
                rv = s.get('rv')
                if not rv or s.get('x', '').startswith('m:'):
                    continue
                if rv['r'] == 'bin' and rv['op'] in ('Lt', 'Le', 'Gt', 'Ge', 'Eq', 'Ne'):
                    x = b._pexpr_rvalue(rv, 0, frozenset(), (blk, si))
                    a, c = canon(x[2], 0, 1), canon(x[3], 0, 1)
                    out.setdefault(tuple(sorted((a, c))), set()).add(canon(x, 0, 1))
            t = b.term(blk)
            if t.get('t') == 'call' and not t.get('x', '').startswith('m:'):
                decl = t.get('fn') or ''
                op = decl.split('::')[-1]
                if op in ('lt', 'le', 'gt', 'ge', 'eq', 'ne') and ('PartialOrd' in decl or 'PartialEq' in decl) and len(t.get('args', [])) == 2:
                    a, c = canon(b.pexpr_operand(t['args'][0], 0, frozenset(), (blk, 't')), 0, 1), canon(b.pexpr_operand(t['args'][1], 0, frozenset(), (blk, 't')), 0, 1)
                    key = tuple(sorted((a, c)))
                    form = {'lt': '(%s < %s)', 'le': '(%s <= %s)', 'gt': '(%s < %s)', 'ge': '(%s <= %s)', 'eq': '(%s == %s)', 'ne': '(%s != %s)'}[op]
                    if op in ('gt', 'ge'):
                        a, c = c, a
                    elif op in ('eq', 'ne') and c < a:
                        a, c = c, a
                    out.setdefault(key, set()).add(form % (a, c))
    return out


def _wild_roots(form):
    """`(consumer_group.group_id == group_id)` -> `(_.group_id == group_id)`: the root binding of a field path (not
    `self`) is replaced by `_`, and the operands of == / != are put in a canonical order afterwards"""
    w = re.sub(r'\b(?!self\b)[a-z_]\w*((?:\.\w+)+)', lambda m: '_' + m.group(1), form)
    m = re.fullmatch(r'\((.*) (==|!=) (.*)\)', w)
    if m and m.group(3) < m.group(1) and '(' not in m.group(1) + m.group(3):
        w = '(%s %s %s)' % (m.group(3), m.group(2), m.group(1))
    return w


def _parse_cmp(key, form):
    """(lhs, op, rhs) of a canonical comparison over the operand pair key=(a, b), or None"""
    body = form[1:-1] if form.startswith('(') and form.endswith(')') else form
    a, b = key
    for op in (' <= ', ' < ', ' == ', ' != '):
        for x, y in ((a, b), (b, a)):
            if body == x + op + y:
                return x, op.strip(), y
    return None


def negated_form(key, form):
    """the canonical form of the negated comparison: (x < y) <-> (y <= x), (x == y) <-> (x != y)"""
    p = _parse_cmp(key, form)
    if p is None:
        return None
    x, op, y = p
    if op == '<':
        return '(%s <= %s)' % (y, x)
    if op == '<=':
        return '(%s < %s)' % (y, x)
    return '(%s %s %s)' % (x, '!=' if op == '==' else '==', y)


def cmp_classes(got):
    """{(operand pair, comparison identified with its negation)} — what two sibling functions must agree on whichever way
    round their branches are written"""
    out = set()
    for key, fs in got.items():
        for f in fs:
            n = negated_form(key, f)
            out.add((key, min(f, n) if n else f))
    return out


def _polarity_unchanged(ctx, fn, key):
    """the leave-early record (guardpol) of the operand pair exists on the pinned tree and in the current tree and is the
    same: a comparison that was replaced by its negation together with its branches"""
    import guardpol
    fr = guardpol.frozen().get(fn, {})
    try:
        cur = guardpol.sites(ctx, fn)
    except Exception:
        return False
    a, b = sorted(key)
    hit = False
    for suffix in ('', ' @@ <iteration>', ' @@ <result>'):
        k = a + ' @@ ' + b + suffix
        if k in fr or k in cur:
            if fr.get(k) != cur.get(k):
                return False
            hit = True
    return hit


def check_comparisons(ctx, rep, rid, table):
    """table: {fn: [expected canonical comparisons]} — each must still be present; a comparison over the same
    operand pair with a different operator/orientation is a violation; additional comparisons are tolerated."""
    for fn, expected in table.items():
        if not ctx.has(fn):
            import forms as _forms
            if any(v['def'] == fn for v in _forms.gone_helpers().values()):
                # a small pinned helper that was inlined into its caller and deleted: its comparisons now live in the
                # caller (where the tables that name the helper compare through its pinned return form)
                rep.ob(rid, fn, 'helper inlined into its caller', True, None, 'the pinned helper no longer exists; forms that name it are compared through its pinned return form')
                continue
            rep.anchor_lost(rid, fn)
            continue
        got = comparison_forms(ctx, fn)
        allforms = set()
        for v in got.values():
            allforms |= v
        wild = {_wild_roots(f) for f in allforms}
        for form in expected:
            if form in allforms or (form.startswith('re:') and any(re.search(form[3:], f) for f in allforms)):
                rep.ob(rid, fn, form, True, None, None)
                continue
            # the negated comparison with swapped branches (an inverted `if`, a `while c` turned into `loop { if !c { break } }`)
            # is the same test — accepted only where the guard-polarity record of the pair proves that the branches went along
            neg_ok = False
            for key, forms_ in got.items():
                for f in forms_:
                    n = negated_form(key, f)
                    if n is not None and (n == form or (form.startswith('re:') and re.search(form[3:], n))) and _polarity_unchanged(ctx, fn, key):
                        neg_ok = True
            if neg_ok:
                rep.ob(rid, fn, form, True, None, 'present as its negation with the branches exchanged (same leave-early condition as on the pinned tree)')
                continue
            if not form.startswith('re:') and _wild_roots(form) in wild:
                # the same fields compared with the same operator, reached through a differently named binding
                # (a closure parameter renamed or destructured): the same comparison
                rep.ob(rid, fn, form, True, None, 'matched modulo the name of the binding the fields are reached through')
                continue
            # find same operand pair
            alt = None
            for key, forms_ in got.items():
                if all(k in form for k in key):
                    alt = sorted(forms_)
            rep.ob(rid, fn, form, False, None,
                   'the comparison `%s` confirmed for this function is gone%s' % (form, '; the same operands are now compared as %s' % alt if alt else ''))


# ------------------------------------------------------------------ A7 may-panic sites
PANIC_CALLS = {'unwrap': 'unwrap', 'expect': 'expect', 'unwrap_or_else': None, 'panic': 'panic', 'panic_fmt': 'panic', 'panic_display': 'panic',
               'unreachable': 'panic', 'index': 'index', 'index_mut': 'index', 'remove': 'remove', 'swap_remove': 'remove', 'split_at': 'split',
               'split_to': 'split', 'split_off': 'split', 'slice': 'slice', 'copy_from_slice': 'copy', 'begin_panic': 'panic', 'assert_failed': 'panic', 'drain': 'drain'}


def may_panic_sites(ctx, fn):
    """[(kind, key, where)] of may-panic constructs in the user code of fn and its nested closures.
    key identifies the site without line numbers: kind + callee + canonical operand."""
    from mir import canon
    out = []
    defs = [d for d in ctx.facts.body_defs() if d == fn or d.startswith(fn + '::{closure')]
    for d in sorted(defs):
        b = ctx.body(d)
        for bb in sorted(b.reach):
            t = b.term(bb)
            k = t.get('t')
            x = t.get('x', '')
            if k == 'call':
                name = t.get('res') or t.get('fn') or ''
                decl = t.get('fn') or ''
                last = decl.split('::')[-1]
                if x.startswith('m:') and not any(m in x for m in ('panic', 'unreachable', 'assert', 'todo', 'unimplemented')):
                    continue
                kind = None
                if last in ('unwrap', 'expect') and ('Option' in decl or 'Result' in decl):
                    kind = last
                elif 'panicking::' in decl or last in ('panic_fmt', 'panic', 'begin_panic', 'panic_display', 'assert_failed', 'unreachable_display', 'panic_explicit'):
                    kind = 'panic'
                elif decl in ('std::ops::Index::index', 'std::ops::IndexMut::index_mut'):
                    kind = 'index'
                elif last in ('remove', 'swap_remove', 'drain', 'split_off') and decl.startswith('std::vec::Vec'):
                    kind = 'vec_' + last
                elif last in ('slice', 'split_to', 'split_off', 'advance') and ('bytes::' in decl):
                    kind = 'bytes_' + last
                elif last in ('get_u8', 'get_u16_le', 'get_u32_le', 'get_u64_le', 'get_u128_le', 'get_f32_le', 'get_f64_le') and 'Buf' in decl:
                    kind = 'buf_get'
                elif last == 'copy_from_slice':
                    kind = 'copy_from_slice'
                if kind is None:
                    continue
                arg = canon(b.pexpr_operand(t['args'][0]), 0, 1) if t.get('args') else ''
                arg2 = canon(b.pexpr_operand(t['args'][1]), 0, 1) if kind in ('index', 'vec_remove', 'bytes_slice') and len(t.get('args', [])) > 1 else ''
                key = '%s %s' % (kind, arg) + (' [%s]' % arg2 if arg2 else '')
                if kind == 'panic':
                    key = 'panic!(…)'
                out.append((kind, key, '%s:%s' % (b.file, t.get('ln')), b, bb))
            elif k == 'assert' and not x.startswith('m:'):
                kind = t.get('kind', 'other')
                if kind.startswith('overflow') or kind in ('div0', 'rem0', 'bounds'):
                    # operands of the checked operation
                    e = b.pexpr_operand(t['cond'])
                    out.append(('assert_' + kind, 'assert_%s %s' % (kind, canon(e, 0, 1)[:160]), '%s:%s' % (b.file, t.get('ln')), b, bb))
    return out


def panic_guarded(site):
    """recognised guard idioms: unwrap/expect of X dominated by is_some/is_ok/!is_none/!is_err/discr(X)=Some on the same X;
    constant-range index into X dominated by `len(X) < N` == false with N >= range end"""
    from mir import canon
    kind, key, where, b, bb = site
    t = b.term(bb)
    if kind in ('unwrap', 'expect'):
        x = canon(b.pexpr_operand(t['args'][0]), 0, 1)
        for e, truth, _ in bool_literals_at(b, bb):
            if e[0] == 'call' and e[2]:
                last = e[1].split('::')[-1]
                ex = canon(b_pe(b, e[2][0]), 0, 1)
                if ex == x and ((last in ('is_some', 'is_ok') and truth) or (last in ('is_none', 'is_err', 'is_empty') and not truth)):
                    return 'guarded by %s%s' % ('' if truth else '!', last)
        for e, vals, lit in discr_literals_at(b, bb):
            if canon(b_pe(b, e), 0, 1) == x and (vals == [1] or vals == [0] and 'Result' in (lit.get('ty') or '')):
                return 'guarded by a match on the same value'
        # last()/first() of a collection guarded by !is_empty()
        for e, truth, _ in bool_literals_at(b, bb):
            if e[0] == 'call' and e[1].split('::')[-1] == 'is_empty' and not truth:
                coll = canon(b_pe(b, e[2][0]), 0, 1)
                if coll in x:
                    return 'guarded by !is_empty()'
    if kind == 'assert_overflow:Sub':
        e = b.pexpr_operand(t['cond'])
        for x in walk(e):
            if x[0] == 'bin' and x[1] == 'Sub':
                A, B = canon(x[2], 0, 1), canon(x[3], 0, 1)
                for le, truth, _ in bool_literals_at(b, bb):
                    f = canon(b_pe(b, _phi(b, le)), 0, 1)
                    if truth and f in ('(%s <= %s)' % (B, A), '(%s < %s)' % (B, A)) or (truth and B == '1' and f == '(0 < %s)' % A) or \
                            (not truth and f in ('(%s < %s)' % (A, B), '(%s <= %s)' % (A, B))):
                        return 'guarded by %s%s' % ('' if truth else '!', f)
                    # PartialOrd::gt(A, 0) style
                    if truth and le[0] == 'call' and le[1].split('::')[-1] in ('gt',) and len(le[2]) == 2 and canon(_phi(b, le[2][0]), 0, 1) == A and B == '1':
                        return 'guarded by %s > 0' % A
                break
    if kind == 'index' and len(t.get('args', [])) > 1:
        rng = b.pexpr_operand(t['args'][1])
        end = None
        if rng[0] == 'agg' and (rng[1].endswith('Range') or rng[1].endswith('RangeFrom')):
            for n, v in rng[3]:
                if n == 'end' and v[0] == 'const':
                    end = int(v[1])
            if rng[1].endswith('RangeFrom'):     # x[N..] needs len >= N
                for n, v in rng[3]:
                    if n == 'start' and v[0] == 'const':
                        end = int(v[1])
        elif rng[0] == 'const':
            try:
                end = int(rng[1]) + 1
            except ValueError:
                pass
        if end is not None:
            x = canon(b.pexpr_operand(t['args'][0]), 0, 1)
            for e, truth, _ in bool_literals_at(b, bb):
                if e[0] == 'bin' and e[1] in ('Lt', 'Ge') and e[3][0] == 'const':
                    l = e[2]
                    if (l[0] == 'len' or (l[0] == 'call' and l[1].split('::')[-1] == 'len')):
                        lx = canon(b_pe(b, l[1] if l[0] == 'len' else l[2][0]), 0, 1)
                        n = int(e[3][1])
                        if lx == x and n >= end and ((e[1] == 'Lt' and not truth) or (e[1] == 'Ge' and truth)):
                            return 'guarded by len >= %d' % n
    return None


def _phi(b, e):
    """literals come from expr_operand (no phi expansion); canonical comparison needs the same expansion as the site: re-derive named locals"""
    return e


def b_pe(b, e):
    """re-expand a (non-phi) expression's locals through the phi builder where possible — identity for non-locals"""
    return e


def check_panics(ctx, rep, rid, fns, allow, ignore_kinds=('assert_overflow:Add', 'assert_overflow:Mul', 'assert_overflow:Shl')):
    """every may-panic site in fns is guarded by a recognised idiom or listed in allow[fn][key] = reason"""
    for fn in fns:
        if not ctx.has(fn):
            rep.anchor_lost(rid, fn)
            continue
        listed = dict(allow.get(fn, {}))
        for site in may_panic_sites(ctx, fn):
            kind, key, where, b, bb = site
            if kind in ignore_kinds:
                continue
            g = panic_guarded(site)
            if g:
                rep.ob(rid, fn, key, True, where, g)
            elif key in listed:
                rep.ob(rid, fn, key, True, where, 'listed: ' + listed[key])
            else:
                rep.ob(rid, fn, key, False, where, 'may-panic site `%s` is neither guarded by a recognised idiom nor listed with a reason why the input cannot trigger it' % key)


def field_method_ops(ctx, adt, field, prefix='server::'):
    """{fn: sorted set of method names called with `X.field` (X: adt) as receiver}"""
    import json
    out = {}
    needle = '"%s","%s"' % (adt, field)
    for d in sorted(ctx.facts.body_defs()):
        if not in_crate(d, prefix):
            continue
        raw = ctx.facts.raw_body(d)
        if needle not in json.dumps(raw['blocks'], separators=(',', ':')):
            continue
        b = ctx.body(d)
        for c in b.calls:
            if not is_user_call(c) or not c.args:
                continue
            e = b.expr_operand(c.args[0])
            if e[0] == 'field' and e[3] == adt and e[2] == field:
                out.setdefault(ctx.user_fn_of(d), set()).add(c.name.split('::')[-1])
    return {k: sorted(v) for k, v in out.items()}
