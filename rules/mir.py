"""MIR view used by the rule engine: CFG, dominators, symbolic expressions, call sites, result edges.

Everything here works on the JSON facts written by driver/ (mir_promoted, pre drop-elaboration,
pre coroutine-lowering, -Zmir-opt-level=0).  Nothing is executed.
"""
import re
from functools import lru_cache

TRANSPARENT_CALLS = (
    'std::future::IntoFuture::into_future', 'std::pin::Pin::new_unchecked', 'std::pin::Pin::new',
    'std::convert::Into::into', 'std::convert::From::from', 'std::clone::Clone::clone',
    'std::borrow::ToOwned::to_owned', 'std::ops::Deref::deref', 'std::ops::DerefMut::deref_mut',
    'std::convert::AsRef::as_ref', 'std::convert::AsMut::as_mut', 'std::borrow::Borrow::borrow',
    'std::borrow::BorrowMut::borrow_mut', 'std::option::Option::as_ref', 'std::option::Option::as_mut',
    'std::result::Result::as_ref', 'std::boxed::Box::new', 'std::sync::Arc::new', 'std::option::Option::as_deref',
    'std::option::Option::cloned', 'std::option::Option::copied',
)


def short(name):
    """last two path segments of a canonical name, generics stripped (for messages and loose matching)"""
    n = re.sub(r'<[^<>]*>', '', name)
    parts = n.split('::')
    return '::'.join(parts[-2:])


def op_place(op):
    if op is None:
        return None
    return op.get('c') or op.get('m')


class CallSite:
    __slots__ = ('bb', 'fn', 'res', 'name', 'args', 'dest', 'to', 'ln', 'x', 'gen', 'term', 'body')

    def __init__(self, body, bb, t):
        self.body = body
        self.bb = bb
        self.term = t
        self.fn = t.get('fn')
        self.res = t.get('res')
        self.name = self.res or self.fn or '<indirect>'
        self.args = t.get('args', [])
        self.dest = t.get('dest')
        self.to = t.get('to')
        self.ln = t.get('ln')
        self.x = t.get('x', '')
        self.gen = t.get('gen', '')

    def matches(self, pat):
        """pat: canonical name, or suffix starting at a path-segment boundary, or compiled regex"""
        return name_matches(self.name, pat) or (self.fn is not None and name_matches(self.fn, pat))

    def where(self):
        return '%s:%s' % (self.body.file, self.ln)

    def __repr__(self):
        return 'call %s @bb%d %s' % (self.name, self.bb, self.where())


def name_matches(name, pat):
    if name is None:
        return False
    if hasattr(pat, 'search'):
        return pat.search(name) is not None
    if isinstance(pat, (list, tuple, set, frozenset)):
        return any(name_matches(name, p) for p in pat)
    if name == pat:
        return True
    return name.endswith('::' + pat)


class Body:
    def __init__(self, raw):
        self.raw = raw
        self.defn = raw['def']
        self.root = raw['root']
        self.file = raw['file']
        self.line = raw['line']
        self.mod = raw.get('mod', '')
        self.kind = raw['kind']
        self.coroutine = raw.get('coroutine')
        self.argc = raw['argc']
        self.locals = raw['locals']
        self.blocks = raw['blocks']
        self.n = len(self.blocks)
        self.varname = {}
        self.upvars = {}
        for name, place in raw['vars']:
            if len(place) == 1:
                self.varname.setdefault(place[0], name)
        self._succ = [self._compute_succ(b) for b in range(self.n)]
        self._pred = [[] for _ in range(self.n)]
        for b in range(self.n):
            for s in self._succ[b]:
                self._pred[s].append(b)
        self.reach = self._reach_from(0, frozenset())
        self._idom = None
        self._ipdom = None
        self._defs = None
        self._expr_cache = {}
        self.calls = [CallSite(self, b, bl['term']) for b, bl in enumerate(self.blocks)
                      if b in self.reach and bl.get('term', {}).get('t') == 'call']
        self.calls_by_bb = {c.bb: c for c in self.calls}

    # ---------------------------------------------------------------- CFG
    def term(self, b):
        return self.blocks[b].get('term', {'t': 'none'})

    def stmts(self, b):
        return self.blocks[b]['s']

    def _compute_succ(self, b):
        t = self.term(b)
        k = t.get('t')
        if k == 'goto':
            return [t['to']]
        if k == 'switch':
            out = []
            for _, tb in t['arms']:
                if tb not in out:
                    out.append(tb)
            if t['else'] not in out:
                # an `otherwise` arm that is an `unreachable` block is kept; it has no successors
                out.append(t['else'])
            return out
        if k in ('call',):
            return [t['to']] if t.get('to') is not None else []
        if k in ('drop', 'assert', 'yield'):
            return [t['to']]
        return []

    def succ(self, b):
        return self._succ[b]

    def pred(self, b):
        return self._pred[b]

    def _reach_from(self, start, removed_blocks, removed_edges=frozenset()):
        seen = set()
        if start in removed_blocks:
            return seen
        stack = [start]
        seen.add(start)
        while stack:
            b = stack.pop()
            for s in self._succ[b]:
                if s in seen or s in removed_blocks or (b, s) in removed_edges:
                    continue
                seen.add(s)
                stack.append(s)
        return seen

    def reachable(self, start, avoid_blocks=(), avoid_edges=()):
        """blocks reachable from `start` (inclusive) without entering avoid_blocks / using avoid_edges"""
        return self._reach_from(start, frozenset(avoid_blocks), frozenset(avoid_edges))

    def reachable_after(self, b, avoid_blocks=(), avoid_edges=()):
        """blocks reachable from the successors of b (b itself only if on a cycle)"""
        out = set()
        ab, ae = frozenset(avoid_blocks), frozenset(avoid_edges)
        for s in self._succ[b]:
            if (b, s) in ae:
                continue
            out |= self._reach_from(s, ab, ae)
        return out

    def is_unreachable_block(self, b):
        return self.term(b).get('t') == 'unreachable' and not self.stmts(b)

    # ---------------------------------------------------------------- dominators
    def _rpo(self, succ, start):
        order, seen = [], set()
        stack = [(start, iter(succ(start)))]
        seen.add(start)
        while stack:
            node, it = stack[-1]
            adv = False
            for s in it:
                if s not in seen:
                    seen.add(s)
                    stack.append((s, iter(succ(s))))
                    adv = True
                    break
            if not adv:
                order.append(node)
                stack.pop()
        order.reverse()
        return order

    def _dom_tree(self, succ, pred, start):
        rpo = self._rpo(succ, start)
        idx = {b: i for i, b in enumerate(rpo)}
        idom = {start: start}

        def intersect(a, b):
            while a != b:
                while idx[a] > idx[b]:
                    a = idom[a]
                while idx[b] > idx[a]:
                    b = idom[b]
            return a
        changed = True
        while changed:
            changed = False
            for b in rpo[1:]:
                new = None
                for p in pred(b):
                    if p in idom:
                        new = p if new is None else intersect(p, new)
                if new is not None and idom.get(b) != new:
                    idom[b] = new
                    changed = True
        return idom

    @property
    def idom(self):
        if self._idom is None:
            self._idom = self._dom_tree(self.succ, self.pred, 0)
        return self._idom

    def dominates(self, a, b):
        """block a dominates block b (reflexive)"""
        idom = self.idom
        if b not in idom:
            return False
        while True:
            if a == b:
                return True
            nb = idom[b]
            if nb == b:
                return False
            b = nb

    def dominators(self, b):
        idom = self.idom
        out = []
        if b not in idom:
            return out
        while True:
            out.append(b)
            nb = idom[b]
            if nb == b:
                break
            b = nb
        return out

    # ---------------------------------------------------------------- definitions
    @property
    def defs(self):
        if self._defs is None:
            d = {}
            for b in range(self.n):
                if b not in self.reach:
                    continue
                for i, s in enumerate(self.stmts(b)):
                    lhs = s.get('lhs')
                    if lhs is not None:
                        # a store through a reference (`(*_x).f = v`) does not redefine the reference `_x`
                        if len(lhs) > 1 and lhs[1] == '*':
                            continue
                        d.setdefault(lhs[0], []).append((b, i, len(lhs) == 1))
                    elif 'setdiscr' in s:
                        d.setdefault(s['setdiscr'][0], []).append((b, i, False))
                t = self.term(b)
                if t.get('t') == 'call' and t.get('dest') is not None:
                    d.setdefault(t['dest'][0], []).append((b, 't', len(t['dest']) == 1))
                if t.get('t') == 'yield':
                    d.setdefault(t['resume_arg'][0], []).append((b, 't', len(t['resume_arg']) == 1))
            self._defs = d
        return self._defs

    def single_def(self, local):
        """the unique whole-local definition site of `local`, or None"""
        ds = [x for x in self.defs.get(local, []) if x[2]]
        if len(ds) == 1:
            if local != 0 and local <= self.argc:
                return None
            return ds[0]
        return None

    def local_name(self, l):
        return self.varname.get(l)

    # ---------------------------------------------------------------- symbolic expressions
    # expression forms (tuples):
    #   ('const', value_str, ty) ('param', name) ('upvar', name) ('local', n, name|None)
    #   ('field', base, fname) ('variant', base, vname) ('index', base) ('call', name, (args...), bb)
    #   ('await', fut) ('try', res) ('bin', op, a, b) ('un', op, a) ('agg', adt, variant, ((fname, e)...))
    #   ('tuple', (e...)) ('closure', def) ('discr', e) ('len', e) ('fnitem', name) ('cast', e, ty) is transparent
    def expr_operand(self, op, depth=0, seen=frozenset()):
        if 'k' in op:
            if 'item' in op:
                return ('constitem', op['item'], op.get('ty', ''))
            return ('const', op['k'], op.get('ty', ''))
        if 'fn' in op:
            return ('fnitem', op['fn'])
        return self.expr_place(op_place(op), depth, seen)

    def expr_local(self, l, depth=0, seen=frozenset()):
        key = l
        if key in self._expr_cache:
            return self._expr_cache[key]
        if l in seen or depth > 40:
            return ('local', l, self.local_name(l))
        sd = self.single_def(l)
        partial = any(not x[2] for x in self.defs.get(l, []))
        if self.kind == 'Closure' and l == 1:
            e = ('env',)
        elif l != 0 and l <= self.argc:
            e = ('param', self.local_name(l) or ('arg%d' % l))
        elif sd is None or partial:
            e = ('local', l, self.local_name(l))
        else:
            b, i, _ = sd
            seen2 = seen | {l}
            if i == 't':
                t = self.term(b)
                if t['t'] == 'call':
                    e = self._expr_call(b, t, depth + 1, seen2)
                else:
                    e = ('resume', b)
            else:
                e = self._expr_rvalue(self.stmts(b)[i]['rv'], depth + 1, seen2)
            nm = self.local_name(l)
            if nm is not None and e[0] in ('local',):
                e = ('local', l, nm)
        if not seen:
            self._expr_cache[key] = e
        return e

    def _expr_call(self, b, t, depth, seen):
        name = t.get('res') or t.get('fn') or '<indirect>'
        args = tuple(self.expr_operand(a, depth, seen) for a in t.get('args', []))
        decl = t.get('fn') or ''
        if (decl in TRANSPARENT_CALLS or name in TRANSPARENT_CALLS) and len(args) == 1:
            return args[0]
        if decl in ('futures::Future::poll', 'std::future::Future::poll', 'core::future::Future::poll') or decl.endswith('Future::poll'):
            return ('poll', args[0] if args else None, b)
        if decl == 'std::ops::Try::branch':
            return ('branch', args[0], b)
        if decl == 'std::future::get_context':
            return ('ctx',)
        return ('call', name, args, b)

    def _expr_rvalue(self, rv, depth, seen):
        r = rv['r']
        if r == 'use' or r == 'repeat':
            return self.expr_operand(rv['a'], depth, seen)
        if r in ('ref', 'rawptr'):
            return self.expr_place(rv['p'], depth, seen)
        if r == 'cast':
            return self.expr_operand(rv['a'], depth, seen)
        if r == 'bin':
            op = rv['op'].replace('WithOverflow', '').replace('Unchecked', '')
            return ('bin', op, self.expr_operand(rv['a'], depth, seen), self.expr_operand(rv['b'], depth, seen))
        if r == 'un':
            if rv['op'] == 'PtrMetadata':
                return ('len', self.expr_operand(rv['a'], depth, seen))
            return ('un', rv['op'], self.expr_operand(rv['a'], depth, seen))
        if r == 'discr':
            return ('discr', self.expr_place(rv['p'], depth, seen))
        if r == 'agg':
            ops = tuple(self.expr_operand(o, depth, seen) for o in rv['ops'])
            k = rv['kind']
            if k == 'adt':
                names = rv.get('names', [])
                return ('agg', rv['adt'], rv['variant'], tuple(zip(names, ops)))
            if k == 'tuple':
                return ('tuple', ops)
            if k in ('closure', 'coroutine', 'coroutine_closure'):
                return ('closure', rv['def'], tuple(zip(rv.get('names', []), ops)))
            return ('array', ops)
        return ('opaque', r)

    def expr_place(self, place, depth=0, seen=frozenset()):
        base = self.expr_local(place[0], depth, seen)
        for pr in place[1:]:
            base = self._project(base, pr)
        return base

    def _project(self, base, pr):
        if pr == '*' or pr in ('opq', 'unb'):
            return base
        k = pr[0]
        if k == '.':
            owner, fname = pr[1], pr[2]
            if base == ('env',) or owner == '{env}':
                return ('upvar', fname)
            if base[0] == 'variant':
                inner, v = base[1], base[2]
                if inner[0] == 'poll' and v == 'Ready':
                    return ('await', inner[1])
                if inner[0] == 'branch' and v == 'Continue':
                    return ('try', inner[1])
                if inner[0] == 'agg' and inner[2] == v:
                    for n, e in inner[3]:
                        if n == fname:
                            return e
            if base[0] == 'agg':
                for n, e in base[3]:
                    if n == fname:
                        return e
            if base[0] == 'tuple':
                try:
                    return base[1][int(fname)]
                except (ValueError, IndexError):
                    pass
            if owner == '()' and base[0] == 'bin':
                # (value, overflow_flag) of a checked binop
                return base if fname == '0' else ('overflow', base)
            fo = owner.split('::')[-1] if owner not in ('()', '?') else owner
            return ('field', base, fname, owner)
        if k == 'as':
            return ('variant', base, pr[1])
        if k == '[]':
            return ('index', base, self.expr_local(pr[1]))
        if k == '[c]':
            return ('index', base, ('const', str(pr[1]), 'usize'))
        if k == '[..]':
            return ('subslice', base, pr[1], pr[2])
        return ('proj', base, str(pr))

    # ---------------------------------------------------------------- call helpers
    def find_calls(self, pat, user_only=False):
        out = [c for c in self.calls if c.matches(pat)]
        if user_only:
            out = [c for c in out if not c.x.startswith('m:')]
        return out

    def call_arg_expr(self, call, i):
        if i >= len(call.args):
            return None
        return self.expr_operand(call.args[i])

    # ---------------------------------------------------------------- result edges
    def switch_info(self, b):
        """for a switch block: (discriminated place type, expr of the discriminated value) or None"""
        t = self.term(b)
        if t.get('t') != 'switch':
            return None
        op = t['op']
        pl = op_place(op)
        if pl is None:
            return None
        e = self.expr_operand(op)
        return e

    def result_edges(self, call):
        """Edges that decide the outcome of `call`'s result.
        Returns list of (switch_bb, ok_targets:set, err_targets:set, kind) for every switch whose scrutinee is
        the discriminant of a Result/ControlFlow/Option value that wraps this call's result."""
        out = []
        for b in self.reach:
            t = self.term(b)
            if t.get('t') != 'switch':
                continue
            e = self.expr_operand(t['op'])
            if e[0] == 'call' and t.get('ty') == 'bool' and e[2] and e[1].split('::')[-1] in ('is_none', 'is_some', 'is_ok', 'is_err') and expr_wraps_call(e[2][0], call.bb):
                arms = dict((v, tb) for v, tb in t['arms'])
                t_true = arms.get(1, t['else']) if 0 in arms else arms.get(1)
                t_false = arms.get(0, t['else'])
                pos = e[1].split('::')[-1] in ('is_some', 'is_ok')
                ok_t, err_t = (t_true, t_false) if pos else (t_false, t_true)
                out.append((b, {ok_t} if ok_t is not None else set(), {err_t} if err_t is not None else set(), 'is_test'))
                continue
            if e[0] != 'discr':
                continue
            inner = e[1]
            if not expr_wraps_call(inner, call.bb):
                continue
            # type of the discriminated place: find the 'discr' statement in this block
            ty = self._discr_type(b, t)
            if ty is None:
                continue
            if ty.startswith('std::task::Poll<'):
                continue
            arms = dict((v, tb) for v, tb in t['arms'])
            other = t['else']
            if ty.startswith('std::ops::ControlFlow<') or ty.startswith('std::result::Result<') or ty.startswith('core::result::Result<'):
                ok = {arms[0]} if 0 in arms else {other}
                err = {arms[1]} if 1 in arms else ({other} if not self.is_unreachable_block(other) else set())
                kind = 'try' if ty.startswith('std::ops::ControlFlow<') else 'result'
            elif ty.startswith('std::option::Option<'):
                ok = {arms[1]} if 1 in arms else {other}
                err = {arms[0]} if 0 in arms else ({other} if not self.is_unreachable_block(other) else set())
                kind = 'option'
            else:
                continue
            out.append((b, ok, err, kind))
        return out

    def _discr_type(self, b, t):
        pl = op_place(t['op'])
        if pl is None:
            return None
        l = pl[0]
        sd = self.single_def(l)
        if sd is None or sd[1] == 't':
            return None
        st = self.stmts(sd[0])[sd[1]]
        rv = st['rv']
        if rv['r'] != 'discr':
            return None
        return rv.get('ty') or self.place_type(rv['p'])

    def place_type(self, place):
        """type string of a place when it can be read off the local's declared type (no field projection);
        for projections we only strip derefs/refs"""
        ty = self.locals[place[0]]
        for pr in place[1:]:
            if pr == '*':
                ty = re.sub(r"^&(?:'\S+ )?(?:mut )?", '', ty)
            else:
                return None
        return ty

    # ---------------------------------------------------------------- return classification
    def return_sites(self):
        """list of (bb, kind, detail): where the return place _0 is written.
        kind in ok / err / tail (result of a call passed through) / value"""
        out = []
        for (b, i, whole) in self.defs.get(0, []):
            if not whole:
                continue
            if i == 't':
                t = self.term(b)
                if t['t'] != 'call':
                    continue
                decl = t.get('fn', '')
                if decl == 'std::ops::FromResidual::from_residual':
                    out.append((b, 'err', 'from_residual'))
                else:
                    out.append((b, 'tail', t.get('res') or decl))
            else:
                rv = self.stmts(b)[i]['rv']
                if rv['r'] == 'agg' and rv.get('kind') == 'adt' and rv['adt'] in ('std::result::Result', 'core::result::Result'):
                    out.append((b, 'ok' if rv['variant'] == 'Ok' else 'err', rv['variant']))
                elif rv['r'] == 'agg' and rv.get('kind') == 'adt' and rv['adt'] in ('std::option::Option',):
                    out.append((b, 'some' if rv['variant'] == 'Some' else 'none', rv['variant']))
                else:
                    e = self._expr_rvalue(rv, 0, frozenset())
                    kind = 'value'
                    # a Result/Option variable returned on the edge where it is known to be Err/None
                    for lit in self.literals_at(b):
                        le = lit['expr']
                        if le[0] == 'discr' and le[1] == e:
                            taken = lit['vals'] if not lit['else'] else [v for v in (0, 1) if v not in lit['arms']]
                            lty = self._discr_type(lit['bb'], self.term(lit['bb'])) or ''
                            if 'Result<' in lty and taken == [1]:
                                kind = 'err'
                            elif 'Result<' in lty and taken == [0]:
                                kind = 'ok'
                            elif 'Option<' in lty and taken == [0]:
                                kind = 'none'
                    out.append((b, kind, e))
        return out

    def ok_return_blocks(self, include_tail=True):
        out = set()
        for b, kind, _ in self.return_sites():
            if kind in ('ok', 'some', 'value') or (include_tail and kind == 'tail'):
                out.add(b)
        return out

    # ---------------------------------------------------------------- guard literals
    def dominating_edges(self, target):
        """list of (switch_bb, taken_successor) such that every path entry->target uses that edge
        (the successor dominates target and the switch has >1 successor and the other successors
        cannot reach target without coming back through the switch...).  Conservative: an edge (d,s) is
        reported iff s dominates target, d = idom-chain ancestor ending in a switch, and s has d as its only predecessor."""
        out = []
        doms = self.dominators(target)
        domset = set(doms)
        for s in doms:
            ps = [p for p in self.pred(s) if p in self.reach]
            if len(ps) != 1:
                continue
            d = ps[0]
            if self.term(d).get('t') == 'switch' and len(self.succ(d)) > 1 and d in domset:
                out.append((d, s))
        out.reverse()
        return out

    def edge_value(self, d, s):
        """the switch values that lead from d to s: (values:list, is_else:bool)"""
        t = self.term(d)
        vals = [v for v, tb in t['arms'] if tb == s]
        return vals, (t['else'] == s)

    def literals_at(self, target):
        """guard literals (expr, values, is_else, switch_bb) holding whenever `target` executes"""
        out = []
        for d, s in self.dominating_edges(target):
            t = self.term(d)
            e = self.expr_operand(t['op'])
            vals, is_else = self.edge_value(d, s)
            allvals = [v for v, _ in t['arms']]
            out.append({'expr': e, 'vals': vals, 'else': is_else, 'arms': allvals, 'bb': d, 'ty': t.get('ty'), 'ln': t.get('ln')})
        return out

    # ---------------------------------------------------------------- misc
    def user_stmt(self, s):
        return not s.get('x', '').startswith('m:')

    def line_of_block(self, b):
        for s in self.stmts(b):
            if 'ln' in s and not s.get('x'):
                return s['ln']
        return self.term(b).get('ln')

    def where(self, b):
        return '%s:%s' % (self.file, self.line_of_block(b))


def expr_wraps_call(e, bb):
    """does expression e denote (a wrapper around) the result of the call at block bb?"""
    while True:
        k = e[0]
        if k == 'call':
            if e[3] == bb:
                return True
            # pass-through adaptors keep the Ok/Err-ness of their first argument
            n = e[1]
            if is_result_adaptor(n) and e[2]:
                e = e[2][0]
                continue
            return False
        if k in ('await', 'try'):
            e = e[1]
            continue
        if k in ('poll', 'branch'):
            e = e[1]
            if e is None:
                return False
            continue
        return False


RESULT_ADAPTORS = (
    'with_error_context', 'with_error', 'with_warn_context', 'with_info_context', 'with_debug_context',
    'map_err', 'std::result::Result::map_err', 'or_else_err',
    'anyhow::Context::context', 'anyhow::Context::with_context', 'inspect_err',
)


def is_result_adaptor(name):
    last = name.split('::')[-1]
    return last in ('with_error_context', 'with_error', 'with_warn_context', 'with_info_context', 'with_debug_context',
                    'with_trace_context', 'map_err', 'context', 'with_context', 'inspect_err', 'consume_with_error', 'ok_or', 'ok_or_else')


def expr_calls(e, acc=None):
    """all ('call', ...) nodes inside an expression"""
    if acc is None:
        acc = []
    if not isinstance(e, tuple):
        return acc
    if e and e[0] == 'call':
        acc.append(e)
    for x in e[1:]:
        if isinstance(x, tuple):
            if x and isinstance(x[0], str):
                expr_calls(x, acc)
            else:
                for y in x:
                    if isinstance(y, tuple):
                        if y and isinstance(y[0], str) and y[0] in EXPR_HEADS:
                            expr_calls(y, acc)
                        else:
                            for z in y:
                                if isinstance(z, tuple):
                                    expr_calls(z, acc)
    return acc


EXPR_HEADS = {'const', 'param', 'upvar', 'local', 'field', 'variant', 'index', 'call', 'await', 'try', 'bin', 'un', 'agg',
              'tuple', 'closure', 'discr', 'len', 'fnitem', 'poll', 'branch', 'env', 'resume', 'constitem', 'array',
              'overflow', 'subslice', 'proj', 'opaque', 'ctx'}


def walk(e):
    """pre-order traversal over all sub-expressions"""
    if not isinstance(e, tuple) or not e:
        return
    if isinstance(e[0], str) and e[0] in EXPR_HEADS:
        yield e
        for x in e[1:]:
            if isinstance(x, tuple):
                yield from walk(x)
    else:
        for x in e:
            if isinstance(x, tuple):
                yield from walk(x)


def render(e, depth=0):
    """compact human-readable rendering of an expression"""
    if not isinstance(e, tuple) or not e:
        return str(e)
    k = e[0]
    if depth > 8:
        return '…'
    if k == 'const':
        return e[1]
    if k == 'constitem':
        return short(e[1])
    if k == 'param' or k == 'upvar':
        return e[1]
    if k == 'local':
        return e[2] or '_%d' % e[1]
    if k == 'field':
        return '%s.%s' % (render(e[1], depth + 1), e[2])
    if k == 'variant':
        return '(%s as %s)' % (render(e[1], depth + 1), e[2])
    if k == 'index':
        return '%s[%s]' % (render(e[1], depth + 1), render(e[2], depth + 1))
    if k == 'call':
        return '%s(%s)' % (short(e[1]), ', '.join(render(a, depth + 1) for a in e[2]))
    if k == 'await':
        return '%s.await' % render(e[1], depth + 1)
    if k == 'try':
        return '%s?' % render(e[1], depth + 1)
    if k == 'poll':
        return 'poll(%s)' % render(e[1], depth + 1)
    if k == 'branch':
        return 'branch(%s)' % render(e[1], depth + 1)
    if k == 'bin':
        return '(%s %s %s)' % (render(e[2], depth + 1), e[1], render(e[3], depth + 1))
    if k == 'un':
        return '%s(%s)' % (e[1], render(e[2], depth + 1))
    if k == 'agg':
        return '%s::%s{%s}' % (e[1].split('::')[-1], e[2], ', '.join('%s: %s' % (n, render(x, depth + 1)) for n, x in e[3]))
    if k == 'tuple' or k == 'array':
        return '(%s)' % ', '.join(render(x, depth + 1) for x in e[1])
    if k == 'closure':
        return 'closure<%s>' % short(e[1])
    if k == 'discr':
        return 'discr(%s)' % render(e[1], depth + 1)
    if k == 'len':
        return 'len(%s)' % render(e[1], depth + 1)
    if k == 'fnitem':
        return short(e[1])
    if k == 'overflow':
        return 'overflow(%s)' % render(e[1], depth + 1)
    return k


def _root_var(self, op_or_place, depth=0):
    """name of the user variable an operand/place is rooted at (through temporaries that are refs/copies of it)"""
    place = op_or_place if isinstance(op_or_place, list) else op_place(op_or_place)
    if place is None or depth > 12:
        return None
    l = place[0]
    nm = self.local_name(l)
    if nm is not None:
        return nm
    if l != 0 and l <= self.argc:
        return None
    sd = self.single_def(l)
    if sd is None or sd[1] == 't':
        if sd is not None:
            t = self.term(sd[0])
            if t.get('t') == 'call' and (t.get('fn') in TRANSPARENT_CALLS) and t.get('args'):
                return _root_var(self, t['args'][0], depth + 1)
        return None
    rv = self.stmts(sd[0])[sd[1]]['rv']
    if rv['r'] in ('ref', 'rawptr'):
        return _root_var(self, rv['p'], depth + 1)
    if rv['r'] in ('use', 'cast'):
        return _root_var(self, rv['a'], depth + 1)
    return None


Body.root_var = _root_var


def _whole_def_expr(self, l):
    """expression of the unique whole-local definition of l, ignoring partial (field) writes; None if not unique"""
    ds = [x for x in self.defs.get(l, []) if x[2]]
    if len(ds) != 1 or (l != 0 and l <= self.argc):
        return None
    b, i, _ = ds[0]
    if i == 't':
        t = self.term(b)
        if t['t'] == 'call':
            return self._expr_call(b, t, 1, frozenset({l}))
        return None
    return self._expr_rvalue(self.stmts(b)[i]['rv'], 1, frozenset({l}))


Body.whole_def_expr = _whole_def_expr


# ---------------------------------------------------------------- phi-expanded expressions (A10 normal forms)
def _pos(i):
    return 10 ** 9 if i == 't' else i


def _reaching(self, l, at):
    """whole definitions of local l that reach the use site at=(block, index|'t') without being overwritten on the way"""
    cache = self.__dict__.setdefault('_reach_cache', {})
    key = (l, at)
    if key in cache:
        return cache[key]
    ub, ui = at
    up = _pos(ui)
    alld = [(b, i) for (b, i, whole) in self.defs.get(l, []) if whole]
    byblock = {}
    for b, i in alld:
        byblock.setdefault(b, []).append(_pos(i))
    out = []
    for (b, i) in alld:
        p = _pos(i)
        reaches = False
        # same block, before the use, nothing in between
        if b == ub and p < up and not any(p < q < up for q in byblock[b]):
            reaches = True
        # leaves its block alive?
        elif not any(q > p for q in byblock[b]):
            seenb = set()
            work = list(self.succ(b))
            while work and not reaches:
                x = work.pop()
                if x in seenb or x not in self.reach:
                    continue
                seenb.add(x)
                if x == ub:
                    if not any(q < up for q in byblock.get(x, [])):
                        reaches = True
                        break
                    continue   # overwritten before the use in the use block (a later def of this block is handled by its own turn)
                if x in byblock:
                    continue   # killed
                work.extend(self.succ(x))
        if reaches:
            out.append((b, i))
    cache[key] = out
    return out


def _pexpr_local(self, l, depth=0, seen=frozenset(), at=None):
    """like expr_local, but a local with several whole definitions becomes ('phi', (alternatives...)) instead of a name;
    with `at` = use site, only the definitions that reach that site are alternatives (flow-sensitive)"""
    cache = self.__dict__.setdefault('_pexpr_cache', {})
    ckey = (l, at) if at is not None else l
    if not seen and ckey in cache:
        return cache[ckey]
    if l in seen or depth > 30:
        return ('local', l, self.local_name(l), _ty_short(self.locals[l]))
    if self.kind == 'Closure' and l == 1:
        return ('env',)
    if l != 0 and l <= self.argc:
        return ('param', self.local_name(l) or ('arg%d' % l))
    ds = self.defs.get(l, [])
    whole = [x for x in ds if x[2]]
    partial = [x for x in ds if not x[2]]
    if at is not None and len(whole) > 1:
        r = _reaching(self, l, at)
        if r:
            rs = set(r)
            whole = [x for x in whole if (x[0], x[1]) in rs]
    seen2 = seen | {l}
    if not whole or len(whole) > 4 or (partial and self.local_name(l) is not None):
        e = ('local', l, self.local_name(l), _ty_short(self.locals[l]))
    else:
        alts = []
        for (b, i, _) in whole:
            sub = (b, i) if at is not None else None
            if i == 't':
                t = self.term(b)
                if t['t'] == 'call':
                    alts.append(self._pexpr_call(b, t, depth + 1, seen2, sub))
                else:
                    alts.append(('resume', b))
            else:
                alts.append(self._pexpr_rvalue(self.stmts(b)[i]['rv'], depth + 1, seen2, sub))
        if len(alts) == 1 and not partial:
            e = alts[0]
        elif len(alts) == 1:
            e = ('upd', alts[0])   # aggregate later modified field-wise
        else:
            uniq = []
            for a in alts:
                if a not in uniq:
                    uniq.append(a)
            e = uniq[0] if len(uniq) == 1 else ('phi', tuple(sorted(uniq, key=lambda x: render(x))))
    if not seen:
        cache[ckey] = e
    return e


def _pexpr_operand(self, op, depth=0, seen=frozenset(), at=None):
    if 'k' in op:
        if 'item' in op:
            return ('constitem', op['item'], op.get('ty', ''))
        return ('const', op['k'], op.get('ty', ''))
    if 'fn' in op:
        return ('fnitem', op['fn'])
    return self._pexpr_place(op_place(op), depth, seen, at)


def _pexpr_place(self, place, depth=0, seen=frozenset(), at=None):
    base = self._pexpr_local(place[0], depth, seen, at)
    for pr in place[1:]:
        if base[0] == 'phi':
            base = ('phi', tuple(self._project(a, pr) for a in base[1]))
        elif base[0] == 'upd':
            base = self._project(base[1], pr)
        else:
            base = self._project(base, pr)
    return base


def _pexpr_call(self, b, t, depth, seen, at=None):
    name = t.get('res') or t.get('fn') or '<indirect>'
    args = tuple(self._pexpr_operand(a, depth, seen, at) for a in t.get('args', []))
    decl = t.get('fn') or ''
    if (decl in TRANSPARENT_CALLS or name in TRANSPARENT_CALLS) and len(args) == 1:
        return args[0]
    if decl.endswith('Future::poll'):
        return ('poll', args[0] if args else None, b)
    if decl == 'std::ops::Try::branch':
        return ('branch', args[0], b)
    if decl == 'std::future::get_context':
        return ('ctx',)
    return ('call', name, args, b)


def _pexpr_rvalue(self, rv, depth, seen, at=None):
    # reuse _expr_rvalue with operand/place hooks swapped
    r = rv['r']
    O = lambda o: self._pexpr_operand(o, depth, seen, at)
    Pl = lambda p: self._pexpr_place(p, depth, seen, at)
    if r in ('use', 'repeat', 'cast'):
        return O(rv['a'])
    if r in ('ref', 'rawptr'):
        return Pl(rv['p'])
    if r == 'bin':
        op = rv['op'].replace('WithOverflow', '').replace('Unchecked', '')
        return ('bin', op, O(rv['a']), O(rv['b']))
    if r == 'un':
        if rv['op'] == 'PtrMetadata':
            return ('len', O(rv['a']))
        return ('un', rv['op'], O(rv['a']))
    if r == 'discr':
        return ('discr', Pl(rv['p']))
    if r == 'agg':
        ops = tuple(O(o) for o in rv['ops'])
        k = rv['kind']
        if k == 'adt':
            return ('agg', rv['adt'], rv['variant'], tuple(zip(rv.get('names', []), ops)))
        if k == 'tuple':
            return ('tuple', ops)
        if k in ('closure', 'coroutine', 'coroutine_closure'):
            return ('closure', rv['def'], tuple(zip(rv.get('names', []), ops)))
        return ('array', ops)
    return ('opaque', r)


Body.pexpr_local = _pexpr_local
Body._pexpr_local = _pexpr_local
Body.pexpr_operand = _pexpr_operand
Body._pexpr_operand = _pexpr_operand
Body.pexpr_place = _pexpr_place
Body._pexpr_place = _pexpr_place
Body._pexpr_call = _pexpr_call
Body._pexpr_rvalue = _pexpr_rvalue
EXPR_HEADS.update({'phi', 'upd'})

def _ty_short(ty):
    t = re.sub(r"^(&(?:'\S+ )?(?:mut )?)+", '', ty)
    t = re.sub(r'<.*$', '', t)
    return t.split('::')[-1]


COMMUTATIVE = {'Add', 'Mul', 'BitOr', 'BitAnd', 'BitXor', 'Eq', 'Ne'}
FLIP = {'Gt': 'Lt', 'Lt': 'Gt', 'Ge': 'Le', 'Le': 'Ge'}


def canon(e, depth=0, cd=99):
    """canonical, name-free normal form of an expression (A10): casts/refs/await/? transparent, commutative
    operands sorted, comparisons oriented (`a > b` printed as `b < a`), locals only when loop-carried"""
    if not isinstance(e, tuple) or not e:
        return str(e)
    if depth > 14:
        return '…'
    k = e[0]
    d = depth + 1
    C = lambda x: canon(x, d, cd)
    Cc = lambda x: canon(x, d, cd - 1)
    if k == 'const':
        return e[1]
    if k == 'constitem':
        return e[1].split('::')[-1]
    if k in ('param', 'upvar'):
        return e[1]
    if k == 'local':
        if len(e) > 3 and e[3]:
            return '$' + e[3]
        return '$' + (e[2] or str(e[1]))
    if k == 'env':
        return 'env'
    if k == 'field':
        if e[2] == '0' and e[1][0] == 'variant' and e[1][2] in ('Some', 'Ok', 'Ready', 'Continue'):
            return C(e[1][1])
        return '%s.%s' % (C(e[1]), e[2])
    if k == 'variant':
        return C(e[1]) if e[2] in ('Some', 'Ok', 'Ready', 'Continue') else '(%s as %s)' % (C(e[1]), e[2])
    if k == 'index':
        return '%s[%s]' % (C(e[1]), C(e[2]))
    if k == 'call':
        last = e[1].split('::')[-1]
        if is_result_adaptor(e[1]) and e[2]:
            return C(e[2][0])
        if last in ('unwrap', 'expect', 'unwrap_or_default') and e[2]:
            return C(e[2][0])
        if last in ('from', 'into', 'try_into', 'as_bytes_u64', 'as_bytes_usize') and len(e[2]) == 1:
            return C(e[2][0])
        nm = short(e[1])
        if nm.endswith('_mut'):
            nm = nm[:-4]
        if cd <= 0:
            return '%s(…)' % nm
        return '%s(%s)' % (nm, ', '.join(Cc(a) for a in e[2]))
    if k in ('await', 'try'):
        return C(e[1])
    if k in ('poll', 'branch'):
        return C(e[1]) if e[1] is not None else k
    if k == 'bin':
        a, b = C(e[2]), C(e[3])
        op = e[1]
        if op in COMMUTATIVE and b < a:
            a, b = b, a
        if op in ('Gt', 'Ge'):
            a, b, op = b, a, FLIP[op]
        sym = {'Add': '+', 'Sub': '-', 'Mul': '*', 'Div': '/', 'Rem': '%', 'Lt': '<', 'Le': '<=', 'Eq': '==', 'Ne': '!=',
               'BitOr': '|', 'BitAnd': '&', 'BitXor': '^', 'Shl': '<<', 'Shr': '>>'}.get(op, op)
        return '(%s %s %s)' % (a, sym, b)
    if k == 'un':
        return '%s(%s)' % ('!' if e[1] == 'Not' else e[1], C(e[2]))
    if k == 'agg':
        if e[1] in ('std::option::Option', 'std::result::Result') and e[2] in ('Some', 'Ok') and e[3]:
            return C(e[3][0][1])
        return '%s::%s{%s}' % (e[1].split('::')[-1], e[2], ', '.join('%s: %s' % (n, C(x)) for n, x in e[3]))
    if k in ('tuple', 'array'):
        return '(%s)' % ', '.join(C(x) for x in e[1])
    if k == 'closure':
        return 'closure'
    if k == 'discr':
        return 'discr(%s)' % C(e[1])
    if k == 'len':
        return 'len(%s)' % C(e[1])
    if k == 'fnitem':
        return short(e[1])
    if k == 'overflow':
        return C(e[1])
    if k == 'phi':
        alts = sorted(set(C(x) for x in e[1]))
        return alts[0] if len(alts) == 1 else 'phi{%s}' % ' | '.join(alts)
    if k == 'upd':
        return C(e[1])
    return k
