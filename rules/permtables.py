"""A8 — decision-table extraction for the loop-free permission rule functions.

Each function is abstractly executed over assignments to *atoms* (a permission flag of a keyed record, presence
of a record / of the per-topic table, membership in a denormalised set).  Unknown atoms fork the execution, so the
result is the complete decision tree: every leaf = (atom assignment along the path, outcome ok|err|panic).
No solver; the enumeration is exhaustive.
"""
from mir import render, walk, short, op_place

PERM_ADTS = {
    'iggy::models::permissions::GlobalPermissions': 'G',
    'iggy::models::permissions::StreamPermissions': 'S',
    'iggy::models::permissions::TopicPermissions': 'T',
}
PERMISSIONER = 'server::streaming::users::permissioner::Permissioner'


class Undecidable(Exception):
    pass


class Need(Exception):
    def __init__(self, atom):
        self.atom = atom


def canon(e):
    """canonical string of an expression with Option adaptors removed"""
    return render(_strip(e), 0)


def _strip(e):
    while True:
        if e[0] == 'call' and e[1].split('::')[-1] in ('as_ref', 'unwrap', 'expect', 'as_mut', 'as_deref') and e[2]:
            e = e[2][0]
            continue
        if e[0] == 'field' and e[2] == '0' and e[1][0] == 'variant' and e[1][2] == 'Some':
            e = e[1][1]
            continue
        return e


CTX = None   # set by the rule module: lets record_keys look into closures passed to and_then / map


def record_keys(e):
    """lookup chain of a record expression: [(container field, key expr)] from outermost to innermost"""
    out = []
    for x in walk(e):
        if x[0] == 'call' and x[1].split('::')[-1] in ('get', 'contains', 'contains_key', 'get_mut') and len(x[2]) == 2:
            cont = _strip(x[2][0])
            cname = cont[2] if cont[0] == 'field' else render(cont)
            out.append((cname, x[2][1]))
        if x[0] == 'call' and x[1].split('::')[-1] in ('and_then', 'map', 'filter', 'is_some_and', 'map_or') and CTX is not None:
            # the lookup happens inside the closure: `opt.and_then(|table| table.get(&key))`
            recv = _strip(x[2][0]) if x[2] else None
            for a in x[2][1:]:
                if a[0] == 'closure' and CTX.has(a[1]):
                    cb = CTX.body(a[1])
                    for c in cb.calls:
                        if c.name.split('::')[-1] in ('get', 'contains', 'contains_key', 'get_mut') and len(c.args) == 2:
                            k = cb.expr_operand(c.args[1])
                            if k[0] == 'upvar':
                                k = ('param', k[1])
                            cname = recv[2] if recv is not None and recv[0] == 'field' else 'closure'
                            out.append((cname, k))
    return out


class Sim:
    def __init__(self, ctx, fn):
        self.ctx = ctx
        self.fn = fn
        self.body = ctx.body(fn)
        self.atoms = {}   # atom key -> descriptor dict

    # ----- atoms
    def atom(self, kind, e, extra=None):
        key = (kind, canon(e), extra)
        if key not in self.atoms:
            d = {'kind': kind, 'expr': e, 'name': extra, 'keys': record_keys(e)}
            if kind == 'flag':
                d['level'] = PERM_ADTS.get(e[3], '?')
                d['flag'] = e[2]
            self.atoms[key] = d
        return key

    def ev(self, e, A):
        k = e[0]
        if k == 'const':
            v = e[1]
            if v in ('true', 'false'):
                return v == 'true'
            try:
                return int(v)
            except ValueError:
                raise Undecidable('constant %s' % v)
        if k == 'field' and e[3] in PERM_ADTS and e[2] != 'topics':
            a = self.atom('flag', e)
            if a not in A:
                raise Need(a)
            return A[a]
        if k == 'discr':
            return 1 if self.present(e[1], A) else 0
        if k == 'call':
            last = e[1].split('::')[-1]
            if last in ('contains', 'contains_key') and len(e[2]) == 2:
                a = self.atom('set', e)
                if a not in A:
                    raise Need(a)
                return A[a]
            if last == 'is_none':
                return not self.present(e[2][0], A)
            if last == 'is_some':
                return self.present(e[2][0], A)
            raise Undecidable('call %s in a branch condition' % short(e[1]))
        if k == 'bin':
            op = e[1]
            if op in ('BitOr', 'BitAnd', 'BitXor', 'Eq', 'Ne'):
                a, b = self.ev(e[2], A), self.ev(e[3], A)
                return {'BitOr': a or b, 'BitAnd': a and b, 'BitXor': a != b, 'Eq': a == b, 'Ne': a != b}[op]
            raise Undecidable('operator %s' % op)
        if k == 'un' and e[1] == 'Not':
            return not self.ev(e[2], A)
        raise Undecidable('expression %s in a branch condition' % render(e)[:80])

    def present(self, x, A):
        x = _strip(x)
        a = self.atom('has', x)
        if a not in A:
            raise Need(a)
        return A[a]

    # ----- execution
    def run(self):
        leaves = []
        self._go(0, {}, None, set(), leaves, [])
        return leaves

    def _go(self, bb, A, ret, seen, leaves, trail):
        b = self.body
        while True:
            if bb in seen:
                raise Undecidable('loop in a permission rule at %s' % b.where(bb))
            seen = seen | {bb}
            # statements writing the return place
            for s in b.stmts(bb):
                lhs = s.get('lhs')
                if lhs == [0]:
                    rv = s['rv']
                    if rv['r'] == 'agg' and rv.get('adt') in ('std::result::Result', 'core::result::Result'):
                        ret = 'ok' if rv['variant'] == 'Ok' else 'err'
                    else:
                        ret = ('value', b._expr_rvalue(rv, 0, frozenset()))
            t = b.term(bb)
            k = t.get('t')
            try:
                if k == 'return':
                    leaves.append((dict(A), ret, list(trail)))
                    return
                if k == 'goto':
                    bb = t['to']
                    continue
                if k == 'switch':
                    e = b.expr_operand(t['op'])
                    v = self.ev(e, A)
                    v = int(v)
                    nxt = None
                    for val, tb in t['arms']:
                        if val == v:
                            nxt = tb
                    if nxt is None:
                        nxt = t['else']
                    bb = nxt
                    continue
                if k == 'call':
                    decl = t.get('fn', '')
                    name = t.get('res') or decl
                    if t.get('x', '').startswith('m:'):
                        if t.get('to') is None:
                            leaves.append((dict(A), 'panic', list(trail)))
                            return
                        bb = t['to']
                        continue
                    last = decl.split('::')[-1]
                    if decl in ('std::option::Option::unwrap', 'std::option::Option::expect', 'core::option::Option::unwrap'):
                        x = b.expr_operand(t['args'][0])
                        if not self.present(x, A):
                            leaves.append((dict(A), 'panic', trail + [('unwrap of absent %s' % canon(x), t.get('ln'))]))
                            return
                    if name.startswith(PERMISSIONER + '::') and t.get('dest') == [0]:
                        args = [b.expr_operand(a) for a in t['args']]
                        leaves.append((dict(A), ('delegate', name, args, t.get('ln')), list(trail)))
                        # result is returned as is
                        ret = ('delegate', name, args, t.get('ln'))
                        if t.get('to') is None:
                            return
                        leaves.pop()
                        bb = t['to']
                        continue
                    if t.get('to') is None:
                        leaves.append((dict(A), 'panic', trail + [('diverging call %s' % short(name), t.get('ln'))]))
                        return
                    bb = t['to']
                    continue
                if k in ('drop', 'assert'):
                    bb = t['to']
                    continue
                if k == 'unreachable':
                    return
                raise Undecidable('terminator %s' % k)
            except Need as n:
                for val in (True, False):
                    A2 = dict(A)
                    A2[n.atom] = val
                    self._go(bb, A2, ret, seen - {bb}, leaves, trail)
                return


def describe_atom(sim, key):
    d = sim.atoms[key]
    if d['kind'] == 'flag':
        return '%s.%s[%s]' % (d['level'], d['flag'], ','.join(render(k) for _, k in d['keys']))
    if d['kind'] == 'set':
        cont = d['keys'][-1][0] if d['keys'] else '?'
        return 'in %s[%s]' % (cont, ','.join(render(k) for _, k in d['keys']))
    return 'has %s' % canon(d['expr'])


def lookup(leaves, A):
    """outcome of a total assignment (atoms missing from A default to False)"""
    for LA, out, _ in leaves:
        if all(A.get(k, False) == v for k, v in LA.items()):
            return out
    return None
