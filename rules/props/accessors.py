"""Frozen accessor table (A9/A10): small &self functions that the rules of several properties treat as "the value of
field X".  Each must still return its confirmed normal form — a swapped field here silently invalidates every rule that
reasons about the accessor by name.  Generated from the pinned tree, confirmed by reading."""
from mir import canon

ST = 'server::streaming::'
ACCESSORS = {
    'C02': {
        ST + 'batching::batch_accumulator::BatchAccumulator::batch_base_offset': 'self.base_offset',
        ST + 'batching::batch_accumulator::BatchAccumulator::batch_max_offset': 'self.current_offset',
        ST + 'batching::batch_accumulator::BatchAccumulator::batch_max_timestamp': 'self.current_timestamp',
        ST + 'batching::batch_accumulator::BatchAccumulator::is_empty': 'Vec::is_empty(self.messages)',
        ST + 'batching::batch_accumulator::BatchAccumulator::unsaved_messages_count': 'Vec::len(self.messages)',
        ST + 'batching::message_batch::RetainedMessageBatch::get_last_offset': '(self.base_offset + self.last_offset_delta)',
        ST + 'segments::indexes::index_reader::SegmentIndexReader::file_size': 'Atomic::load(self.index_size_bytes, Ordering::Acquire{})',
        ST + 'segments::logs::log_reader::SegmentLogReader::file_size': 'Atomic::load(self.log_size_bytes, Ordering::Acquire{})',
        ST + 'partitions::partition::Partition::get_segments': 'self.segments',
        ST + 'cache::buffer::SmartCache::len': 'CustomVc::len(self.buffer)',
        ST + 'cache::buffer::SmartCache::is_empty': 'CustomVc::is_empty(self.buffer)',
    },
    'C06': {
        ST + 'streams::stream::Stream::get_topic_by_id': 'AHashMap::get(self.topics, id)',
        ST + 'streams::stream::Stream::get_topic_by_id_mut': 'AHashMap::get(self.topics, id)',
        ST + 'streams::stream::Stream::try_get_topic_by_name': 'Option::and_then(AHashMap::get(self.topics_ids, name), closure)',
        ST + 'streams::stream::Stream::get_topic_by_name_mut': 'Option::and_then(AHashMap::get(self.topics_ids, name), closure)',
        ST + 'systems::system::System::try_get_stream_by_name': 'Option::and_then(AHashMap::get(self.streams_ids, name), closure)',
        ST + 'topics::topic::Topic::try_get_consumer_group_by_name': 'Option::and_then(AHashMap::get(self.consumer_groups_ids, name), closure)',
        ST + 'streams::stream::Stream::get_topics': 'Iterator::collect(HashMap::values(self.topics))',
        ST + 'systems::system::System::get_streams': 'Iterator::collect(HashMap::values(self.streams))',
        ST + 'topics::topic::Topic::get_consumer_groups': 'Iterator::collect(HashMap::values(self.consumer_groups))',
        ST + 'topics::topic::Topic::has_partitions': '!(HashMap::is_empty(self.partitions))',
    },
    'C08': {
        ST + 'topics::consumer_group::ConsumerGroup::get_members': 'Iterator::collect(HashMap::values(self.members))',
        ST + 'topics::topic::Topic::get_partitions_count': 'HashMap::len(self.partitions)',
    },
    'C09': {
        ST + 'session::Session::get_user_id': 'Atomic::load(self.user_id, Ordering::Acquire{})',
        ST + 'session::Session::is_active': 'Atomic::load(self.active, Ordering::Acquire{})',
        ST + 'session::Session::is_authenticated': '(0 < Session::get_user_id(self))',          # user id 0 = not logged in
        ST + 'session::Session::set_user_id': 'Atomic::store(self.user_id, user_id, Ordering::Release{})',
        ST + 'session::Session::clear_user_id': 'Session::set_user_id(self, 0)',
        ST + 'users::user::User::is_root': '(1 == self.id)',                                       # DEFAULT_ROOT_USER_ID
        ST + 'users::user::User::is_active': '::eq(self.status, is_active)',
    },
    'C16': {
        ST + 'partitions::partition::Partition::get_messages_count': 'Atomic::load(self.messages_count, Ordering::SeqCst{})',
        ST + 'partitions::partition::Partition::get_segments_count': 'Vec::len(self.segments)',
        ST + 'segments::segment::Segment::get_messages_count': 'phi{((self.current_offset - self.start_offset) + 1) | 0}',   # what load adds to and delete subtracts from the message counters
        ST + 'topics::topic::Topic::get_messages_count': 'Atomic::load(self.messages_count, Ordering::SeqCst{})',
        ST + 'topics::topic::Topic::get_partitions_count': 'HashMap::len(self.partitions)',
        ST + 'streams::stream::Stream::get_messages_count': 'Atomic::load(self.messages_count, Ordering::SeqCst{})',
        ST + 'streams::stream::Stream::get_segments_count': 'Atomic::load(self.segments_count, Ordering::SeqCst{})',
        ST + 'streams::stream::Stream::get_size': 'Atomic::load(self.size_bytes, Ordering::SeqCst{})',
        ST + 'streams::stream::Stream::get_topics_count': 'HashMap::len(self.topics)',
        ST + 'cache::memory_tracker::CacheMemoryTracker::usage_bytes': 'Atomic::load(self.used_memory_bytes, Ordering::SeqCst{})',
        # what one stored message / batch weighs: the fixed part is the header RetainedMessage::extend writes (offset 8, state 1, timestamp 8, id 16, checksum 4 = 37) + headers length prefix 4
        '<T as server::streaming::local_sizeable::LocalSizeable>::get_size_bytes': '((37 + Option::unwrap_or(Option::map(self.headers, closure), 4)) + Bytes::len(self.payload))',
        '<server::streaming::models::messages::RetainedMessage as iggy::utils::sizeable::Sizeable>::get_size_bytes': '((37 + Option::unwrap_or(Option::map(self.headers, closure), 4)) + Bytes::len(self.payload))',
        '<server::streaming::batching::message_batch::RetainedMessageBatch as iggy::utils::sizeable::Sizeable>::get_size_bytes': '::add(self.length, 24)',
        '<server::streaming::batching::batch_accumulator::BatchAccumulator as iggy::utils::sizeable::Sizeable>::get_size_bytes': '::add(self.current_size, 24)',
        '<server::streaming::partitions::partition::Partition as iggy::utils::sizeable::Sizeable>::get_size_bytes': 'Atomic::load(self.size_bytes, Ordering::SeqCst{})',
        '<server::streaming::topics::topic::Topic as iggy::utils::sizeable::Sizeable>::get_size_bytes': 'Atomic::load(self.size_bytes, Ordering::SeqCst{})',
    },
    'C18': {
        ST + 'deduplication::message_deduplicator::MessageDeduplicator::exists': 'Cache::contains_key(self.cache, id)',
    },
}


def _fold(form):
    """(16 + 8) -> 24, repeatedly: a sum of literals is the same however it is written"""
    import re
    while True:
        new = re.sub(r'\((\d+) \+ (\d+)\)', lambda m: str(int(m.group(1)) + int(m.group(2))), form)
        if new == form:
            return form
        form = new


def check(ctx, rep, prop, rid):
    table = ACCESSORS.get(prop, {})
    rep.rule(rid, 'accessors the other rules rely on by name still return their confirmed field / expression', floor=len(table), analysis='A9+A10')
    for fn, want in sorted(table.items()):
        if not ctx.has(fn):
            rep.ob(rid, fn, 'exists', False, None, 'accessor no longer exists (renamed or removed): the rules that name it must be updated')
            continue
        b = ctx.body(fn)
        got = _fold(canon(b.pexpr_local(0), 0, 4 if 'get_size_bytes' in fn else 3))
        rep.ob(rid, fn, 'returns ' + want, got == want, '%s:%s' % (b.file, b.line), None if got == want else 'accessor now returns `%s` (confirmed: `%s`)' % (got, want))
