"""C01 — partition offsets gap-free, duplicate-free, in send order (structural clauses of the offset mechanism)."""
from lib import *
from mir import render, walk, short, canon
from engine import AnchorLost
from props import storage_forms as sf

TECHNIQUE = 'who-may-write + normal-form provenance tables for the offset state, dominance/pairing rules in the append loops (A1, A2, A3, A10)'
EXPLANATION = ('Decides on the MIR of the current tree: the offset state of partitions and segments is written only by its confirmed owners and every assignment has its '
               'confirmed normal form (base = current+1|0, last = base+count-1, recovery from last index/last segment, new segment at end_offset+1); per-message offsets are '
               'base+k with k incremented once per stored message; a message dropped as duplicate reaches neither the push nor the counter; an all-duplicates batch returns '
               'before any offset state is written; appends go through the partition write lock. Also: the roll-over to a new segment (the only fallible file creation of a send) is not reachable once an offset was assigned, and the batch header written to disk records base = first offset, last_offset_delta = last - first, which is what the index rebuilder re-derives offsets from. Not decided: gap-freedom for every history x configuration (F8 in DESIGN.md is invisible here).')
ASSUMPTIONS = ['the forms in props/storage_forms.py are the pinned representation of the offset mechanism (a representation change must update the table)',
               '&mut Partition is only obtainable through the partition write guard (type system)']

P = sf.PART


def run(ctx, rep):
    offset_assignment(ctx, rep, 'R01.ac', 'R01.c2')
    b = ctx.fn_body(sf.APPEND)

    # ------------------------------------------------------------ R01.d pairing in the loops
    rep.rule('R01.d', 'in both append loops the message counter is incremented exactly where a message is pushed; a duplicate (try_insert false) reaches neither', floor=3, analysis='A2')
    pushes = [c for c in b.calls if c.matches('std::vec::Vec::push') and is_user_call(c) and 'RetainedMessage' in c.gen]
    incs = []
    for blk in sorted(b.reach):
        for s in b.stmts(blk):
            rv = s.get('rv')
            if rv and rv['r'] == 'bin' and rv['op'].startswith('Add') and 'k' in rv['b'] and rv['b']['k'] == '1' and rv['b'].get('ty') == 'u32' and not s.get('x'):
                nm = b.root_var(rv['a'])
                incs.append((blk, nm))
    loops = natural_loops(b)
    ti = [c for c in b.calls if c.name.endswith('MessageDeduplicator::try_insert')]
    for p in pushes:
        # the loop containing the push
        inner = [bl for h, bl in loops if p.bb in bl]
        if not inner:
            rep.ob('R01.d', sf.APPEND, 'push-in-loop', False, p.where(), 'push of a retained message outside a loop')
            continue
        body_ = min(inner, key=len)
        inc_here = [blk for blk, nm in incs if blk in body_]
        paired = len(inc_here) == 1 and (b.dominates(p.bb, inc_here[0]) or b.dominates(inc_here[0], p.bb))
        rep.ob('R01.d', sf.APPEND, 'counter-paired-with-push', paired, p.where(),
               'one increment per push on the same path' if paired else 'the message counter is not incremented exactly once where the message is pushed (increments in loop: %d)' % len(inc_here))
        tis = [c for c in ti if c.bb in body_]
        if tis:
            # dedup loop: push dominated by try_insert == true
            t_ = tis[0]
            lits = bool_literals_at(b, p.bb)
            ok = any(e[0] in ('await', 'call') and expr_wraps(e, t_.bb) and tr for e, tr, _ in lits)
            rep.ob('R01.d', sf.APPEND, 'push-only-for-new-id', ok, p.where(),
                   'push and offset assignment are control-dependent on try_insert == true' if ok else 'a duplicate message can be stored / consume an offset: push is not guarded by try_insert == true')
    if not ti:
        rep.anchor_lost('R01.d', 'MessageDeduplicator::try_insert in append_messages')

    # ------------------------------------------------------------ R01.e nothing written for an all-duplicates batch
    rep.rule('R01.e', 'an all-duplicates (empty) batch returns before any offset state is written', floor=2, analysis='A2')
    guard = None
    for bb_, t, e in switch_exprs(b):
        if t.get('ty') == 'bool' and e[0] == 'bin' and e[1] == 'Eq' and is_const(e[3], 0) and e[2][0] == 'local':
            tt, tf = bool_targets(t)
            guard = (bb_, tt, tf)
    if guard is None:
        rep.anchor_lost('R01.e', '`messages_count == 0` early return in append_messages')
    else:
        gb, tt, tf = guard
        for blk in sorted(b.reach):
            for s in b.stmts(blk):
                lhs = s.get('lhs')
                if lhs and len(lhs) > 1 and place_fields(lhs) and place_fields(lhs)[-1][0] == P and place_fields(lhs)[-1][1] in ('current_offset', 'should_increment_offset'):
                    ok = b.dominates(tf, blk)
                    rep.ob('R01.e', sf.APPEND, '%s written after the empty-batch test' % place_fields(lhs)[-1][1], ok, '%s:%s' % (b.file, s.get('ln')),
                           None if ok else '`%s` is written on a path that can still return early for an all-duplicates batch: a dropped batch changes the offset state' % place_fields(lhs)[-1][1])

    # ------------------------------------------------------------ R01.g nothing fallible after the offsets were consumed
    rep.rule('R01.g', 'a rejected send consumes no offset: the roll-over to a new segment (the only file creation of a send, it can fail) is not reachable once an offset was assigned or current_offset written', floor=2, analysis='A2 ordering')
    adds = [c for c in b.calls if c.name.endswith('Partition::add_persisted_segment') and is_user_call(c)]
    if not adds:
        rep.anchor_lost('R01.g', 'add_persisted_segment in append_messages')
    writes = set()
    for blk in sorted(b.reach):
        for s in b.stmts(blk):
            lhs = s.get('lhs')
            if lhs and len(lhs) > 1 and place_fields(lhs) and place_fields(lhs)[-1][0] == P and place_fields(lhs)[-1][1] in ('current_offset', 'should_increment_offset'):
                writes.add(blk)
    assigns = {c.bb for c in b.calls if c.name.endswith('RetainedMessage::new') and is_user_call(c)}
    for c in adds:
        late_w = [w for w in writes if c.bb in b.reachable(w)]
        late_a = [w for w in assigns if c.bb in b.reachable(w)]
        rep.ob('R01.g', sf.APPEND, 'roll-over before current_offset is written', not late_w, c.where(),
               None if not late_w else 'add_persisted_segment (which can fail) is reachable after current_offset was advanced (%s): the send is rejected but its offsets are consumed' % b.where(late_w[0]))
        rep.ob('R01.g', sf.APPEND, 'roll-over before offsets are assigned', not late_a, c.where(),
               None if not late_a else 'add_persisted_segment (which can fail) is reachable after message offsets were assigned (%s)' % b.where(late_a[0]))

    # ------------------------------------------------------------ R01.h the batch on disk carries its own offset range
    batch_forms(ctx, rep, 'R01.h')

    # ------------------------------------------------------------ R01.b exclusive append
    rep.rule('R01.b', 'Partition::append_messages takes &mut self and its production call sites go through the partition write guard', floor=2, analysis='A4+A12')
    rec = ctx.fn_record(sf.APPEND)
    rep.ob('R01.b', sf.APPEND, '&mut self', rec and rec['params'][0].startswith('&mut '), None, 'signature: %s' % (rec['params'][0] if rec else '?'))
    for d, c in callers_of(ctx, sf.APPEND):
        cb = ctx.body(d)
        recv = cb.expr_operand(c.args[0])
        ok = any(x[0] == 'call' and x[1].split('::')[-1] == 'write' for x in walk(recv))
        rep.ob('R01.b', ctx.user_fn_of(d), 'write-guard', ok, c.where(), 'receiver obtained through .write()' if ok else 'receiver `%s` is not a write guard' % render(recv)[:80])

    # ------------------------------------------------------------ R01.i a fresh partition / segment starts at its own first offset
    rep.rule('R01.i', 'constructors: a partition starts at offset 0 without the increment flag, a segment starts at the offset it was created for, with its configured size limit', floor=12, analysis='A9')
    from props import storage_forms as sf_
    sf_.check_constructors(ctx, rep, 'R01.i', {
        'Partition': ('current_offset', 'should_increment_offset', 'unsaved_messages_count', 'segments'),
        'Segment': ('start_offset', 'current_offset', 'end_offset', 'is_closed', 'max_size_bytes', 'size_bytes', 'last_index_position', 'unsaved_messages')})

    # ------------------------------------------------------------ R01.j a purge always rewinds the partition
    rep.rule('R01.j', 'Partition::purge has no successful return that does not pass the reset of the offset state (current_offset = 0, should_increment_offset = false): "no stored messages" is not "never accepted a message" — a partition emptied by retention still stands at offset N, and a purge that is skipped for it lets the first message after the purge get N+1 instead of 0', floor=2, analysis='A2')
    import forms as forms_j
    pb_ = ctx.fn_body(sf.PURGE)
    oks_ = strict_ok_exit_blocks(pb_) | {b_ for b_, k_, _ in pb_.return_sites() if k_ in ('value', 'tail')}
    for fld in ('current_offset', 'should_increment_offset'):
        sites_ = [bb_ for fn_, b2_, bb_, ln_, form_ in forms_j.field_assignments(ctx, sf.PART, fld) if fn_ == sf.PURGE and form_ == '0']
        if not sites_:
            rep.ob('R01.j', sf.PURGE, fld + ' reset', False, None, 'purge no longer resets %s' % fld)
            continue
        reach_ = pb_.reachable(0, avoid_blocks=set(sites_))
        bad_ = sorted(oks_ & reach_)
        rep.ob('R01.j', sf.PURGE, fld + ' reset on every successful return', not bad_, pb_.where(sites_[0]), None if not bad_ else
               'purge can return successfully without resetting %s (a short cut in front of the reset)' % fld)


def offset_assignment(ctx, rep, ra, rc):
    """shared with C12: one offset per message — writers and forms of the offset state, per-message offset = base + running count"""
    rep.rule(ra, 'offset state has its confirmed writers and every assignment its confirmed normal form', floor=12, analysis='A1+A10')
    sf.check(ctx, rep, ra, part_fields=('current_offset', 'should_increment_offset'), seg_fields=('current_offset', 'end_offset', 'is_closed'))

    b = ctx.fn_body(sf.APPEND)
    # ------------------------------------------------------------ per-message offsets
    rep.rule(rc, 'per-message offset = base + k, base = current_offset+1 | 0, in both append loops; new segments start at end_offset + 1', floor=4, analysis='A10')
    news = [c for c in b.calls if c.name.endswith('RetainedMessage::new') and is_user_call(c)]
    if len(news) < 2:
        rep.anchor_lost(rc, 'RetainedMessage::new in both loops of append_messages')
    for c in news:
        f = canon(b.pexpr_operand(c.args[0], 0, frozenset(), (c.bb, "t")))
        ok = f == '(phi{($u32 + 1) | 0} + phi{(1 + self.current_offset) | 0})'
        rep.ob(rc, sf.APPEND, 'message offset @%s' % ('dedup' if any(x.name.endswith('try_insert') for x in b.calls if b.dominates(x.bb, c.bb)) else 'plain'), ok, c.where(),
               'offset = %s' % f if ok else 'message offset has the form `%s`, expected base + running count' % f)
    for fn, label in ((sf.APPEND, 'roll-over'), ('server::channels::commands::maintain_messages::delete_segments', 'retention')):
        bb_ = ctx.fn_body(fn)
        cs = [c for c in bb_.calls if c.name.endswith('Partition::add_persisted_segment') and is_user_call(c)]
        if not cs:
            rep.anchor_lost(rc, 'add_persisted_segment in ' + fn)
        for c in cs:
            pe = bb_.pexpr_operand(c.args[1], 0, frozenset(), (c.bb, "t"))
            f = canon(pe)
            inner = is_plus_one(pe)
            ok = inner is not None and any(y[0] == 'field' and y[2] == 'end_offset' for y in walk(inner)) and not any(y[0] == 'bin' for y in walk(inner))
            rep.ob(rc, fn, 'new segment start (%s)' % label, ok, c.where(), 'start = %s' % f if ok else 'a new segment is created at `%s`, not at the previous end offset + 1' % f)


def batch_forms(ctx, rep, rid):
    """shared by C01/C02/C03: what a flushed batch records about its offsets and time, and what the index rebuilder derives from it"""
    import forms
    rep.rule(rid, 'the batch header written to disk carries the offset range of its messages (base = first offset, last_offset_delta = last - first, max timestamp = timestamp of the last message) and the index rebuilder derives offset, position and timestamp from exactly those', floor=3, analysis='A9 call-argument forms')
    BA = 'server::streaming::batching::batch_accumulator::BatchAccumulator'
    IR = 'server::compat::index_rebuilding::index_rebuilder::IndexRebuilder'
    forms.check_call_args(ctx, rep, rid, {
        BA + '::materialize_batch_and_update_state': {'RetainedMessageBatch::new': [
            're:^self\\.base_offset, \\(self\\.current_offset - self\\.base_offset\\), phi\\{0 \\| ::index\\(self\\.messages, \\(Vec::len\\(self\\.messages\\) - 1\\)\\)\\.timestamp\\}, Bytes::len\\(.*\\), BytesMut::freeze\\(.*\\)$']},
    }, skip_self=False, cd=2)
    forms.check_call_args(ctx, rep, rid, {
        IR + '::rebuild': {'write_index_entry': [
            're:^BufWriter::new\\(.*\\), IndexRebuilder::read_batch_header\\(.*\\), phi\\{\\(\\(\\$u32 \\+ 24\\) \\+ IndexRebuilder::read_batch_header\\(.*\\)\\.length\\) \\| 0\\}, self\\.start_offset$']},
    }, skip_self=False, cd=2)
    from forms import field_assignments
    # the accumulator's own range bookkeeping
    want = {'base_offset': {BA + '::new': None, BA + '::append': ['[T]::first(items).offset'], BA + '::materialize_batch_and_update_state': ['0']},
            'current_offset': {BA + '::new': None, BA + '::append': ['[T]::last(items).offset'], BA + '::materialize_batch_and_update_state': ['0']},
            'current_timestamp': {BA + '::new': None, BA + '::append': ['[T]::last(items).timestamp'], BA + '::materialize_batch_and_update_state': ['0']}}
    for field, per in want.items():
        for fn, b_, bb_, ln, form in field_assignments(ctx, BA, field):
            exp = per.get(fn, 'x')
            if exp == 'x':
                rep.ob(rid, fn, 'writer of BatchAccumulator.' + field, False, '%s:%s' % (b_.file, ln), 'BatchAccumulator.%s is written by an unconfirmed function' % field)
            elif exp is not None:
                ok = forms._match(form, exp) is not None
                rep.ob(rid, fn, '%s = %s' % (field, form[:80]), ok, '%s:%s' % (b_.file, ln), None if ok else 'BatchAccumulator.%s is assigned `%s` (confirmed forms: %s)' % (field, form, exp))


def expr_wraps(e, bb):
    from mir import expr_wraps_call
    return expr_wraps_call(e, bb)


def _assigned_from_field(body, op, field):
    """the loop-carried local behind `op` has a definition reading `.field`"""
    e = body.pexpr_operand(op)
    for x in walk(e):
        if x[0] == 'local':
            for (db, di, whole) in body.defs.get(x[1], []):
                if whole and di != 't':
                    r = body._pexpr_rvalue(body.stmts(db)[di]['rv'], 0, frozenset())
                    if any(y[0] == 'field' and y[2] == field for y in walk(r)):
                        return True
    return False
