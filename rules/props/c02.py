"""C02 — a poll returns exactly the requested slice, whichever tier holds it (structural clauses of the read path)."""
from lib import *
from mir import render, walk, short, canon
from engine import AnchorLost
import forms
from props import read_forms as rf
from props import storage_forms as sf

TECHNIQUE = 'normal forms of every range comparison and of every range argument along the read path, sibling agreement of the two index lookups and the two log readers, tier ordering by dominance (A2, A6, A10)'
EXPLANATION = ('Decides on the MIR of the current tree: each comparison that selects a tier, clamps a range, stops a sequential read or filters a message keeps its confirmed '
               'normal form (operator and operands), in the partition, segment, index-reader, log-reader and accumulator code; each hand-over of a range between these layers passes '
               'the confirmed argument forms (first = by-offset 0, last = 1+current-min(count,current+1), next = stored+1, disk part ends at first buffered offset - 1, cached index gets '
               'relative offsets and the file index gets absolute ones plus the segment start); the cached and the file index lookup and the two range readers agree; on the mixed path '
               'disk is read before the buffer. Also: the on-disk batch header and index entry are written and read at the same byte ranges under the same field names; a flushed batch records the offsets and the timestamp of its last message; a poll served from the message cache slices it with both bounds relative to the first cached offset. Not decided: equality of the returned list with the stored slice for every history/poll/configuration.')
ASSUMPTIONS = ['forms in props/read_forms.py are the pinned representation of the read path (a representation change must update the table)']


def run(ctx, rep):
    from props import accessors as _acc
    _acc.check(ctx, rep, 'C02', 'R02.acc')
    rep.rule('R02.cmp', 'every range comparison of the read path keeps its confirmed normal form', floor=40, analysis='A10')
    for t in (rf.CMP_PARTITION, rf.CMP_SEGMENT, rf.CMP_INDEX, rf.CMP_LOG):
        check_comparisons(ctx, rep, 'R02.cmp', t)
    rep.rule('R02.args', 'every range hand-over between read-path layers passes the confirmed argument forms (first/last/next derivation, tier split, relative vs absolute offsets)', floor=20, analysis='A10')
    forms.check_call_args(ctx, rep, 'R02.args', rf.CALLS)

    rep.rule('R02.pos', 'index positions point at batch starts: writers and forms of Segment.last_index_position (end of log at load, + batch size at persist)', floor=2, analysis='A10')
    sf.check(ctx, rep, 'R02.pos', part_fields=(), seg_fields=('last_index_position',))

    # ------------------------------------------------------------ R02.h a polled message is handed back whole: with encryption the plaintext payload comes with its own length
    rep.rule('R02.h', 'with server-side encryption a polled message is returned with the plaintext payload and the length of that plaintext (the binary response frames every message by its length field)', floor=1, analysis='A10 aggregate forms')
    from props.c19 import _rebuilt_length
    _rebuilt_length(ctx, rep, 'R02.h')

    # ------------------------------------------------------------ R02.g the cache window: both slice bounds are relative to the first cached offset
    rep.rule('R02.g', 'a poll served from the message cache takes cache[(start - first) .. min(len, end - first + 1)]: both bounds are relative to the offset of the first cached message', floor=2, analysis='A10 aggregate forms')
    forms.check_aggregates(ctx, rep, 'R02.g', {rf.P + '::load_messages_from_cache': {'std::ops::Range': {
        'start': '(start_offset - ::index(self.cache, 0).offset)',
        'end': 'Ord::min(SmartCache::len(self.cache), ((end_offset - ::index(self.cache, 0).offset) + 1))'}}})

    # ------------------------------------------------------------ R02.f what a flushed batch records (time bounds used by timestamp polls, offsets used by the rebuilder)
    from props.c01 import batch_forms
    batch_forms(ctx, rep, 'R02.f')

    # ------------------------------------------------------------ R02.e on-disk codecs agree field by field
    rep.rule('R02.e', 'on-disk codecs agree field by field: batch header and index entry are written and read at the same byte ranges under the same field names; sizes equal the layout', floor=8, analysis='A11')
    import wire
    ST = 'server::streaming::'
    for name, w, r, const in (('batch header', ST + 'batching::message_batch::RetainedMessageBatch::header_as_bytes', rf.LR + '::read_next_batch', ST + 'batching::message_batch::RETAINED_BATCH_HEADER_LEN'),
                              ('index entry', ST + 'segments::indexes::index_writer::SegmentIndexWriter::save_index', ST + 'segments::indexes::index_reader::parse_index', ST + 'segments::indexes::INDEX_SIZE')):
        lw, lr = wire.addressed_layout(ctx, w), wire.addressed_layout(ctx, r)
        ok = lw == lr and len(lw) >= 3
        rep.ob('R02.e', w, name + ': writer = reader', ok, None, str(lw) if ok else 'the %s is written as %s but read as %s' % (name, lw, lr))
        # contiguous, starting at 0, total = the size constant
        cont = bool(lw) and lw[0][0] == 0 and all(lw[i][1] == lw[i + 1][0] for i in range(len(lw) - 1))
        size = ctx.facts.consts.get(const)
        rep.ob('R02.e', w, name + ': contiguous and sized', cont and size is not None and size[1] == lw[-1][1], None, 'fields cover [0, %s) and %s = %s' % (lw[-1][1] if lw else '?', const.split('::')[-1], size[1] if size else '?'))
    forms.check_aggregates(ctx, rep, 'R02.e', {
        ST + 'batching::message_batch::RetainedMessageBatch::new': {ST + 'batching::message_batch::RetainedMessageBatch': {'base_offset': 'base_offset', 'last_offset_delta': 'last_offset_delta', 'max_timestamp': 'max_timestamp', 'length': 'length', 'bytes': 'bytes'}},
        ST + 'segments::segment::Segment::store_offset_and_timestamp_index_for_batch': {ST + 'segments::indexes::index::Index': {'offset': '(batch_last_offset - self.start_offset)', 'position': 'self.last_index_position', 'timestamp': 'batch_max_timestamp'}},   # relative offset of the LAST message, position = start of the batch
    })
    forms.check_call_args(ctx, rep, 'R02.e', {rf.S + '::persist_messages': {'Segment::store_offset_and_timestamp_index_for_batch': ['BatchAccumulator::batch_max_offset(Option::take(…)), BatchAccumulator::batch_max_timestamp(Option::take(…))']}})

    # ------------------------------------------------------------ siblings
    rep.rule('R02.f', 'sibling implementations agree: the two range readers of the log use the same stop condition; both index lookups are reached from the same loader with the same range', floor=2, analysis='A6')
    a = comparison_forms(ctx, rf.LR + '::load_batches_by_range_impl')
    b = comparison_forms(ctx, rf.LR + '::load_batches_by_range_with_callback')
    fa = sorted(f for _, f in cmp_classes(a))      # a comparison and its negation are the same test (inverted branches)
    fb = sorted(f for _, f in cmp_classes(b))
    rep.ob('R02.f', rf.LR, 'range readers agree', fa == fb, None,
           'both range readers decide with %d identical comparisons' % len(fa) if fa == fb else 'load_batches_by_range_impl and _with_callback differ: only in impl %s, only in callback %s' % (sorted(set(fa) - set(fb)), sorted(set(fb) - set(fa))))
    lb = ctx.fn_body(rf.S + '::load_messages_from_disk')
    c1 = [c for c in lb.calls if c.name.endswith('load_highest_lower_bound_index')]
    c2 = [c for c in lb.calls if c.name.endswith('load_index_range_impl')]
    ok = bool(c1 and c2)
    if ok:
        # the cached lookup is selected by `self.indexes` being present (cache_indexes), the file lookup otherwise
        ok = any(render(e).endswith('.indexes') for e, vals, _ in discr_literals_at(lb, c1[0].bb)) or any('indexes' in render(e) for e, t, _ in bool_literals_at(lb, c1[0].bb))
    rep.ob('R02.f', rf.S + '::load_messages_from_disk', 'index lookups selected by cache presence', ok, c1[0].where() if c1 else None,
           'cached lookup under Some(indexes), file lookup otherwise' if ok else 'the choice between cached and file index lookup is not decided by the presence of cached indexes')

    # ------------------------------------------------------------ tier order
    rep.rule('R02.c', 'on the mixed path the disk part is loaded before the buffer part and both are appended in that order', floor=1, analysis='A2')
    sb = ctx.fn_body(rf.S + '::get_messages_by_offset')
    disk = [c for c in sb.calls if c.name.endswith('Segment::load_messages_from_disk')]
    buf = [c for c in sb.calls if c.name.endswith('Segment::load_messages_from_unsaved_buffer')]
    # the mixed path is the one whose buffer call takes max(offset, first)
    mixed = [c for c in buf if has_call_last(sb.pexpr_operand(c.args[1], 0, frozenset(), (c.bb, "t")), 'max')]
    if not disk or not mixed:
        rep.anchor_lost('R02.c', 'mixed tier path in Segment::get_messages_by_offset')
    else:
        m = mixed[0]
        d_before = [c for c in disk if m.bb in sb.reachable(c.bb) and c.bb not in sb.reachable(m.bb)]
        rep.ob('R02.c', rf.S + '::get_messages_by_offset', 'disk before buffer', bool(d_before), m.where(),
               'disk loader precedes the buffer loader on the mixed path' if d_before else 'the buffer part is loaded before (or without) the disk part')

    # ------------------------------------------------------------ R02.b accumulator offsets
    rep.rule('R02.b', 'accumulator offsets: the base offset follows the first buffered message whenever the buffer was empty, the last offset the last appended message; reset only at materialisation; no writer outside the accumulator; the batch iterator advances by the record it read', floor=9, analysis='A10')
    BA = 'server::streaming::batching::batch_accumulator::BatchAccumulator'
    ACC = {
        'base_offset': {BA + '::append': ['[T]::first(items).offset'], BA + '::materialize_batch_and_update_state': ['0']},
        'current_offset': {BA + '::append': ['[T]::last(items).offset'], BA + '::materialize_batch_and_update_state': ['0']},
        'current_timestamp': {BA + '::append': ['[T]::last(items).timestamp'], BA + '::materialize_batch_and_update_state': ['0']},
        'current_size': {BA + '::materialize_batch_and_update_state': ['0']},   # grows by add_assign in append only; what the accumulator weighs is what it holds
    }
    forms.check_table(ctx, rep, 'R02.b', BA, ACC)
    # the iterator over a stored batch advances by exactly the record it has just read (length prefix 4 + length)
    IT = 'server::streaming::batching::iterator::RetainedMessageBatchIterator'
    forms.check_table(ctx, rep, 'R02.b', IT, {'current_position': {
        '<%s as std::iter::Iterator>::next' % IT: ['((4 + u32::from_le_bytes(Result::ok(::index(self.batch.bytes, Range::Range{start: self.current_position, end: (4 + self.current_position)})))) + self.current_position)']}})
    ab = ctx.fn_body(BA + '::append')
    for blk in sorted(ab.reach):
        for st in ab.stmts(blk):
            lhs = st.get('lhs')
            if lhs and len(lhs) > 1 and place_fields(lhs) and place_fields(lhs)[-1] == (BA, 'base_offset'):
                ok = any(e[0] == 'call' and e[1].split('::')[-1] == 'is_empty' and t for e, t, _ in bool_literals_at(ab, blk))
                rep.ob('R02.b', BA + '::append', 'base re-established only for an empty buffer', ok, '%s:%s' % (ab.file, st.get('ln')), None if ok else 'the base offset is overwritten although messages are already buffered')

    # ------------------------------------------------------------ R02.i what can be read is what was written
    rep.rule('R02.i', 'every read of the log is bounded by the published log size: the background persister publishes exactly what it wrote (24-byte header + payload), as the waiting writer does — a published size that lags behind the file hides the newest batches from every poll served from disk', floor=2, analysis='A9')
    from props.c12 import persister_amounts
    persister_amounts(ctx, rep, 'R02.i')

    # ------------------------------------------------------------ R02.j a deleted segment leaves no file behind
    rep.rule('R02.j', 'Segment::delete removes the log file and the index file of the segment, each exactly once: purge re-creates segment 0 at the same paths and the index writer appends, so a surviving index file puts stale entries in front of the new ones (wrong or empty poll slices, also after a restart)', floor=2, analysis='A9 call-argument forms')
    from props import storage_forms as sfd_
    sfd_.segment_delete_files(ctx, rep, 'R02.j')

