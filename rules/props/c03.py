"""C03 — a clean restart preserves every message, offset and the append position (structural clauses)."""
from lib import *
from mir import render, walk, short, canon
from engine import AnchorLost
from props import storage_forms as sf

TECHNIQUE = 'interprocedural must-pass-through with loop coverage on the shutdown path, dominance ordering in load, normal-form provenance of recovered positions, guard literals (A2, A3, A10)'
EXPLANATION = ('Decides on the MIR of the current tree: the shutdown path main → System::shutdown → persist_messages reaches Segment::persist_messages for every stream, topic, '
               'partition (under its write lock) and segment with errors propagated; partition load sorts segments before deriving end offsets and the append position, pushes a segment '
               'only after it loaded, and restores consumer offsets; every recovered position has its confirmed normal form (current offset from the last index entry, index position and '
               'size from the log size, closed last segment end = its current offset); the index is rebuilt only when absent; cache warm-up honours the integrity check. '
               'Also: what a flushed batch records about its offsets, and what the index rebuilder derives from it, keep their confirmed forms (offsets survive an index rebuild). Not decided: equality of served content before/after restart; NoWait confirmation at shutdown.')
ASSUMPTIONS = ['forms in props/storage_forms.py are the pinned representation', 'tokio RwLock write guard gives exclusive access']

CHAIN = [
    ('iggy_server::main', 'server::streaming::systems::system::System::shutdown', None),
    ('server::streaming::systems::system::System::shutdown', 'server::streaming::systems::system::System::persist_messages', None),
    ('server::streaming::systems::system::System::persist_messages', 'server::streaming::streams::stream::Stream::persist_messages', 'streams'),
    ('server::streaming::streams::stream::Stream::persist_messages', 'server::streaming::topics::topic::Topic::persist_messages', 'topics'),
    ('server::streaming::topics::topic::Topic::persist_messages', 'server::streaming::segments::segment::Segment::persist_messages', 'segments'),
]


def run(ctx, rep):
    rep.rule('R03.a', 'shutdown flushes everything: each link of main → … → Segment::persist_messages is reached on every Ok path, inside loops that cover every element, with errors propagated', floor=5, analysis='A2 interprocedural + loop coverage')
    for caller, callee, coll in CHAIN:
        b = ctx.fn_body(caller)
        cs = [c for c in b.calls if c.name == callee and is_user_call(c)]
        if not cs:
            rep.ob('R03.a', caller, 'reaches ' + short(callee), False, None, '%s no longer calls %s: buffered messages are not flushed at shutdown' % (short(caller), short(callee)))
            continue
        c = cs[0]
        cut = set(ok_edges(b, c))
        oks = strict_ok_exit_blocks(b)
        if coll is None:
            bad = oks & b.reachable(0, avoid_edges=cut) if cut else oks & b.reachable(0, avoid_blocks={c.bb})
            rep.ob('R03.a', caller, 'reaches ' + short(callee), not bad, c.where(),
                   'every Ok return passes the success edge of %s' % short(callee) if not bad else 'an Ok return is reachable without a successful %s' % short(callee))
        else:
            ok, detail, it = loop_coverage(b, c)
            prop = bool(cut)   # result is inspected (propagated by ?)
            rep.ob('R03.a', caller, 'every %s → %s' % (coll, short(callee)), ok and prop, c.where(),
                   detail if ok and prop else (detail if not ok else 'the result of %s is discarded: a failed flush is reported as success' % short(callee)))
    # partitions loop in Topic::persist_messages holds the write lock and covers every partition
    tb = ctx.fn_body('server::streaming::topics::topic::Topic::persist_messages')
    c = [x for x in tb.calls if x.name.endswith('Segment::persist_messages')]
    if c:
        recv = tb.expr_operand(c[0].args[0])
        okw = any(x[0] == 'call' and x[1].split('::')[-1] == 'write' for x in walk(recv))
        rep.ob('R03.a', 'server::streaming::topics::topic::Topic::persist_messages', 'partition write lock', okw, c[0].where(), 'segments reached through partition.write()' if okw else 'segments are flushed without the partition write lock')
        # outer loop (partitions) coverage: the inner loop header must be reached in every outer iteration
        loops = sorted([(h, bl) for h, bl in natural_loops(tb) if c[0].bb in bl], key=lambda x: len(x[1]))
        rep.ob('R03.a', 'server::streaming::topics::topic::Topic::persist_messages', 'nested loops (partitions × segments)', len(loops) >= 2, c[0].where(), '%d enclosing loops' % len(loops))

    # ------------------------------------------------------------ R03.b load order
    rep.rule('R03.b', 'partition load: sort before end offsets / append position; push only a loaded segment; consumer offsets restored on the Ok path', floor=4, analysis='A2 dominance')
    lb = ctx.fn_body(sf.LOAD)
    sorts = [c for c in lb.calls if c.name.split('::')[-1] in ('sort_by', 'sort_by_key', 'sort', 'sort_unstable_by') and is_user_call(c)]
    if not sorts:
        rep.ob('R03.b', sf.LOAD, 'sort', False, None, 'segments are not sorted by start offset after loading')
    else:
        srt = sorts[0]
        for blk in sorted(lb.reach):
            for s in lb.stmts(blk):
                lhs = s.get('lhs')
                if lhs and len(lhs) > 1 and place_fields(lhs):
                    adt, f = place_fields(lhs)[-1]
                    if (adt == sf.SEG and f == 'end_offset') or (adt == sf.PART and f == 'current_offset'):
                        ok = lb.dominates(srt.bb, blk) and srt.bb != blk
                        rep.ob('R03.b', sf.LOAD, '%s after sort' % f, ok, '%s:%s' % (lb.file, s.get('ln')),
                               None if ok else '`%s` is derived before the segments are sorted by start offset (directory order is arbitrary)' % f)
    lfd = [c for c in lb.calls if c.name.endswith('Segment::load_from_disk')]
    pushes = [c for c in lb.calls if c.matches('std::vec::Vec::push') and is_user_call(c) and 'segment::Segment' in c.gen]
    if not lfd or not pushes:
        rep.anchor_lost('R03.b', 'load_from_disk / segments.push in partition load')
    else:
        ok = success_dominates(lb, lfd[0], pushes[0].bb)
        rep.ob('R03.b', sf.LOAD, 'push after successful load_from_disk', ok, pushes[0].where(), None if ok else 'a segment is added to the partition although loading it may have failed')
    lco = [c for c in lb.calls if c.name.endswith('Partition::load_consumer_offsets')]
    if not lco:
        rep.ob('R03.b', sf.LOAD, 'consumer offsets restored', False, None, 'partition load no longer restores consumer offsets')
    else:
        bad = strict_ok_exit_blocks(lb) & lb.reachable(0, avoid_edges=set(ok_edges(lb, lco[0])))
        rep.ob('R03.b', sf.LOAD, 'consumer offsets restored', not bad, lco[0].where(), None if not bad else 'load can return Ok without having restored the consumer offsets')

    # ------------------------------------------------------------ R03.c recovered positions
    rep.rule('R03.c', 'recovered positions have their confirmed normal forms (writers and forms of the offset / position state)', floor=14, analysis='A10')
    sf.check(ctx, rep, 'R03.c')

    # ------------------------------------------------------------ R03.d index rebuilt only when absent
    rep.rule('R03.d', 'the index is regenerated from the log only when the index file is absent (or a legacy time index exists) and index caching is on', floor=1, analysis='A3')
    rb = [c for c in lb.calls if c.name.endswith('IndexRebuilder::rebuild')]
    if not rb:
        rep.anchor_lost('R03.d', 'IndexRebuilder::rebuild in partition load')
    else:
        lits = bool_literals_at(lb, rb[0].bb)
        # the condition is `cache && (!index_exists || time_index_exists)`: on every path either !exists(index) or exists(time index) holds.
        # structural check: no path from entry to rebuild avoids both the `index_path_exists == false` and `time_index_path_exists == true` edges
        cuts = set()
        names = []
        for bb_, t, e in switch_exprs(lb):
            if t.get('ty') != 'bool':
                continue
            v = lb.root_var(t['op']) if 'op' in t else None
            tt, tf = bool_targets(t)
            ee, tr = norm_bool(e, True)
            if has_call_last(ee, 'try_exists'):
                which = 'time' if 'timeindex' in render(ee) or _mentions_time(lb, ee) else 'index'
                if which == 'index':
                    cuts.add((bb_, tf if tr else tt))   # edge where index does NOT exist
                else:
                    cuts.add((bb_, tt if tr else tf))   # edge where time index exists
                names.append(which)
        reach = lb.reachable(0, avoid_edges=cuts)
        ok = bool(cuts) and rb[0].bb not in reach
        rep.ob('R03.d', sf.LOAD, 'rebuild only when index absent', ok, rb[0].where(),
               'rebuild is reachable only through "index file absent" or "legacy time index present" (%s)' % sorted(set(names)) if ok else
               'the index can be rebuilt (overwritten from the log) although the index file exists')

    # ------------------------------------------------------------ R03.f offsets survive an index rebuild
    from props.c01 import batch_forms
    batch_forms(ctx, rep, 'R03.f')

    # ------------------------------------------------------------ R03.e cache warm-up honours the integrity check
    rep.rule('R03.e', 'cache warm-up pushes loaded messages only when the integrity check passed', floor=1, analysis='A3')
    name = 'server::streaming::topics::topic::Topic::load_messages_from_disk_to_cache'
    wb = ctx.fn_body(name)
    ps = [c for c in wb.calls if c.name.split('::')[-1] in ('push_safe', 'extend', 'push') and 'cache' in c.name.lower() and is_user_call(c)]
    ck = [c for c in wb.calls if c.name.endswith('cache_integrity_check')]
    if not ps or not ck:
        rep.anchor_lost('R03.e', 'cache push / cache_integrity_check in load_messages_from_disk_to_cache')
    else:
        for p in ps:
            ok = any(expr_has_call(e, 'cache_integrity_check') and tr for e, tr, _ in bool_literals_at(wb, p.bb))
            rep.ob('R03.e', name, 'push after integrity check', ok, p.where(), None if ok else 'messages are put into the cache without the contiguity check having passed')

    # ------------------------------------------------------------ R03.g the shared counters go down the hierarchy to the level they belong to
    rep.rule('R03.g', 'the shared size / message / segment counters handed to Topic::create, Partition::create and Segment::create reach the parameter of their own kind and level, at run time and at load (a counter passed in a sibling slot adds every loaded segment to the wrong level or twice to one level)', floor=40, analysis='A13')
    import idkinds as idk_
    idk_.check_counter_kinds(ctx, rep, 'R03.g', ['server::streaming::'])

    # ------------------------------------------------------------ R03.h what the loader does not restore keeps the constructor's value
    rep.rule('R03.h', 'a loaded segment / partition / topic / stream is a constructed one with some fields overwritten by the loader: every field starts with its own confirmed value (paths from the path function of their own kind, positions and sizes from zero, end_timestamp not older than any query, shared counters in their own slot)', floor=75, analysis='A9')
    sf.check_constructors(ctx, rep, 'R03.h')

    # ------------------------------------------------------------ R03.i directories: the one tested is the one created / removed; purge re-creates what it deleted
    rep.rule('R03.i', 'a directory is created (removed) under the existence test of the same path, and what purge deletes with delete_consumer_offsets it re-creates (the partition loader fails on a missing offsets directory and the topic loader only logs a failed partition)', floor=14, analysis='A9')
    dir_pairing(ctx, rep, 'R03.i')

    # ------------------------------------------------------------ R03.j the storage lifecycle keeps its steps
    rep.rule('R03.j', 'the storage lifecycle keeps its steps: load / save / persist / delete / shutdown of segments, partitions, topics, streams and of the system still call each of their confirmed collaborators (readers and writers opened, indexes loaded, consumer offsets and message ids loaded, missing entities re-persisted, buffers flushed at shutdown)', floor=45, analysis='A1 required callees')
    sf.lifecycle_steps(ctx, rep, 'R03.j')

    # ------------------------------------------------------------ R03.k a deleted segment leaves no file behind
    rep.rule('R03.k', 'Segment::delete removes the log file and the index file of the segment, each exactly once: purge re-creates segment 0 at the same paths and the index writer appends, so a surviving index file puts stale entries in front of the new ones (wrong or empty poll slices, also after a restart)', floor=2, analysis='A9 call-argument forms')
    from props import storage_forms as sfd_
    sfd_.segment_delete_files(ctx, rep, 'R03.k')

    # ------------------------------------------------------------ R03.l writers (which create missing files) are opened before readers
    rep.rule('R03.l', 'segment files are opened for writing (which creates a missing file) before they are opened for reading, at load and at persist: a crash between the creation of the log file and of the index file must not make the segment unloadable', floor=2, analysis='A2 ordering')
    from props import storage_forms as sfw_
    sfw_.writers_before_readers(ctx, rep, 'R03.l')

    # ------------------------------------------------------------ R03.m what a handler journals names the entity it acted on
    rep.rule('R03.m', 'every journalled command names the entity the request named (ids and names of the rebuilt payload come from the like-named fields of the request): replay of a DeletePartitions filed under another topic makes the loader delete the directory of a live partition at the next clean restart', floor=18, analysis='A9 provenance')
    from props.c05 import journal_entity_provenance, journalling_sites
    journal_entity_provenance(ctx, rep, 'R03.m', journalling_sites(ctx))


def dir_pairing(ctx, rep, rid):
    import forms as forms_
    n = 0
    for d in sorted(ctx.facts.body_defs()):
        if not in_crate(d, 'server::streaming::') or '__CALLSITE' in d:
            continue
        b = ctx.body(d)
        acts = [c for c in b.calls if c.name.split('::')[-1] in ('create_dir_all', 'remove_dir_all', 'create_dir', 'remove_dir') and is_user_call(c)]
        if not acts:
            continue
        tests = [c for c in b.calls if c.name.endswith('Path::exists') or c.name.split('::')[-1] == 'try_exists']
        fn = ctx.user_fn_of(d)
        for c in acts:
            form = canon(b.pexpr_operand(c.args[0], 0, frozenset(), (c.bb, 't')), 0, 1)
            lits = b.literals_at(c.bb)
            if not lits or not (expr_has_call(lits[-1]['expr'], 'Path::exists') or expr_has_call(lits[-1]['expr'], 'try_exists')):
                continue   # the nearest branch the call depends on is not an existence test
            dom = [t for t in tests if t.bb != c.bb and b.dominates(t.bb, lits[-1]['bb'])]
            if not dom:
                continue
            t = max(dom, key=lambda t_: len(b.dominators(t_.bb)))   # the nearest dominating test
            tf = canon(b.pexpr_operand(t.args[0], 0, frozenset(), (t.bb, 't')), 0, 2)
            tf = tf[len('Path::new('):-1] if tf.startswith('Path::new(') else tf
            ok = tf == form
            n += 1
            rep.ob(rid, fn, '%s(%s) under exists(%s)' % (c.name.split('::')[-1], form, tf), ok, c.where(), None if ok else
                   'the existence of `%s` is tested but `%s` is %s: the tested directory is never %s' % (tf, form, 'created' if 'create' in c.name else 'removed', 'created' if 'create' in c.name else 'removed'))
    PURGE = sf.PURGE
    deleted = {f.split(', ')[-1] for _, f, _ in forms_.call_arg_forms(ctx, PURGE, 'delete_consumer_offsets', skip_self=False)}
    created = {f for _, f, _ in forms_.call_arg_forms(ctx, PURGE, 'create_dir_all', skip_self=False)}
    if not deleted:
        rep.anchor_lost(rid, 'delete_consumer_offsets in Partition::purge')
    for f in sorted(deleted):
        ok = f in created
        rep.ob(rid, PURGE, 're-creates %s' % f, ok, None, None if ok else 'purge deletes the directory `%s` and does not create it again (created: %s): the partition cannot be loaded after the next restart' % (f, sorted(created)))


def _mentions_time(body, e):
    for x in walk(e):
        if x[0] == 'call' and x[1].split('::')[-1] == 'replace':
            return True
    return False
