"""C04 — after a crash at any instant, restart exposes a consistent prefix (structural clauses)."""
import json, re
from lib import *
from mir import render, walk, short, canon
from engine import AnchorLost
from props import storage_forms as sf
from props import read_forms as rf
from props import startup_panics as sp

TECHNIQUE = 'write-order dominance, bounded-reader comparison forms, recovered-position provenance, loader continuity/checksum dominance, may-panic site enumeration on the start-up path (A2, A3, A7, A9, A10)'
EXPLANATION = ('Decides on the MIR of the current tree: a batch is appended to the log before its index entry and the position/size counters move only after both succeeded; the log, index '
               'and journal readers compare every length and position that came from a file with the file size before using it and stop (not fail, not panic) at a short tail; the recovered '
               'offsets and positions have their confirmed normal forms (current offset from the last index entry, sizes from the file); the journal loader pushes an entry only after the '
               'continuity and checksum tests; every may-panic site on the start-up path is guarded by a recognised idiom or listed with the reason a crash image cannot trigger it. '
               'Also: at load the log is cut back to the end of the last indexed batch when the file is longer (the index entry is the commit marker; a torn or unindexed tail is discarded before anything is appended behind it) and the published size follows; every use of parse_index receives a chunks_exact(INDEX_SIZE) chunk, so a torn trailing index record is skipped, never sliced; nothing interprets a journal entry before its checksum was found equal and the first journal index must be 0. Not decided: the prefix property for all crash points and torn lengths; fsync placement.')
ASSUMPTIONS = ['allowlist reasons in props/startup_panics.py (confirmed by reading)', 'forms in props/storage_forms.py and props/read_forms.py are the pinned representation']

S = sf.SEG


def run(ctx, rep):
    # ------------------------------------------------------------ R04.a write order
    rep.rule('R04.a', 'write order: the index entry is saved only after the batch was appended to the log; position and size counters move only after both', floor=2, analysis='A2')
    pb = ctx.fn_body(S + '::persist_messages')
    sb_ = [c for c in pb.calls if c.name.endswith('SegmentLogWriter::save_batches')]
    si = [c for c in pb.calls if c.name.endswith('SegmentIndexWriter::save_index')]
    if not sb_ or not si:
        rep.anchor_lost('R04.a', 'save_batches / save_index in Segment::persist_messages')
    else:
        ok = success_dominates(pb, sb_[0], si[0].bb)
        rep.ob('R04.a', S + '::persist_messages', 'log before index', ok, si[0].where(), 'save_index is dominated by the success edge of save_batches' if ok else
               'the index entry can be written although the log append failed or before it happened: after a crash the index points past the log')
        for blk in sorted(pb.reach):
            for s in pb.stmts(blk):
                lhs = s.get('lhs')
                if lhs and len(lhs) > 1 and place_fields(lhs) and place_fields(lhs)[-1] in ((S, 'last_index_position'), (S, 'size_bytes')) and not s.get('x'):
                    ok = success_dominates(pb, si[0], blk) and success_dominates(pb, sb_[0], blk)
                    rep.ob('R04.a', S + '::persist_messages', '%s after both writes' % place_fields(lhs)[-1][1], ok, '%s:%s' % (pb.file, s.get('ln')),
                           None if ok else '`%s` advances although the log or index write may have failed' % place_fields(lhs)[-1][1])

    # ------------------------------------------------------------ R04.b write-all discipline
    rep.rule('R04.b', 'write-all discipline: a short-write primitive (write / write_vectored) is used only inside a retry loop that consumes its count; batch writers reach a flush before reporting success', floor=4, analysis='A14')
    write_all_rules(ctx, rep, 'R04.b')

    # ------------------------------------------------------------ R04.c bounded readers
    rep.rule('R04.c', 'readers are bounded by validated lengths: header and payload must fit into the file, a short read ends the scan with Ok(None)', floor=6, analysis='A3+A10')
    check_comparisons(ctx, rep, 'R04.c', {k: v for k, v in rf.CMP_LOG.items()})
    check_comparisons(ctx, rep, 'R04.c', {rf.IR + '::load_all_indexes_impl': rf.CMP_INDEX[rf.IR + '::load_all_indexes_impl']})
    rb = ctx.fn_body(rf.LR + '::read_next_batch')
    # the failing edges of the two fit tests return Ok(None)
    for bb, t, e in switch_exprs(rb):
        if t.get('ty') != 'bool' or e[0] != 'bin' or e[1] not in ('Gt', 'Lt'):
            continue
        f = canon(rb.pexpr_operand(t['op']), 0, 1)
        if not f.startswith('(file_size < '):
            continue
        tt, tf = bool_targets(t)
        bad = tt   # `x > file_size` true
        nones = {b for b, k, d in rb.return_sites() if k == 'ok'}
        leaks = [c for c in rb.calls if c.name.endswith('read_at') and c.bb in rb.reachable(bad)]
        rep.ob('R04.c', rf.LR + '::read_next_batch', 'too-long edge of %s stops' % f, not leaks and bool(nones & rb.reachable(bad)), rb.where(bb),
               'the does-not-fit edge returns Ok(None) without reading' if not leaks else 'the does-not-fit edge still reads from the file')

    # ------------------------------------------------------------ R04.d recovered positions
    rep.rule('R04.d', 'recovered offset comes from the index, sizes and positions from the file: provenance forms of the recovered state', floor=14, analysis='A9+A10')
    sf.check(ctx, rep, 'R04.d')

    # ------------------------------------------------------------ R04.e journal loader (shared with C11 R11.d)
    rep.rule('R04.e', 'the journal loader rejects instead of guessing: push only after index continuity and checksum equality', floor=3, analysis='A2+A3')
    from props.c11 import rule_loader_checks
    rule_loader_checks(ctx, rep, 'R04.e')

    # ------------------------------------------------------------ R04.f no panic on the start-up path
    rep.rule('R04.f', 'no unguarded may-panic site on the start-up path for crash-producible inputs', floor=40, analysis='A7')
    check_panics(ctx, rep, 'R04.f', sp.STARTUP_FNS, sp.PANICS)

    # ------------------------------------------------------------ R04.h recovery discards the unindexed tail of the log
    rep.rule('R04.h', 'the index entry is the commit marker of a batch: at load the log is cut back to the end of the last indexed batch when the file is longer, and the published size follows, before anything is appended behind a torn record', floor=5, analysis='A9+A3')
    SEGL = 'server::streaming::segments::segment::Segment::load_from_disk'
    BEP = rf.LR + '::batch_end_position'
    if not ctx.has(BEP):
        rep.ob('R04.h', SEGL, 'end of the last indexed batch is computed', False, None, 'SegmentLogReader::batch_end_position is gone: recovery no longer knows where the indexed part of the log ends')
    else:
        import forms as forms_
        WANT = 'Option::filter(phi{0 | Option::None{} | SegmentLogReader::batch_end_position(self.log_reader, [T]::last(self.indexes).position)}, closure)'
        sl = forms_.call_arg_forms(ctx, SEGL, 'set_len', skip_self=True, cd=3)
        rep.ob('R04.h', SEGL, 'log truncated to the end of the last indexed batch', bool(sl) and all(f == WANT for _, f, _ in sl), None,
               'set_len(%s)' % (sl[0][1] if sl else None) if sl and all(f == WANT for _, f, _ in sl) else 'load_from_disk does not truncate the log to the end of the last indexed batch (set_len argument: %s)' % ([f for _, f, _ in sl] or 'no set_len call'))
        st = [f for _, f, _ in forms_.call_arg_forms(ctx, SEGL, 'Atomic::store', skip_self=False, cd=3) if f.startswith('self.log_size_bytes')]
        okst = st == ['self.log_size_bytes, %s, Ordering::Release{}' % WANT]
        rep.ob('R04.h', SEGL, 'published log size follows the truncation', okst, None, None if okst else 'log_size_bytes is stored as %s' % st)
        lb_ = ctx.fn_body(SEGL)
        sc = [c for c in lb_.calls if c.name.split('::')[-1] == 'set_len' and is_user_call(c)]
        # only when shorter: the filter closure compares its argument with the file size
        cl = [x for x in ctx.facts.body_defs() if x.startswith(SEGL + '::{closure')]
        cmpf = set()
        for x in cl:
            cb_ = ctx.body(x)
            for blk in sorted(cb_.reach):
                for s_ in cb_.stmts(blk):
                    if s_.get('lhs') == [0] and (s_.get('rv') or {}).get('r') == 'bin':
                        cmpf.add(canon(cb_._pexpr_rvalue(s_['rv'], 0, frozenset())))
        okf = any(re.match(r'^\(\w+ < log_size_bytes\)$', f) for f in cmpf)
        rep.ob('R04.h', SEGL, 'only when the file is longer than its indexed part', okf, sc[0].where() if sc else None, None if okf else 'the truncation is not restricted to indexed size < file size (closure comparisons: %s)' % sorted(cmpf))
        bb_ = ctx.fn_body(BEP)
        rn = [c for c in bb_.calls if c.name == rf.LR + '::read_next_batch']
        okr = bool(rn) and [canon(bb_.pexpr_operand(a), 0, 2) for a in rn[0].args] == ['self', 'position', 'SegmentLogReader::file_size(self)']
        rep.ob('R04.h', BEP, 'reads the batch at the indexed position', okr, rn[0].where() if rn else None, None if okr else 'batch_end_position does not read the batch at the given position against the current file size')
        ends = set()
        for x in [y for y in ctx.facts.body_defs() if y.startswith(BEP + '::{closure')]:
            cb_ = ctx.body(x)
            for blk in sorted(cb_.reach):
                for s_ in cb_.stmts(blk):
                    if (s_.get('rv') or {}).get('r') == 'bin' and s_['rv']['op'].startswith('Add'):
                        ends.add(canon(cb_._pexpr_rvalue(s_['rv'], 0, frozenset())))
        oke = any(re.match(r'^\(\w+\.1 \+ position\)$', f) for f in ends)
        rep.ob('R04.h', BEP, 'end = position + bytes read', oke, None, None if oke else 'batch end computed as %s' % sorted(ends))

    # ------------------------------------------------------------ R04.i the index file is realigned before the writer appends
    rep.rule('R04.i', 'a torn trailing index entry is cut off when the index file is opened for writing: the file is truncated to a multiple of INDEX_SIZE and the shared index size starts from the truncated length, so later entries stay aligned with the 16-byte grid the readers decode', floor=3, analysis='A9+A10')
    IWN = 'server::streaming::segments::indexes::index_writer::SegmentIndexWriter::new'
    import forms as forms__
    sl = [f for _, f, _ in forms__.call_arg_forms(ctx, IWN, 'set_len', skip_self=True, cd=3)]
    okt = bool(sl) and all(f in ('($u64 - ($u64 % 16))', '($u64 - ($u64 % INDEX_SIZE))') for f in sl)
    rep.ob('R04.i', IWN, 'index truncated to a multiple of the entry size', okt, None, 'set_len(%s)' % sl[0][:80] if okt else 'the index file is not cut back to size - size %% INDEX_SIZE when it is opened for appending (set_len: %s)' % (sl or 'no call'))
    st = [f for _, f, _ in forms__.call_arg_forms(ctx, IWN, 'Atomic::store', skip_self=False, cd=3) if f.startswith('index_size_bytes')]
    oks = bool(st) and all(('% 16' in f or '% INDEX_SIZE' in f) for f in st)
    rep.ob('R04.i', IWN, 'index size starts from the truncated length', oks, None, None if oks else 'index_size_bytes is initialised with %s' % st)
    cf = comparison_forms(ctx, IWN)
    okc = any(re.search(r'\(0 < \(.* % (16|INDEX_SIZE)\)\)', f) for v in cf.values() for f in v)
    rep.ob('R04.i', IWN, 'only when a partial entry is present', okc, None, None if okc else 'no test of size %% INDEX_SIZE > 0 selects the truncation')

    # ------------------------------------------------------------ R04.j an index entry exists only for a batch that is in the log
    rep.rule('R04.j', 'recovery trusts the index: an index entry may be written only when its batch is in the log file, in every confirmation mode (save_index follows save_batches, and save_batches has written the bytes when it returns)', floor=2, analysis='A5+A2')
    LW_, PT_ = LW, PT
    sbb = ctx.fn_body(LW_ + '::save_batches')
    CONF = 'iggy::confirmation::Confirmation'
    sw_ = enum_switches(sbb, {CONF})
    if not sw_:
        rep.anchor_lost('R04.j', 'match on Confirmation in save_batches')
    else:
        bbx, tx, tyx = sw_[0]
        for v, blocks in arm_regions(sbb, bbx).items():
            vn = variant_name(ctx, tyx, v) if v != 'else' else None
            if vn is None:
                continue
            wrote = [c for c in sbb.calls if c.bb in blocks and c.name == LW_ + '::write_batch']
            queued = [c for c in sbb.calls if c.bb in blocks and c.name.startswith(PT_ + '::persist')]
            okw = bool(wrote) and not queued
            rep.ob('R04.j', LW_ + '::save_batches', 'batch written before its index entry: ' + vn, okw, (wrote or queued)[0].where() if (wrote or queued) else sbb.where(bbx),
                   'the bytes are written in this arm before the function returns' if okw else
                   'in the %s arm the batch is only queued while persist_messages goes on to save its index entry: a crash before the persister has written the batch leaves the index ahead of the log, and recovery restores current_offset from that entry (permanent offset gap; a poll reaching the partial batch decodes foreign bytes)' % vn)

    # ------------------------------------------------------------ R04.g the precondition the allowlisted slices of parse_index rely on
    rep.rule('R04.g', 'parse_index slices its argument at fixed positions up to INDEX_SIZE: every use receives a chunks_exact(INDEX_SIZE) chunk, so a torn trailing index record is skipped, never sliced', floor=3, analysis='A9 argument provenance')
    PI = 'server::streaming::segments::indexes::index_reader::parse_index'
    isz = ctx.facts.consts.get('server::streaming::segments::indexes::INDEX_SIZE', (None, None))[1]
    if not ctx.has(PI) or isz is None:
        rep.anchor_lost('R04.g', 'parse_index / INDEX_SIZE')
    else:
        pb = ctx.fn_body(PI)
        top = 0
        for blk in sorted(pb.reach):
            for s_ in pb.stmts(blk):
                rv = s_.get('rv')
                if rv and rv['r'] == 'agg' and rv.get('adt', '').endswith('Range') and rv.get('variant') == 'Range':
                    e = pb._expr_rvalue(rv, 0, frozenset())
                    d_ = dict(e[3])
                    if d_.get('end', ('?',))[0] == 'const':
                        top = max(top, int(d_['end'][1]))
        rep.ob('R04.g', PI, 'slices stay within INDEX_SIZE', 0 < top <= isz, None, 'highest slice end %d, INDEX_SIZE %d' % (top, isz))
        uses = 0
        for dd in sorted(ctx.facts.body_defs()):
            if not in_crate(dd):
                continue
            raw = ctx.facts.raw_body(dd)
            if PI not in json.dumps(raw['blocks']) or dd == PI:
                continue
            b = ctx.body(dd)
            for c in b.calls:
                src = None
                if c.name == PI and is_user_call(c):
                    src = canon(b.pexpr_operand(c.args[0], 0, frozenset(), (c.bb, "t")), 0, 4)
                else:
                    for a in c.args[1:]:
                        e = b.pexpr_operand(a)
                        if e[0] == 'fnitem' and e[1] == PI:
                            src = canon(b.pexpr_operand(c.args[0], 0, frozenset(), (c.bb, "t")), 0, 4)
                if src is None:
                    continue
                uses += 1
                m = re.search(r'chunks_exact\(.*, (\w+)\)', src)
                ok = bool(m) and m.group(1) in (str(isz), 'INDEX_SIZE') and 'chunks(' not in src
                rep.ob('R04.g', ctx.user_fn_of(dd), 'parse_index receives an exact chunk', ok, c.where(), 'from ' + src[:100] if ok else
                       'parse_index is fed from `%s`, not from chunks_exact(INDEX_SIZE): a partially written trailing index record reaches the fixed-position slices and panics at start-up' % src[:160])
        rep.ob('R04.g', PI, 'uses enumerated', uses >= 3, None, '%d uses' % uses)

    # ------------------------------------------------------------ R04.l the segment lifecycle keeps its steps
    rep.rule('R04.l', 'the segment lifecycle keeps its steps: loading opens writers and readers, loads the index and bounds the log by the last indexed batch; persisting writes the batch, then its index entry; closing syncs', floor=18, analysis='A1 required callees')
    from props import storage_forms as sf_
    sf_.lifecycle_steps(ctx, rep, 'R04.l', only=('Segment::load_from_disk', 'Segment::persist', 'Segment::initialize_writing', 'Segment::initialize_reading', 'Segment::shutdown_writing', 'Segment::persist_messages', 'PartitionStorage>::load'))

    # ------------------------------------------------------------ R04.m the unsaved counter is reset only by a save
    rep.rule('R04.m', 'the count of unsaved messages of a partition goes back to 0 only where the buffer was handed to Segment::persist_messages first (or the partition was purged): a reset without the save postpones the save of a full buffer to the next background pass', floor=2, analysis='A2 ordering')
    import forms as forms_
    for fn, b_, bb_, ln_, form_ in forms_.field_assignments(ctx, sf_.PART, 'unsaved_messages_count'):
        if form_ != '0' or fn == sf_.PURGE:
            continue
        pm = [c for c in b_.calls if c.name.endswith('Segment::persist_messages')]
        ok = any(bb_ in b_.reachable(c.bb) for c in pm)
        rep.ob('R04.m', fn, 'reset after persist_messages', ok, '%s:%s' % (b_.file, ln_), None if ok else 'unsaved_messages_count is reset to 0 in a function that does not save the buffer first')

    # ------------------------------------------------------------ R04.n writers (which create missing files) are opened before readers
    rep.rule('R04.n', 'segment files are opened for writing (which creates a missing file) before they are opened for reading, at load and at persist: a crash between the creation of the log file and of the index file must not make the segment unloadable', floor=2, analysis='A2 ordering')
    from props import storage_forms as sfw_
    sfw_.writers_before_readers(ctx, rep, 'R04.n')


LW = 'server::streaming::segments::logs::log_writer::SegmentLogWriter'
PT = 'server::streaming::segments::logs::persister_task::PersisterTask'
WAV = 'server::streaming::segments::logs::write_all_vectored'


def write_all_rules(ctx, rep, rid):
    import json
    n = 0
    for df in sorted(ctx.facts.body_defs()):
        if not in_crate(df):
            continue
        raw = ctx.facts.raw_body(df)
        if not any(bl.get('term', {}).get('fn', '') in ('tokio::io::AsyncWriteExt::write', 'tokio::io::AsyncWriteExt::write_vectored', 'std::io::Write::write', 'std::io::Write::write_vectored', 'tokio::io::AsyncWriteExt::write_buf')
                   for bl in raw['blocks']):
            continue
        b = ctx.body(df)
        for c in b.calls:
            if c.fn not in ('tokio::io::AsyncWriteExt::write', 'tokio::io::AsyncWriteExt::write_vectored', 'std::io::Write::write', 'std::io::Write::write_vectored', 'tokio::io::AsyncWriteExt::write_buf') or not is_user_call(c):
                continue
            n += 1
            loops = [bl for h, bl in natural_loops(b) if c.bb in bl]
            # the written count must be consumed: it flows into advance_slices / advance / a comparison inside the loop
            consumed = False
            for x in b.calls:
                if x.name.split('::')[-1] in ('advance_slices', 'advance') and any(y[0] == 'call' and y[3] == c.bb for a in x.args for y in walk(b.expr_operand(a))):
                    consumed = True
            ok = bool(loops) and consumed
            rep.ob(rid, ctx.user_fn_of(df), short(c.fn) + ' count consumed in a loop', ok, c.where(),
                   'the returned count advances the buffers inside a retry loop' if ok else
                   '`%s` may write only part of the data (tokio::fs::File copies at most 2 MiB per call) and its count is %s: the batch is silently truncated' % (short(c.fn), 'ignored' if not consumed else 'not used in a loop'))
    rep.ob(rid, '<server>', 'short-write primitives enumerated', True, None, '%d call sites' % n)
    # flush chain: write_all_vectored Ok => flushed ; write_batch Ok => write_all_vectored Ok ; persister task likewise
    if ctx.has(WAV):
        wb = ctx.fn_body(WAV)
        fl = [c for c in wb.calls if c.name.split('::')[-1] in ('flush', 'sync_all', 'sync_data')]
        exits = ok_exit_blocks(wb)
        ok = bool(fl) and not ((exits - {c.bb for c in fl}) & wb.reachable(0, avoid_blocks={c.bb for c in fl}))
        rep.ob(rid, WAV, 'flush before Ok', ok, fl[0].where() if fl else None, 'every successful return has awaited flush()' if ok else 'write_all_vectored can return Ok without awaiting flush(): tokio completes the write in the background')
    else:
        rep.anchor_lost(rid, WAV)
    for fn, callee in ((LW + '::write_batch', WAV), (PT + '::write_with_retries', WAV)):
        b = ctx.fn_body(fn)
        cs = [c for c in b.calls if c.name == callee or c.name.split('::')[-1].startswith('write_all')]
        if not cs:
            rep.ob(rid, fn, 'writes through a write-all primitive', False, None, '%s no longer writes through the write-all helper' % short(fn))
            continue
        bad = strict_ok_exit_blocks(b) & b.reachable(0, avoid_edges=set(ok_edges(b, cs[0])))
        rep.ob(rid, fn, 'Ok only after the whole batch was written', not bad, cs[0].where(), None if not bad else 'Ok is reachable without a successful write of the whole batch')
