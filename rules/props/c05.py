"""C05 — restart reproduces the acknowledged catalogue (replay equals runtime): structural clauses."""
import re
from lib import *
from mir import render, walk, short, canon
from engine import AnchorLost

TECHNIQUE = 'must-pass-through on success edges in all journalling handlers, sibling agreement binary↔HTTP, replay-arm provenance, code-table agreement (A2, A3, A6, A9, A11)'
EXPLANATION = ('Decides on the MIR of the current tree: in every binary and HTTP handler that journals, the journal append happens only after the System mutator '
               'succeeded and every success response is preceded by a successful append; the two transports of one command call the same mutator and journal the same '
               'entry variant; the journal alphabet round-trips (code ↔ variant ↔ payload type); replay takes times from the entry, never from the clock; start-up '
               'removes a directory only when replay does not know the entity. Also: replay looks every entity up by the identifier of its own kind (id kinds of arguments and map keys in server::state), and every handler journals its command under the same acquisition of the system lock under which the mutator ran (journal order = execution order). Not decided: equality of replayed and runtime catalogues for every history.')
ASSUMPTIONS = ['handlers are the only production callers of StateKind::apply besides System::load_users (checked: who-may-call)',
               'rustc MIR faithfully represents control flow']

EC = 'server::state::command::EntryCommand'
SEND_OK = ('server::binary::sender::SenderKind::send_ok_response', 'server::binary::sender::SenderKind::send_empty_ok_response')


def journalling_sites(ctx):
    out = []
    for d, c in callers_of(ctx, STATE_APPLY):
        if d.startswith('server::state::'):
            continue
        out.append((d, ctx.body(d), c))
    return out


def entry_variant(body, call):
    e = body.expr_operand(call.args[2]) if len(call.args) > 2 else None
    if e is not None and e[0] == 'agg' and e[1] == EC:
        return e[2], e
    return None, e


def system_ops(ctx, body):
    """calls on System methods that take a &Session (the gated operations), made through a system guard"""
    out = []
    for c in body.calls:
        if not c.name.startswith(SYS + '::') or not is_user_call(c):
            continue
        rec = ctx.fn_record(c.name)
        if not rec or len(rec['params']) < 2 or 'session::Session' not in rec['params'][1]:
            continue
        out.append(c)
    return out


def journal_entity_provenance(ctx, rep, rid, sites, only=None):
    """shared with C10"""
    for d, b, c in sites:
        fn = ctx.user_fn_of(d)
        variant, ve = entry_variant(b, c)
        if variant is None or (only and variant not in only):
            continue
        pay = None
        for x in walk(ve):
            if x[0] == 'agg' and (x[1].startswith('iggy::') or 'state::models' in x[1]):
                pay = x
                break
        if pay is None:
            continue
        for n_, v_ in pay[3]:
            if not (n_.endswith('_id') or n_ in ('name', 'username')):
                continue
            f_ = canon(v_, 0, 2)
            # the caller's own identity (session / JWT identity) is never the entity a command names
            ok = bool(re.search(r'\b' + re.escape(n_) + r'\b', f_)) and 'get_user_id' not in f_ and not re.search(r'\b(identity|session)\b', f_)
            rep.ob(rid, fn, '%s.%s from the request' % (variant, n_), ok, c.where(), f_[:80] if ok else
                   'the journalled %s names `%s` as its %s, not the %s of the request: replay applies the command to another entity than the one it was performed on' % (variant, f_[:80], n_, n_))



def refused_requests_leave_no_journal_entry(ctx, rep, rid):
    """shared with C09: replay applies journalled commands without any permission check, so a command must reach the
    journal only after the System operation that authorises and performs it has succeeded"""
    rep.rule(rid, 'a refused request leaves no trace in the journal: in every handler the journal append is dominated by the success edge of the System operation that authenticates, authorises and performs the command (replay has no permission check: a journalled DeleteUser of a refused request takes effect at the next restart)', floor=38, analysis='A2')
    for d, b, c in journalling_sites(ctx):
        fn = ctx.user_fn_of(d)
        if fn == SYS + '::load_users':
            continue
        variant, ve = entry_variant(b, c)
        if variant is None:
            continue
        muts = [m for m in system_ops(ctx, b) if success_dominates(b, m, c.bb)]
        rep.ob(rid, fn, variant + ' journalled after it was authorised and performed', bool(muts), c.where(), None if muts else
               'the journal append is not dominated by the success edge of any System operation: the command is journalled although it may be refused')


def user_ids_after_validation(ctx, rep, rid):
    """shared with C10 (a personal access token is journalled under the numeric id of its owner)"""
    rep.rule(rid, 'user ids are allocated after validation: no refusal of create_user (name taken, limit reached) is reachable once USER_ID has been advanced — the journalled CreateUser carries no id and replay numbers users gap-free, so an id burnt by a refused request makes every later user differ after a restart', floor=2, analysis='A2 ordering')
    cub = ctx.fn_body('server::streaming::systems::system::System::create_user')
    adv = [c for c in cub.calls if c.name.endswith('Atomic::fetch_add') and is_user_call(c) and canon(cub.pexpr_operand(c.args[0], 0, frozenset(), (c.bb, 't')), 0, 1).startswith('{alloc')]   # the static USER_ID (a static is an allocation in MIR, its name is not kept)
    if not adv:
        rep.anchor_lost(rid, 'USER_ID.fetch_add in System::create_user')
    for c in adv:
        after = set()
        for x in cub.succ(c.bb):
            after |= cub.reachable(x)
        for blk in sorted(cub.reach):
            for s_ in cub.stmts(blk):
                rv_ = s_.get('rv')
                if rv_ and rv_['r'] == 'agg' and rv_.get('adt') == 'iggy::error::IggyError' and rv_['variant'] in ('UserAlreadyExists', 'UsersLimitReached'):
                    ok = blk not in after
                    rep.ob(rid, 'server::streaming::systems::system::System::create_user', rv_['variant'] + ' before the id is taken', ok, '%s:%s' % (cub.file, s_.get('ln')), None if ok else
                           '%s can be returned after USER_ID was advanced: the refused request has consumed an id that replay will hand to the next user' % rv_['variant'])


def journalled_decoders_do_not_validate(ctx, rep, rid):
    """shared with C13: the journal is decoded with the wire decoders, but what a handler journals is a transformed command (hashed or
    blanked secrets, resolved ids and limits) that need not satisfy request validation; validation is a separate step before dispatch (R13.e)"""
    rep.rule(rid, 'replay decodes every journalled command: the from_bytes of an EntryCommand payload type applies no request validation (the journalled command is a transformed one - blanked current password, bcrypt hash as password - so a validating decoder makes an acknowledged entry unloadable)', floor=19, analysis='A1 who-may-call')
    adt = ctx.facts.adts.get(EC)
    if not adt:
        rep.anchor_lost(rid, EC)
        return
    for v in adt['variants']:
        if not v['fields']:
            continue
        t = v['fields'][0][1]
        f = '<%s as iggy::bytes_serializable::BytesSerializable>::from_bytes' % t
        if not ctx.has(f):
            rep.ob(rid, f, 'decoder of ' + v['name'], False, None, 'journalled payload type %s has no from_bytes' % t)
            continue
        b = ctx.fn_body(f)
        vals = [c for c in b.calls if c.name.endswith('::validate') and is_user_call(c) and (t in c.name)]
        rep.ob(rid, f, 'decoder of %s does not validate' % v['name'], not vals, vals[0].where() if vals else None, None if not vals else
               '%s::from_bytes calls validate(): the entry the handler journals for this command is not a valid request (secrets are blanked or replaced by hashes), so the journal cannot be replayed after this command was acknowledged' % t.split('::')[-1])


def run(ctx, rep):
    sites = journalling_sites(ctx)
    rep.rule('R05.a', 'acknowledged ⇔ journalled: append dominated by the mutator\'s success edge; every success response passes the append\'s success edge', floor=38, analysis='A2')
    rep.rule('R05.a2', 'who may journal: only binary/HTTP handlers and System::load_users call state.apply', floor=39, analysis='A1')
    by_variant = {}
    for d, b, c in sites:
        fn = ctx.user_fn_of(d)
        allowed = fn.startswith('server::binary::handlers::') or fn.startswith('server::http::') or fn == SYS + '::load_users'
        rep.ob('R05.a2', fn, 'apply', allowed, c.where(), 'journal append from %s' % ('a handler' if allowed else 'an unexpected place'))
        if fn == SYS + '::load_users':
            continue
        variant, ve = entry_variant(b, c)
        if variant is None:
            rep.ob('R05.a', fn, 'apply', False, c.where(), 'journalled value is not an EntryCommand aggregate: %s' % render(ve)[:100])
            continue
        ops = system_ops(ctx, b)
        muts = [m for m in ops if success_dominates(b, m, c.bb)]
        transport = 'binary' if fn.startswith('server::binary') else 'http'
        by_variant.setdefault(variant, {})[transport] = (fn, b, c, muts, ve)
        if not muts:
            rep.ob('R05.a', fn, variant + ':mutate-before-journal', False, c.where(),
                   'the journal append is not dominated by the success edge of any System operation (a command that failed or never ran would be journalled)')
            continue
        rep.ob('R05.a', fn, variant + ':mutate-before-journal', True, c.where(), 'append dominated by success of %s' % ', '.join(short(m.name) for m in muts))
        # success exits: send_ok responses (binary) and Ok returns
        succ_blocks = {x.bb for x in b.calls if x.matches(SEND_OK)} | strict_ok_exit_blocks(b)
        m = muts[-1]
        start = [o for _, o in ok_edges(b, m)]
        bad = None
        for st in start:
            t = path_avoiding_success(b, st, c, succ_blocks)
            if t is not None:
                bad = (st, t)
        if bad:
            lines = explain_path(b, bad[0], bad[1], avoid_edges=set(ok_edges(b, c)))
            rep.ob('R05.a', fn, variant + ':journal-before-ack', False, b.where(bad[1]),
                   'a success response is reachable after %s succeeded without a successful journal append (path through lines %s)' % (short(m.name), lines))
        else:
            rep.ob('R05.a', fn, variant + ':journal-before-ack', True, c.where(), 'every success response after %s passes the success edge of state.apply' % short(m.name))

    # ------------------------------------------------------------ R05.k journal order = execution order
    rep.rule('R05.k', 'journal order equals execution order: a handler journals its command under the same acquisition of the system lock under which the mutator ran (the write guard kept or downgraded, never released and re-acquired)', floor=38, analysis='A4')
    for d, b, c in sites:
        fn = ctx.user_fn_of(d)
        if fn == SYS + '::load_users':
            continue
        ops = system_ops(ctx, b)
        muts = [m for m in ops if success_dominates(b, m, c.bb)]
        if not muts:
            continue
        m = muts[-1]
        ra, rm = b.expr_operand(c.args[0]), b.expr_operand(m.args[0])
        acq_a = {(x[1], x[3]) for x in walk(ra) if x[0] == 'call' and x[1] in (SHARED_WRITE, SHARED_READ)}
        acq_m = {(x[1], x[3]) for x in walk(rm) if x[0] == 'call' and x[1] in (SHARED_WRITE, SHARED_READ)}
        same = bool(acq_a & acq_m)
        rep.ob('R05.k', fn, 'journal under the mutator\'s lock acquisition', same, c.where(),
               '%s → %s, one acquisition' % (system_guard_kind(rm), system_guard_kind(ra)) if same else
               'the system lock taken for %s (%s) is not the one held while journalling (%s): another command can run and be journalled in between, so replay order differs from execution order' % (short(m.name), system_guard_kind(rm), system_guard_kind(ra)))

    # ------------------------------------------------------------ R05.o a rebuilt journal entry addresses what the request addressed
    rep.rule('R05.o', 'where a handler journals a rebuilt command (secrets blanked or hashed, ids from the path) the entity it names is the one the request named: every *_id / name / username field of the rebuilt payload comes from the like-named field of the request (or path parameter), never from the session', floor=10, analysis='A9 provenance')
    journal_entity_provenance(ctx, rep, 'R05.o', sites)

    # ------------------------------------------------------------ R05.b siblings
    rep.rule('R05.b', 'the binary and the HTTP handler of one journalled command call the same System mutator and journal the same entry variant', floor=19, analysis='A6')
    variants = enum_variant_names(ctx, EC)
    if len(variants) < 19:
        rep.anchor_lost('R05.b', 'EntryCommand variants (found %d)' % len(variants))
    for v in variants:
        tr = by_variant.get(v, {})
        if set(tr) != {'binary', 'http'}:
            rep.ob('R05.b', EC + '::' + v, 'both-transports', False, None, 'journalled by transports %s only' % sorted(tr))
            continue
        mb = {m.name for m in tr['binary'][3]}
        mh = {m.name for m in tr['http'][3]}
        rep.ob('R05.b', EC + '::' + v, 'same-mutator', mb == mh and bool(mb), tr['binary'][2].where(),
               'both transports call %s' % sorted(short(x) for x in mb) if mb == mh else 'binary calls %s, HTTP calls %s' % (sorted(short(x) for x in mb), sorted(short(x) for x in mh)))

    # ------------------------------------------------------------ R05.c decisions are recorded, not recomputed
    rep.rule('R05.c', 'server decisions are journalled, not recomputed at replay: the id / resolved expiry / resolved size written into the journalled command derive from the entity the mutator returned, in both transports', floor=14, analysis='A9')
    import forms as _forms
    import re as _re
    RESOLVED = [
        ('iggy::streams::create_stream::CreateStream', 'stream_id', 'create_stream', 'stream_id'),
        ('iggy::topics::create_topic::CreateTopic', 'topic_id', 'create_topic', 'topic_id'),
        ('iggy::topics::create_topic::CreateTopic', 'message_expiry', 'create_topic', 'message_expiry'),
        ('iggy::topics::create_topic::CreateTopic', 'max_topic_size', 'create_topic', 'max_topic_size'),
        ('iggy::consumer_groups::create_consumer_group::CreateConsumerGroup', 'group_id', 'create_consumer_group', 'group_id'),
        ('iggy::topics::update_topic::UpdateTopic', 'message_expiry', 'update_topic', 'message_expiry'),
        ('iggy::topics::update_topic::UpdateTopic', 'max_topic_size', 'update_topic', 'max_topic_size'),
    ]
    for adt, field, mut, src in RESOLVED:
        sites = {fn: (b_, bb_, ln, form) for fn, b_, bb_, ln, form in _forms.field_assignments(ctx, adt, field) if fn.startswith('server::binary::handlers::') or fn.startswith('server::http::')}
        variant = adt.split('::')[-1]
        for transport in ('binary', 'http'):
            ent = by_variant.get(variant, {}).get(transport)
            if not ent:
                continue
            fn = ent[0]
            st = sites.get(fn)
            if st is None:
                rep.ob('R05.c', fn, '%s.%s recorded' % (variant, field), False, None,
                       'the handler journals the client\'s `%s` as received: replay has to re-derive it and can disagree with what the server decided (ids after delete/re-create, server defaults)' % field)
                continue
            b_, bb_, ln, form = st
            ok = bool(_re.match(r'^(RwLock::read\()?System::%s\(.*\)\)?\.%s$' % (mut, src), form)) and b_.dominates(bb_, ent[2].bb)
            rep.ob('R05.c', fn, '%s.%s recorded' % (variant, field), ok, '%s:%s' % (b_.file, ln),
                   'command.%s := %s(..).%s before journalling' % (field, mut, src) if ok else 'journalled `%s` is `%s`, not the value of the entity returned by System::%s' % (field, form[:80], mut))

    # ------------------------------------------------------------ R05.f replay arithmetic on partitions
    rep.rule('R05.f', 'replay of DeletePartitions removes at most the existing partitions (the runtime clamps the count and acknowledges the command)', floor=1, analysis='A10')
    _forms.check_call_args(ctx, rep, 'R05.f', {'server::state::system::SystemState::init': {'Ord::min': ['Option::unwrap_or_else(Iterator::max(…), closure)']}})

    # ------------------------------------------------------------ R05.d journal alphabet
    rep.rule('R05.d', 'journal alphabet round-trips: from_bytes(code) builds the variant whose payload type reports that code; replay match has no wildcard', floor=19, analysis='A11')
    fb = ctx.fn_body('<server::state::command::EntryCommand as iggy::bytes_serializable::BytesSerializable>::from_bytes')
    code_of = _command_codes(ctx)
    adt = ctx.facts.adts.get(EC)
    vtype = {v['name']: (v['fields'][0][1] if v['fields'] else None) for v in adt['variants']} if adt else {}
    seen = set()
    for bb, t, e in switch_exprs(fb):
        if t.get('ty') != 'u32':
            continue
        for val, tgt in t['arms']:
            region = {x for x in fb.reach if fb.dominates(tgt, x)}
            aggs = []
            for x in region:
                for s in fb.stmts(x):
                    rv = s.get('rv')
                    if rv and rv['r'] == 'agg' and rv.get('adt') == EC:
                        aggs.append(rv['variant'])
            decs = [fb.calls_by_bb[x].name for x in region if x in fb.calls_by_bb and fb.calls_by_bb[x].name.endswith('>::from_bytes')]
            if len(aggs) != 1:
                rep.ob('R05.d', EC, 'code %d' % val, False, fb.where(tgt), 'arm for code %d builds %s' % (val, aggs))
                continue
            v = aggs[0]
            seen.add(v)
            ty = vtype.get(v)
            tcode = code_of.get(ty)
            dec_ok = any(ty and d.startswith('<' + ty + ' as ') for d in decs)
            ok = tcode == val and dec_ok
            rep.ob('R05.d', EC, 'code %d ↔ %s' % (val, v), ok, fb.where(tgt),
                   '%s::code() == %s, decoded with %s' % (short(ty or '?'), tcode, [short(d) for d in decs]) if ok else
                   'code %d is decoded into variant %s whose payload type %s reports code %s (decoder: %s)' % (val, v, ty, tcode, decs))
    missing = set(variants) - seen
    if missing:
        rep.ob('R05.d', EC, 'all variants decodable', False, None, 'no from_bytes arm builds %s' % sorted(missing))
    # replay is total: the match on EntryCommand in SystemState::init lists every variant explicitly
    ib = ctx.fn_body('server::state::system::SystemState::init')
    sw = enum_switches(ib, {EC})
    if not sw:
        rep.anchor_lost('R05.d', 'match on EntryCommand in SystemState::init')
    else:
        bb, t, ty = sw[0]
        vals = {v for v, _ in t['arms']}
        ok = len(vals) == len(variants) and ib.is_unreachable_block(t['else'])
        rep.ob('R05.d', 'server::state::system::SystemState::init', 'replay-total', ok, ib.where(bb),
               'replay handles all %d variants explicitly' % len(vals) if ok else 'replay match covers %d of %d variants explicitly (wildcard arm swallows the rest)' % (len(vals), len(variants)))

    # ------------------------------------------------------------ R05.h replay takes time from the entry
    rep.rule('R05.h', 'replay derives every stored time from the journal entry, never from the clock', floor=5, analysis='A9')
    NOW = 'iggy::utils::timestamp::IggyTimestamp::now'
    for blk in sorted(ib.reach):
        for s in ib.stmts(blk):
            rv = s.get('rv')
            if not rv or rv['r'] != 'agg' or rv.get('kind') != 'adt' or not rv['adt'].startswith('server::state::system::'):
                continue
            e = ib._expr_rvalue(rv, 0, frozenset())
            for fname, fe in e[3]:
                if fname in ('created_at', 'expiry_at') or expr_has_call(fe, NOW):
                    clock = expr_has_call(fe, NOW) or _via_clock(ib, fe, NOW)
                    from_entry = any(x[0] == 'field' and x[2] == 'timestamp' and x[3] == 'server::state::entry::StateEntry' for x in walk(fe)) or _via_entry_ts(ib, fe)
                    rep.ob('R05.h', 'server::state::system::SystemState::init', '%s.%s' % (rv['adt'].split('::')[-1], fname), from_entry and not clock,
                           '%s:%s' % (ib.file, s.get('ln')), 'derived from entry.timestamp' if from_entry and not clock else
                           'replayed %s is %s: a restart changes it' % (fname, 'taken from the clock' if clock else 'not derived from the entry timestamp (%s)' % render(fe)[:80]))
    for c in ib.calls:
        if c.name.endswith('PersonalAccessToken::calculate_expiry_at'):
            a0 = ib.expr_operand(c.args[0])
            ok = a0[0] == 'field' and a0[2] == 'timestamp' and a0[3] == 'server::state::entry::StateEntry'
            rep.ob('R05.h', 'server::state::system::SystemState::init', 'token expiry base', ok, c.where(),
                   'expiry computed from entry.timestamp' if ok else 'token expiry is computed from `%s`, not from the timestamp of the journal entry: every restart re-arms the token' % render(a0)[:80])

    # ------------------------------------------------------------ R05.j replay addresses the entity the command names
    rep.rule('R05.j', 'replay looks every entity up by the identifier of its own kind: an id passed to find_stream_id / find_topic_id / find_consumer_group_id / find_user_id (and to any id-kinded parameter in server::state) has that kind', floor=25, analysis='A13')
    import idkinds
    idkinds.check_calls(ctx, rep, 'R05.j', ['server::state::'])
    idkinds.check_map_keys(ctx, rep, 'R05.j', ['server::state::'])

    # ------------------------------------------------------------ R05.n replay applies a removal of permissions
    from props.c09 import replay_permissions
    replay_permissions(ctx, rep, 'R05.n')

    # ------------------------------------------------------------ R05.m the journal decoders accept what the handlers journal
    journalled_decoders_do_not_validate(ctx, rep, 'R05.m')

    # ------------------------------------------------------------ R05.l what the runtime acknowledged, the loader accepts and rebuilds alike
    rep.rule('R05.l', 'run time and start-up agree on derived settings: the topic size limit is resolved and validated by the same function on create, update and load (an update the loader would refuse is refused at run time), and a consumer group gets the partition count of its topic both when created and when restored', floor=6, analysis='A6 sibling forms')
    from props.c15 import resolved_limit_forms
    from props.c08 import group_partition_count_forms
    resolved_limit_forms(ctx, rep, 'R05.l')
    group_partition_count_forms(ctx, rep, 'R05.l')

    # ------------------------------------------------------------ R05.p replay consumes the whole journalled command
    replay_consumes_payload(ctx, rep, 'R05.p')

    # ------------------------------------------------------------ R05.q replay numbers partitions as the run time does
    replay_partition_numbering(ctx, rep, 'R05.q')

    # ------------------------------------------------------------ R05.r a refused create_user consumes no user id
    user_ids_after_validation(ctx, rep, 'R05.r')

    # ------------------------------------------------------------ R05.e start-up deletes only what replay does not know
    rep.rule('R05.e', 'start-up removes a data directory only on the "not found in replayed state" edge', floor=2, analysis='A3')
    n = 0
    for d in sorted(ctx.facts.body_defs()):
        if not (d.startswith('server::streaming::systems::system::System::load_streams') or d.startswith('<server::streaming::streams::storage::FileStreamStorage as') and '::load' in d
                or d.startswith('<server::streaming::topics::storage::FileTopicStorage as') and '::load' in d or d.startswith(SYS + '::load_')):
            continue
        b = ctx.body(d)
        for c in b.calls:
            if c.name.split('::')[-1] in ('remove_dir_all', 'remove_dir') and is_user_call(c):
                n += 1
                lits = bool_literals_at(b, c.bb)
                dl = discr_literals_at(b, c.bb)
                ok = False
                why = []
                for e, truth, _ in lits:
                    if e[0] == 'call' and e[1].split('::')[-1] in ('contains_key', 'contains', 'any', 'is_some', 'exists') and truth is False:
                        ok = True
                    if e[0] == 'call' and e[1].split('::')[-1] in ('is_none',) and truth is True:
                        ok = True
                    why.append(('' if truth else '!') + render(e)[:60])
                for e, vals, lit in dl:
                    # `let Some(x) = state.get(..) else { remove }` / match None arm
                    if (e[0] == 'call' and e[1].split('::')[-1] in ('get', 'find', 'remove', 'get_mut')) or has_call_last(e, 'get') or has_call_last(e, 'find'):
                        if vals == [0] or (lit['else'] and 0 not in lit['arms']):
                            ok = True
                    why.append('discr(%s)=%s' % (render(e)[:60], vals))
                rep.ob('R05.e', ctx.user_fn_of(d), 'remove_dir', ok, c.where(),
                       'directory removal is control-dependent on the entity being absent from the replayed state' if ok else
                       'a data directory is removed without a dominating "unknown to the replayed state" test (guards: %s)' % why[-4:])
    if n == 0:
        rep.note('R05.e: no remove_dir_all on the start-up path')


    # ------------------------------------------------------------ R05.i (shared with C11 R11.h)
    from props.c11 import rule_index_seeding
    rule_index_seeding(ctx, rep, 'R05.i')


def _via_clock(body, e, NOW):
    for x in walk(e):
        if x[0] == 'local':
            w = body.whole_def_expr(x[1])
            if w is not None and expr_has_call(w, NOW):
                return True
    return False


def _via_entry_ts(body, e):
    for x in walk(e):
        if x[0] == 'local':
            w = body.whole_def_expr(x[1])
            if w is not None and any(y[0] == 'field' and y[2] == 'timestamp' for y in walk(w)):
                return True
    return False


def _command_codes(ctx):
    """{type path: code} from every `<T as iggy::command::Command>::code` body"""
    out = {}
    tails = {}
    for d in ctx.facts.body_defs():
        m = re.match(r'^<(.+) as iggy::command::Command>::code$', d)
        if not m:
            continue
        b = ctx.body(d)
        for rb, kind, det in b.return_sites():
            if kind == 'value' and det[0] == 'const':
                try:
                    out[m.group(1)] = int(det[1])
                except ValueError:
                    pass
            elif kind == 'value' and det[0] == 'constitem':
                v = ctx.facts.consts.get(det[1])
                if v:
                    out[m.group(1)] = v[1]
            elif kind == 'tail':
                m2 = re.match(r'^<(.+) as iggy::command::Command>::code$', det)
                if m2:
                    tails[m.group(1)] = m2.group(1)
    for k, v in tails.items():
        if v in out:
            out[k] = out[v]
    return out


REPLAY_UNUSED = {('ChangePassword', 'current_password')}   # blanked by the handler before journalling: nothing to replay
# state field <- payload field of another name (confirmed by reading SystemState::init)
REPLAY_RENAMES = {('id', 'stream_id'), ('id', 'topic_id'), ('id', 'group_id'), ('password_hash', 'password'), ('password_hash', 'new_password'),
                  ('token_hash', 'hash'), ('expiry_at', 'expiry')}


def replay_consumes_payload(ctx, rep, rid):
    """Every field of a journalled command is read by the replay arm of its variant (what the runtime applied from the
    command and the replay ignores is lost by a restart), and a state field copied from the payload takes the payload
    field of its own name."""
    import re as _re
    import forms as forms_
    rep.rule(rid, 'replay consumes the whole journalled command: the arm of every EntryCommand variant in SystemState::init reads every field of its payload, and a replayed state field copied from the payload takes the payload field of its own name (a setting the run time applied and the replay skips reverts at the next restart)', floor=70, analysis='A6/A9')
    INIT = 'server::state::system::SystemState::init'
    b = ctx.fn_body(INIT)
    sw = enum_switches(b, {EC})
    if not sw:
        rep.anchor_lost(rid, 'match on EntryCommand in SystemState::init')
        return
    variants = {v['name']: v for v in ctx.facts.adts[EC]['variants']}
    seen = set()
    for bb, t, ty in sw:
        for v, blocks in arm_regions(b, bb).items():
            vn = variant_name(ctx, EC, v) if v != 'else' else None
            if vn is None or vn not in variants or not blocks:
                continue
            pay = variants[vn]['fields'][0][1]
            rec = ctx.facts.adts.get(pay)
            if not rec:
                continue
            used = set()
            for x in blocks:
                for adt, f, ln in block_field_accesses(b, x, reads_only=True):
                    if adt == pay:
                        used.add(f)
            seen.add(vn)
            for f, _ty, _pub in rec['variants'][0]['fields']:
                if (vn, f) in REPLAY_UNUSED:
                    continue
                ok = f in used
                rep.ob(rid, INIT, '%s.%s replayed' % (vn, f), ok, b.where(bb), None if ok else
                       'the replay of %s never reads `%s` of the journalled command: what the run time did with it is not reproduced after a restart' % (vn, f))
    for vn in sorted(set(variants) - seen):
        rep.ob(rid, INIT, '%s arm' % vn, False, None, 'no replay arm found for %s' % vn)
    # same-name copies
    pat = _re.compile(r' as (\w+)\)\.0\.(?:command\.)?(\w+)\)*$')
    for adt in ('TopicState', 'StreamState', 'UserState', 'ConsumerGroupState', 'PersonalAccessTokenState', 'PartitionState'):
        A = 'server::state::system::' + adt
        rec = ctx.facts.adts.get(A)
        if not rec:
            continue
        sites = []
        for f, _ty, _pub in rec['variants'][0]['fields']:
            for fnn, bd, bb_, ln, form in forms_.field_assignments(ctx, A, f):
                sites.append((f, form, '%s:%s' % (bd.file, ln)))
        for ag, where in forms_.aggregate_forms(ctx, INIT, A):
            for f, form in ag.items():
                sites.append((f, form, where))
        for f, form, where in sites:
            m = pat.search(form)
            if not m:
                continue
            g = m.group(2)
            ok = f == g or (f, g) in REPLAY_RENAMES
            rep.ob(rid, INIT, '%s.%s <- %s.%s' % (adt, f, m.group(1), g), ok, where, None if ok else
                   'the replayed `%s.%s` is copied from `%s.%s` — a payload field of another meaning' % (adt, f, m.group(1), g))


def replay_partition_numbering(ctx, rep, rid):
    """shared with C17: which partition ids exist after a restart.  The run time numbers new partitions last+1..=last+n
    and removes the highest n ids (Topic::add_partitions / delete_persisted_partitions); the replay must produce the
    same id set, otherwise the loader deletes the data of a partition the state does not know and re-creates an empty
    one the run time had removed."""
    import forms as forms_
    INIT = 'server::state::system::SystemState::init'
    rep.rule(rid, 'replay numbers partitions as the run time does: created partitions get last+1..=last+n (RangeInclusive from 1), removed partitions are last-0..last-(n-1) (Range from 0, clamped count): the id set after replay is the id set on disk', floor=5, analysis='A10 normal forms')
    b = ctx.fn_body(INIT)
    want = {
        'insert': ['::next(::into_iter(RangeInclusive::new(…)))',
                   're:^\\(::next\\(::into_iter\\(RangeInclusive::new\\(…\\)\\)\\) \\+ phi\\{0 \\| Option::unwrap_or_else\\(Iterator::max\\(.*\\), closure\\)\\}\\)$'],
        'remove': ['re:^\\(Option::unwrap_or_else\\(Iterator::max\\(.*\\), closure\\) - ::next\\(::into_iter\\(Range::Range\\{start: 0, end: Ord::min\\(…\\)\\}\\)\\)\\)$'],
    }
    seen = set()
    for c in b.calls:
        op = c.name.split('::')[-1]
        if op not in want or 'AHashMap' not in c.name or not is_user_call(c) or len(c.args) < 2:
            continue
        tgt = canon(b.pexpr_operand(c.args[0], 0, frozenset(), (c.bb, 't')), 0, 1)
        if not tgt.endswith('.partitions') and not (op == 'insert' and 'PartitionState' in canon(b.pexpr_operand(c.args[2], 0, frozenset(), (c.bb, 't')), 0, 1)):
            continue
        key = canon(b.pexpr_operand(c.args[1], 0, frozenset(), (c.bb, 't')), 0, 2)
        m = forms_._match(key, want[op])
        if m:
            seen.add(m)
        rep.ob(rid, INIT, 'partitions.%s(%s)' % (op, key[:90]), m is not None, c.where(), None if m else
               'the partition id replay %ss is `%s` — not one of the confirmed forms (%s): replay and run time disagree on which partition ids exist' % (op, key, want[op]))
    for op, fs in want.items():
        for f in fs:
            if f not in seen:
                rep.ob(rid, INIT, 'partitions.%s form present' % op, False, None, 'the confirmed replay form `%s` is no longer found' % f[:100])
    got = [(l, f) for l, f, _ in forms_.call_arg_forms(ctx, INIT, 'RangeInclusive::new', skip_self=False, cd=1)]
    for l, f in got:
        ok = f.startswith('1, ') and f.endswith('.partitions_count')
        rep.ob(rid, INIT, 'RangeInclusive::new(%s)' % f[-60:], ok, 'server/src/state/system.rs:%s' % l, None if ok else 'created partitions are numbered over `%s`, not 1..=partitions_count' % f)
    if len(got) < 2:
        rep.ob(rid, INIT, 'partition creation ranges', False, None, 'the two 1..=partitions_count loops (CreateTopic, CreatePartitions) are no longer found')
