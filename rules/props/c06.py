"""C06 — the catalogue is a sequential map of uniquely named and numbered entities (structural clauses)."""
import json
from lib import *
from mir import render, walk, short, canon
from engine import AnchorLost
import idkinds

TECHNIQUE = 'group agreement of each catalogue map with its name index, uniqueness-guard dominance, validate-before-commit reachability, interprocedural cascade with loop coverage, id-kind dimension analysis, stale-index removal pattern (A2, A3, A6, A7, A13)'
EXPLANATION = ('Decides on the MIR of the current tree: every function that inserts into / removes from a catalogue map (streams, topics, consumer groups) does the paired operation on its '
               'name index on every successful path; a rename removes the old name before inserting the new one and stores the same name in the entity; inserts are dominated by the '
               '"not contained" tests of both the name and the id; no error is returned after a catalogue map was already written; deletes cascade to every nested entity and to client '
               'memberships; ids passed between catalogue functions have the kind their parameter is declared for; index-based removals from a Vec inside a loop run in reverse order. '
               'Also: a consumer group records the partition count it is given on every path; no may-panic site in the catalogue operations is unguarded or unlisted; map accesses use keys of the kind the map holds. Not decided: equivalence with the sequential map for every command sequence; effects of I/O failures mid-command.')
ASSUMPTIONS = ['catalogue mutators take &mut self (checked from item facts), so mutation is exclusive by type']

ST = 'server::streaming::'
GROUPS = [
    ('streams', (SYS, 'streams'), (SYS, 'streams_ids')),
    ('topics', (ST + 'streams::stream::Stream', 'topics'), (ST + 'streams::stream::Stream', 'topics_ids')),
    ('consumer groups', (ST + 'topics::topic::Topic', 'consumer_groups'), (ST + 'topics::topic::Topic', 'consumer_groups_ids')),
]
LOADERS = ('load', 'load_streams', 'load_users')


def field_ops(ctx):
    """{(adt, field): {fn: [(op, call, body)]}}"""
    want = {g[1] for g in GROUPS} | {g[2] for g in GROUPS}
    out = {}
    for df in sorted(ctx.facts.body_defs()):
        if not in_crate(df):
            continue
        raw = ctx.facts.raw_body(df)
        txt = json.dumps(raw['blocks'], separators=(',', ':'))
        if not any('"%s","%s"' % (a, f) in txt for a, f in want):
            continue
        b = ctx.body(df)
        for c in b.calls:
            if not is_user_call(c) or not c.args:
                continue
            last = c.name.split('::')[-1]
            if last not in ('insert', 'remove', 'clear', 'retain'):
                continue
            e = b.expr_operand(c.args[0])
            if e[0] == 'field' and (e[3], e[2]) in want:
                out.setdefault((e[3], e[2]), {}).setdefault(ctx.user_fn_of(df), []).append((last, c, b))
    return out


def run(ctx, rep):
    from props import accessors as _acc
    _acc.check(ctx, rep, 'C06', 'R06.acc')
    ops = field_ops(ctx)
    rep.rule('R06.a', 'catalogue map and name index move together; a rename removes the old name before inserting the new one', floor=12, analysis='A6')
    rep.rule('R06.b', 'uniqueness is checked before insertion (name index and id map)', floor=6, analysis='A2+A3')
    rep.rule('R06.c', 'every function that writes a catalogue map takes &mut self (exclusive by type)', floor=9, analysis='A12')
    for label, m, ix in GROUPS:
        fns = sorted(set(ops.get(m, {})) | set(ops.get(ix, {})))
        for fn in fns:
            mo = ops.get(m, {}).get(fn, [])
            io = ops.get(ix, {}).get(fn, [])
            b = (mo or io)[0][2]
            rec = ctx.fn_record(fn)
            is_loader = fn.split('::')[-1] in LOADERS
            if rec:
                excl = rec['params'] and (rec['params'][0].startswith('&mut ') or is_loader)
                rep.ob('R06.c', fn, label, bool(excl), None, 'receiver %s' % (rec['params'][0] if rec['params'] else '-'))
            m_ins = [c for o, c, _ in mo if o == 'insert']
            m_rem = [c for o, c, _ in mo if o in ('remove', 'retain', 'clear')]
            i_ins = [c for o, c, _ in io if o == 'insert']
            i_rem = [c for o, c, _ in io if o in ('remove', 'retain', 'clear')]
            oks = ok_exit_blocks(b)
            if m_ins or (i_ins and not i_rem):
                ok = bool(m_ins) and bool(i_ins)
                if ok:
                    # every Ok exit has passed both inserts
                    r1 = b.reachable(0, avoid_blocks={c.bb for c in m_ins})
                    r2 = b.reachable(0, avoid_blocks={c.bb for c in i_ins})
                    # exits reachable avoiding one but not the other
                    ok = not ((oks & r1) - (oks & r2)) and not ((oks & r2) - (oks & r1))
                rep.ob('R06.a', fn, label + ': insert paired', ok, (m_ins or i_ins)[0].where(),
                       'map and name index are both inserted on the same paths' if ok else 'an entity is inserted into %s without the paired insert into %s (lookup by name and by id disagree)' % (m[1] if m_ins else ix[1], ix[1] if m_ins else m[1]))
                if not is_loader:
                    for c, what in [(x, 'name') for x in i_ins] + [(x, 'id') for x in m_ins]:
                        tgt = ix if what == 'name' else m
                        key = canon(b.pexpr_operand(c.args[1], 0, frozenset(), (c.bb, "t")), 0, 1)
                        guarded = False
                        for e, t, _ in bool_literals_at(b, c.bb):
                            if e[0] == 'call' and e[1].split('::')[-1] == 'contains_key' and not t:
                                ce = b.expr_operand  # noqa
                                cont = e[2][0]
                                if cont[0] == 'field' and (cont[3], cont[2]) == tgt:
                                    guarded = True
                        rep.ob('R06.b', fn, '%s: %s unique before insert' % (label, what), guarded, c.where(),
                               'insert dominated by !%s.contains_key(..)' % tgt[1] if guarded else 'insert into %s is not dominated by the "not contained" test: a duplicate %s can overwrite an entity' % (tgt[1], what))
            if m_rem or (i_rem and not i_ins):
                ok = bool(m_rem) and bool(i_rem)
                if ok:
                    r1 = b.reachable(0, avoid_blocks={c.bb for c in m_rem})
                    r2 = b.reachable(0, avoid_blocks={c.bb for c in i_rem})
                    ok = not ((oks & r1) - (oks & r2)) and not ((oks & r2) - (oks & r1))
                rep.ob('R06.a', fn, label + ': remove paired', ok, (m_rem or i_rem)[0].where(),
                       'map and name index are both cleared on the same paths' if ok else 'an entity is removed from one of %s / %s only (a stale name or a dangling id remains)' % (m[1], ix[1]))
            if i_ins and i_rem and not m_ins and not m_rem:
                # rename
                rem, ins = i_rem[0], i_ins[0]
                ok = b.dominates(rem.bb, ins.bb) and rem.bb != ins.bb
                rep.ob('R06.a', fn, label + ': rename removes old before inserting new', ok, ins.where(),
                       'old name removed, then new name inserted' if ok else 'the new name is inserted before the old one is removed: an update that keeps the name deletes the index entry')
                # the entity's name field is assigned the same new name
                newname = canon(b.pexpr_operand(ins.args[1], 0, frozenset(), (ins.bb, "t")), 0, 1)
                assigned = []
                for blk in sorted(b.reach):
                    for s in b.stmts(blk):
                        lhs = s.get('lhs')
                        if lhs and len(lhs) > 1 and place_fields(lhs) and place_fields(lhs)[-1][1] == 'name':
                            assigned.append(canon(b._pexpr_rvalue(s['rv'], 0, frozenset()), 0, 1))
                ok2 = newname in assigned
                rep.ob('R06.a', fn, label + ': rename stores the indexed name', ok2, ins.where(),
                       'entity.name := %s' % newname if ok2 else 'the name put into the index (%s) is not the one stored in the entity (%s)' % (newname, assigned))
                # uniqueness for rename: a dominating lookup of the new name in the index
                guarded = any((has_call_last(e, 'get') or has_call_last(e, 'contains_key')) for e, _, _ in discr_literals_at(b, ins.bb)) or \
                    any(any(x[0] == 'field' and (x[3], x[2]) == ix for x in walk(e)) for bb_, t_, e in switch_exprs(b) if b.dominates(bb_, ins.bb))
                rep.ob('R06.b', fn, label + ': new name checked before rename', guarded, ins.where(),
                       'the name index is consulted for the new name before the rename' if guarded else 'a rename does not check whether the new name is taken')

    # ------------------------------------------------------------ R06.g validate before commit
    rep.rule('R06.g', 'a failed command changes nothing: no error return is reachable after a catalogue map / name index was written', floor=6, analysis='A2')
    import re as _re
    VALID = _re.compile(r'(AlreadyExists|NotFound|^Invalid|TooMany|NameIs|IdIs)')
    LOOKUP = _re.compile(r'^server::streaming::(systems::system::System|streams::stream::Stream|topics::topic::Topic)::(get|find|try_get|try_find|remove)_\w+$')

    def validation_blocks(b):
        out = {}
        for blk in sorted(b.reach):
            for s in b.stmts(blk):
                rv = s.get('rv')
                if rv and rv['r'] == 'agg' and rv.get('adt') == 'iggy::error::IggyError' and VALID.search(rv['variant']) and not s.get('x', '').startswith('m:'):
                    # only when the error is returned from here (`return Err(IggyError::X)`), not when it is built eagerly as an ok_or(..) argument
                    if any((s2.get('rv') or {}).get('r') == 'agg' and (s2.get('rv') or {}).get('adt') in ('std::result::Result', 'core::result::Result') and s2['rv']['variant'] == 'Err' for s2 in b.stmts(blk)):
                        out[blk] = 'IggyError::' + rv['variant']
        for c_ in b.calls:
            if not is_user_call(c_):
                continue
            if LOOKUP.match(c_.name):
                # a by-id lookup keyed by the id of an entity that an earlier lookup in this function returned repeats a successful lookup under &mut self: it cannot fail
                key = b.expr_operand(c_.args[1]) if len(c_.args) > 1 else None
                repeats = key is not None and any(x[0] == 'field' and x[2].endswith('_id') and any(y[0] == 'call' and LOOKUP.match(y[1]) for y in walk(x[1])) for x in walk(key))
                if repeats and '_by_id' in c_.name:
                    continue
                for eb in failure_edge_blocks(b, c_):
                    out[eb] = 'failed lookup ' + short(c_.name)
            if c_.name.split('::')[-1] in ('ok_or', 'ok_or_else') and 'Option' in c_.name:
                for eb in failure_edge_blocks(b, c_):
                    out.setdefault(eb, 'None case of ' + render(b.expr_operand(c_.args[0]))[:60])
        return out

    for label, m, ix in GROUPS:
        for fld in (m, ix):
            other = ix if fld == m else m
            for fn, lst in sorted(ops.get(fld, {}).items()):
                if fn.split('::')[-1] in LOADERS:
                    continue
                b = lst[0][2]
                vb = validation_blocks(b)
                paired = [c_ for o_, c_, _ in ops.get(other, {}).get(fn, [])]
                for o, c, _ in lst:
                    starts = [t_ for _, t_ in ok_edges(b, c)] or b.succ(c.bb)
                    after = set()
                    for st in starts:
                        after |= b.reachable(st)
                    # a failure of the paired operation on the other member is a consistency error, not a validation error (R06.a keeps the pair consistent)
                    exempt = set()
                    for pc in paired:
                        for eb in failure_edge_blocks(b, pc):
                            exempt |= b.reachable(eb)
                    bad = sorted(x for x in vb if x in after and x not in exempt)
                    inst = '%s %s' % (o, fld[1])
                    rep.ob('R06.g', fn, inst, not bad, c.where(),
                           'no validation error after the write' if not bad else 'after `%s.%s(..)` succeeded the function can still fail validation (%s at %s): the command is refused but the catalogue is already changed' % (fld[1], o, vb[bad[0]], b.where(bad[0])))

    # ------------------------------------------------------------ R06.d cascade
    rep.rule('R06.d', 'deleting an entity reaches the deletion of everything nested in it and of the client memberships', floor=7, analysis='A2 interprocedural + loop coverage')
    CASCADE = [
        (SYS + '::delete_stream', ST + 'streams::stream::Stream::delete', None),
        (SYS + '::delete_stream', ST + 'clients::client_manager::ClientManager::delete_consumer_groups_for_stream', None),
        (SYS + '::delete_topic', ST + 'streams::stream::Stream::delete_topic', None),
        (ST + 'streams::stream::Stream::delete_topic', ST + 'topics::topic::Topic::delete', None),
        (SYS + '::delete_topic', ST + 'clients::client_manager::ClientManager::delete_consumer_groups_for_topic', None),
        (ST + 'streams::stream::Stream::delete', ST + 'topics::topic::Topic::delete', 'topics'),
        (ST + 'topics::topic::Topic::delete', ST + 'partitions::partition::Partition::delete', 'partitions'),
        (ST + 'partitions::partition::Partition::delete', ST + 'segments::segment::Segment::delete', 'segments'),
    ]
    for caller, callee, coll in CASCADE:
        b = ctx.fn_body(caller)
        cs = [c for c in b.calls if c.name == callee and is_user_call(c)]
        if not cs:
            rep.ob('R06.d', caller, 'reaches ' + short(callee), False, None, '%s no longer calls %s' % (short(caller), short(callee)))
            continue
        c = cs[0]
        if coll is None:
            oks = ok_exit_blocks(b)
            bad = oks & b.reachable(0, avoid_blocks={c.bb})
            rep.ob('R06.d', caller, 'reaches ' + short(callee), not bad, c.where(), 'on every successful path' if not bad else 'a successful return is reachable without %s' % short(callee))
        else:
            ok, detail, it = loop_coverage(b, c)
            rep.ob('R06.d', caller, 'every %s → %s' % (coll, short(callee)), ok, c.where(), detail)

    # ------------------------------------------------------------ R06.e id kinds
    rep.rule('R06.e', 'ids passed between catalogue functions have the kind of the parameter they are passed to', floor=300, analysis='A13')
    idkinds.check_calls(ctx, rep, 'R06.e', ['server::streaming::', 'server::channels::', 'server::binary::', 'server::http::'])
    idkinds.check_map_keys(ctx, rep, 'R06.e', ['server::streaming::', 'server::channels::', 'server::binary::', 'server::http::'])

    # ------------------------------------------------------------ R06.f stale-index removal
    rep.rule('R06.f', 'index-based Vec::remove inside a loop over collected indexes runs in reverse order (no stale indexes)', floor=2, analysis='A7')
    n = 0
    for df in sorted(ctx.facts.body_defs()):
        if not in_crate(df, 'server::streaming::'):
            continue
        raw = ctx.facts.raw_body(df)
        if not any(bl.get('term', {}).get('fn', '') in ('std::vec::Vec::remove', 'std::vec::Vec::swap_remove') for bl in raw['blocks']):
            continue
        b = ctx.body(df)
        for c in b.calls:
            if c.fn not in ('std::vec::Vec::remove', 'std::vec::Vec::swap_remove') or not is_user_call(c):
                continue
            loops = [(h, bl) for h, bl in natural_loops(b) if c.bb in bl]
            if not loops:
                continue
            h, bl = min(loops, key=lambda x: len(x[1]))
            nexts = [x for x in b.calls if x.bb in bl and (x.fn or '').endswith('Iterator::next') and b.dominates(x.bb, c.bb)]
            if not nexts:
                continue
            idx = b.expr_operand(c.args[1])
            nx = max(nexts, key=lambda x: len(b.dominators(x.bb)))
            if not any(y[0] == 'call' and y[3] == nx.bb for y in walk(idx)):
                continue
            n += 1
            it = b.pexpr_operand(nx.args[0], 0, frozenset(), (nx.bb, "t"))
            rev = has_call_last(it, 'rev')
            rep.ob('R06.f', ctx.user_fn_of(df), 'Vec::remove(index from loop)', rev, c.where(),
                   'indexes are visited in reverse' if rev else 'elements are removed by ascending pre-computed index: after the first removal the remaining indexes are stale (wrong element removed or out-of-bounds panic)')

    # ------------------------------------------------------------ R06.h a group follows its topic's partition count
    rep.rule('R06.h', "a consumer group's partitions_count is written only by its constructor and by reassign_partitions, from the count it is given, on every path (a group without members follows the topic too)", floor=3, analysis='A9+A2')
    CG = 'server::streaming::topics::consumer_group::ConsumerGroup'
    from forms import field_assignments
    sites = field_assignments(ctx, CG, 'partitions_count')
    rb = ctx.fn_body(CG + '::reassign_partitions')
    seen_re = False
    for fn, b_, bb_, ln, form in sites:
        if fn == CG + '::reassign_partitions':
            seen_re = True
            okf = form == 'partitions_count'
            rep.ob('R06.h', fn, 'partitions_count = the new count', okf, '%s:%s' % (b_.file, ln), None if okf else 'partitions_count is set to `%s`, not to the count passed in' % form)
            rets = {r for r in b_.reach if b_.term(r).get('t') == 'return'}
            skip = rets & b_.reachable(0, avoid_blocks={bb_})
            rep.ob('R06.h', fn, 'on every path', not skip, '%s:%s' % (b_.file, ln), None if not skip else
                   'reassign_partitions can return without recording the new partition count (the group then reports and assigns a stale number of partitions)')
        else:
            rep.ob('R06.h', fn, 'writer of partitions_count', False, '%s:%s' % (b_.file, ln), 'ConsumerGroup.partitions_count is written outside reassign_partitions')
    if not seen_re:
        rep.ob('R06.h', CG + '::reassign_partitions', 'partitions_count = the new count', False, None, 'reassign_partitions no longer records the new partition count')
    from forms import check_aggregates
    check_aggregates(ctx, rep, 'R06.h', {CG + '::new': {CG: {'partitions_count': 'partitions_count', 'topic_id': 'topic_id', 'group_id': 'group_id'}}})

    # ------------------------------------------------------------ R06.i no unguarded may-panic site on the catalogue command path
    rep.rule('R06.i', 'no acknowledged command makes the server panic: every may-panic site (unwrap/expect/index/remove/explicit panic/division) in the catalogue operations is guarded by a recognised idiom or listed with the reason why no command sequence triggers it', floor=25, analysis='A7')
    IDNZ = 'stream, topic and group ids are never 0 (0 in a request means "assign one"), so Identifier::numeric cannot fail'
    NUM = 'inside the arm that established kind == Numeric'
    CAT_ALLOW = {
        SYS + '::delete_client': {'unwrap Identifier::numeric(::next(…).0)': IDNZ, 'unwrap Identifier::numeric(::next(…).1)': IDNZ, 'unwrap Identifier::numeric(::next(…).2)': IDNZ},
        SYS + '::login_with_personal_access_token': {
            'unwrap phi{AHashMap::get(::next(…).personal_access_tokens, PersonalAccessToken::hash_token(…)) | Option::None{}}': 'after the is_none() early return on the same variable (the guard tests the merged variable, the unwrap its phi form)'},
        SYS + '::poll_messages': {'unwrap [T]::last($PolledMessages.messages)': 'after the is_empty() early return on the same vector'},
        'server::streaming::clients::client_manager::ClientManager::delete_consumer_groups_for_stream': {
            'vec_remove ::write(::next(…)).consumer_groups [::next(::into_iter(…))]': 'indexes collected from the same vector under the same write guard, visited in reverse (R06.f)'},
        'server::streaming::clients::client_manager::ClientManager::delete_consumer_groups_for_topic': {
            'vec_remove ::write(::next(…)).consumer_groups [::next(::into_iter(…))]': 'indexes collected from the same vector under the same write guard, visited in reverse (R06.f)'},
        'server::streaming::clients::client_manager::ClientManager::leave_consumer_group': {
            'vec_remove ::write(AHashMap::get(…)).consumer_groups [::next(::into_iter(…)).0]': 'index produced by enumerate() over the same vector under the same write guard; the loop breaks after the removal'},
        'server::streaming::topics::consumer_group::ConsumerGroup::assign_partitions': {
            'assert_rem0 (0 == Vec::len(Iterator::collect(…)))': 'after the members.is_empty() early return',
            'unwrap [T]::get(Iterator::collect(…), (::next(…) % Vec::len(…)))': 'index is a value modulo the length of the same vector'},
        'server::streaming::topics::topic::Topic::add_persisted_partitions': {'unwrap AHashMap::get(self.partitions, ::next(…))': 'ids returned by add_partitions, which inserted them under the same &mut self'},
        'server::streaming::topics::topic::Topic::delete_persisted_partitions': {'unwrap AHashMap::remove(self.partitions, ::next(…))': 'ids n-count+1..=n with count clamped to n = partitions.len(); partitions are numbered 1..n without gaps (R17.f)'},
        'server::streaming::topics::topic::Topic::get_consumer_group': {'unwrap Identifier::get_u32_value(identifier)': NUM},
        'server::streaming::polling_consumer::PollingConsumer::resolve_consumer_id': {'unwrap Identifier::get_u32_value(identifier)': NUM},
        'server::streaming::personal_access_tokens::personal_access_token::PersonalAccessToken::new': {'unwrap ::fill(SystemRandom::new(…), 0)': 'fails only when the operating system random source fails; not input dependent'},
    }
    NOT_REQUEST = re.compile(r'::(new|create|init|load_streams|load_version|load_users|create_root_user|clean_cache|empty|shutdown|persist_messages|get_snapshot)$')
    CAT = re.compile(r'^server::streaming::(systems::system::System::|streams::stream::Stream::|topics::consumer_group::ConsumerGroup(Member)?::|clients::client_manager::ClientManager::|polling_consumer::PollingConsumer::|'
                     r'personal_access_tokens::personal_access_token::PersonalAccessToken::|users::user::User::|topics::topic::Topic::(add_|delete_|create_consumer|get_consumer_group|get_consumer_groups|join_|leave_|purge|reassign|get_partition|has_partitions|get_partitions))')
    fns = [f for f in sorted(ctx.facts.fns) if CAT.match(f) and not NOT_REQUEST.search(f) and '::tests' not in f and '::{' not in f and ctx.has(f)]
    rep.ob('R06.i', '<catalogue>', 'functions enumerated', len(fns) >= 100, None, '%d catalogue functions scanned' % len(fns))
    check_panics(ctx, rep, 'R06.i', fns, CAT_ALLOW, ignore_kinds=('assert_overflow:Add', 'assert_overflow:Mul', 'assert_overflow:Shl', 'assert_overflow:Sub'))

    # ------------------------------------------------------------ R06.j a fresh entity carries the id and name it was created with, and numbers its children from 1
    rep.rule('R06.j', 'constructors: an entity stores the ids and the name it was given in the fields of their own kind, starts with empty child maps and numbers its children from 1', floor=19, analysis='A9')
    from props import storage_forms as sf_
    sf_.check_constructors(ctx, rep, 'R06.j', {
        'Stream': ('stream_id', 'name', 'current_topic_id', 'topics', 'topics_ids'),
        'Topic': ('stream_id', 'topic_id', 'name', 'partitions', 'consumer_groups', 'consumer_groups_ids', 'current_consumer_group_id', 'current_partition_id'),
        'Partition': ('stream_id', 'topic_id', 'partition_id'),
        'Segment': ('stream_id', 'topic_id', 'partition_id')})

    # ------------------------------------------------------------ R06.k a rejected request leaves no trace
    rejections_precede_construction(ctx, rep, 'R06.k')

    # ------------------------------------------------------------ R06.l a deleted group takes what belongs to it along
    rep.rule('R06.l', 'deleting a consumer group removes the group from both catalogue maps and removes the offsets stored for *that group* (the group-offset map of every partition, keyed by the group id): ids are reused, so whatever survives is inherited by the next group created under the same id', floor=3, analysis='A9 call-argument forms')
    import forms as forms_
    forms_.check_call_args(ctx, rep, 'R06.l', {'server::streaming::topics::topic::Topic::delete_consumer_group': {
        'AHashMap::remove': ['re:^self\\.consumer_groups, .*\\.group_id$', 're:^self\\.consumer_groups_ids, .*\\.name$'],
        'DashMap::remove': ['re:\\.consumer_group_offsets, .*\\.group_id$'],
    }}, skip_self=False, cd=1)


CONSTRUCTED = re.compile(r'server::streaming::(topics::topic::Topic|streams::stream::Stream|partitions::partition::Partition|topics::consumer_group::ConsumerGroup|users::user::User|personal_access_tokens::personal_access_token::PersonalAccessToken)::(create|new|empty|with_permissions)$')


def rejections_precede_construction(ctx, rep, rid):
    """shared with C16: building a topic / partition has side effects on the shared counters (a new partition counts its
    first segment at once), so a request that is going to be refused as a duplicate must be refused before the entity
    is built"""
    rep.rule(rid, 'a create request refused as a duplicate (…AlreadyExists) is refused before the entity is constructed: constructing a topic or partition already moves the shared counters, and the constructed entity of a refused request is dropped without moving them back', floor=11, analysis='A2 ordering')
    for d in sorted(ctx.facts.fns):
        if not d.startswith('server::streaming::') or not ctx.facts.fns[d].get('has_body'):
            continue
        try:
            b = ctx.fn_body(d)
        except Exception:
            continue
        cons = [c for c in b.calls if CONSTRUCTED.search(c.name) and is_user_call(c)]
        if not cons:
            continue
        errs = []
        for blk in sorted(b.reach):
            for s in b.stmts(blk):
                rv = s.get('rv')
                if rv and rv['r'] == 'agg' and rv.get('adt') == 'iggy::error::IggyError' and 'AlreadyExists' in rv['variant']:
                    errs.append((blk, rv['variant'], s.get('ln')))
        for c in cons:
            reach = set()
            for x in b.succ(c.bb):
                reach |= b.reachable(x)
            for blk, v, ln in errs:
                ok = blk not in reach
                rep.ob(rid, d, '%s before %s' % (v, '::'.join(c.name.split('::')[-2:])), ok, '%s:%s' % (b.file, ln), None if ok else
                       '%s can be returned after %s has run: the entity of the refused request was already constructed (its partitions have counted their segments)' % (v, '::'.join(c.name.split('::')[-2:])))
