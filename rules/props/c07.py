"""C07 — consumer offsets are exact, isolated per consumer/partition and durable (structural clauses)."""
from lib import *
from mir import render, walk, short, canon
from engine import AnchorLost

TECHNIQUE = 'variant↔field agreement over enum-arm regions, access tables, interprocedural guard dominance, must-pass-through pairing, provenance (A1, A2, A3, A5, A9)'
EXPLANATION = ('Decides on the MIR of the current tree: in every match on the consumer kind each arm touches only the offset map/path of that kind; '
               'functions outside such a match touch exactly the maps listed for them (group deletion: group map only; purge: both); a store reaches memory '
               'or disk only under offset <= current_offset; in-memory updates are paired with the on-disk save/delete; auto-commit stores the offset of the last '
               'returned message for the same consumer and partition; load restores both kinds. Also: the durability codec of an offset file (8 little-endian bytes under <kind dir>/<consumer id>) and its loader agree; store/get/delete of a group offset without an explicit partition address the member\'s current partition, only poll advances the rotation. Not decided: isolation/exactness over all interleavings, crash durability.')
ASSUMPTIONS = ['DashMap operations are atomic per key', 'rustc MIR faithfully represents control flow']

P = 'server::streaming::partitions::partition::Partition'
PC = 'server::streaming::polling_consumer::PollingConsumer'
CK = 'iggy::consumer::ConsumerKind'
GROUP = {'Consumer': {'consumer_offsets', 'consumer_offsets_path'},
         'ConsumerGroup': {'consumer_group_offsets', 'consumer_group_offsets_path'}}
ALL = GROUP['Consumer'] | GROUP['ConsumerGroup']

# functions that touch the maps outside a kind match: exact expected field sets (confirmed by reading)
UNCONDITIONAL = {
    'server::streaming::topics::topic::Topic::delete_consumer_group': ({'consumer_group_offsets'}, 'deleting a group removes the group offsets only'),
    'server::streaming::partitions::partition::Partition::purge': (ALL, 'purge clears both maps and both directories'),
}


def run(ctx, rep):
    rep.rule('R07.a', 'in every arm of a match on the consumer kind only the offset map / path of that kind is touched', floor=12, analysis='A5')
    rep.rule('R07.a2', 'functions that touch the offset maps outside a kind match touch exactly the maps listed for them', floor=2, analysis='A1')
    rep.rule('R07.a3', 'a kind constant passed on inside a kind arm is the same kind', floor=2, analysis='A5')
    uncond = {}
    arms_seen = 0
    for df in sorted(ctx.facts.body_defs()):
        if not in_crate(df):
            continue
        raw = ctx.facts.raw_body(df)
        import json
        txt = json.dumps(raw['blocks'])
        touches = any('"%s"' % g in txt for g in ALL)
        has_kind = ('ConsumerKind' in txt) or ('PollingConsumer' in txt)
        if not touches and not has_kind:
            continue
        b = ctx.body(df)
        fn = ctx.user_fn_of(df)
        arm_of = {}
        for bb, t, ty in enum_switches(b, {PC, CK}):
            for v, blocks in arm_regions(b, bb).items():
                if v == 'else':
                    # the else arm of a 2-variant match is the remaining variant
                    names = enum_variant_names(ctx, ty)
                    taken = {variant_name(ctx, ty, x) for x, _ in t['arms']}
                    rest = [n for n in names if n not in taken]
                    vn = rest[0] if len(rest) == 1 else None
                else:
                    vn = variant_name(ctx, ty, v)
                if vn is None:
                    continue
                for x in blocks:
                    arm_of.setdefault(x, set()).add(vn)
                # per arm obligation
                acc = set()
                lines = {}
                for x in blocks:
                    for adt, f, ln in block_field_accesses(b, x):
                        if adt == P and f in ALL:
                            acc.add(f)
                            lines[f] = ln
                    # kind constants handed on
                    tt = b.term(x)
                    if tt.get('t') == 'call' and not tt.get('x', '').startswith('m:'):
                        for a in tt.get('args', []):
                            e = b.expr_operand(a)
                            if e[0] == 'agg' and e[1] == CK and not e[3]:
                                rep.ob('R07.a3', fn, '%s-arm passes ConsumerKind::%s to %s' % (vn, e[2], short(tt.get('res') or tt.get('fn'))),
                                       e[2] == vn, '%s:%s' % (b.file, tt.get('ln')), None)
                if acc:
                    arms_seen += 1
                    wrong = sorted(acc - GROUP.get(vn, set()))
                    rep.ob('R07.a', fn, '%s::%s arm' % (ty.split('::')[-1], vn), not wrong, '%s:%s' % (b.file, lines.get(wrong[0]) if wrong else b.line_of_block(bb)),
                           'arm touches %s' % sorted(acc) if not wrong else 'the %s arm touches %s, which belongs to the other consumer kind' % (vn, wrong))
        # unconditional accesses
        for x in sorted(b.reach):
            if x in arm_of:
                continue
            for adt, f, ln in block_field_accesses(b, x):
                if adt == P and f in ALL:
                    uncond.setdefault(fn, {}).setdefault(f, ln)
    for fn, (expected, why) in UNCONDITIONAL.items():
        got = set(uncond.get(fn, {}))
        if not ctx.has(fn):
            rep.anchor_lost('R07.a2', fn)
            continue
        rep.ob('R07.a2', fn, 'fields', got == expected, None,
               '%s: touches %s' % (why, sorted(got)) if got == expected else '%s — expected exactly %s but the function touches %s' % (why, sorted(expected), sorted(got)))
    for fn in sorted(set(uncond) - set(UNCONDITIONAL)):
        rep.note('unlisted function touching offset maps outside a kind match: %s %s' % (fn, sorted(uncond[fn])))

    # ------------------------------------------------------------ R07.c bound check
    rep.rule('R07.c', 'an offset reaches memory or disk only under offset <= current_offset (guard in the function or at every call site)', floor=3, analysis='A3 interprocedural')
    so = P + '::store_offset'
    sb = ctx.fn_body(so)

    def bound_lit(e, truth):
        if e[0] != 'bin' or e[1] not in ('Gt', 'Le', 'Lt', 'Ge'):
            return False
        l, r = e[2], e[3]
        lcur = l[0] == 'field' and l[2] == 'current_offset'
        rcur = r[0] == 'field' and r[2] == 'current_offset'
        if lcur == rcur:
            return False
        # normalise to  other <op> current
        op = e[1]
        if lcur:
            op = {'Gt': 'Lt', 'Lt': 'Gt', 'Le': 'Ge', 'Ge': 'Le'}[op]
        # other > current must be false ; other <= current must be true
        return (op == 'Gt' and truth is False) or (op == 'Le' and truth is True)

    sinks = []
    for c in sb.calls:
        if not is_user_call(c):
            continue
        last = c.name.split('::')[-1]
        if last == 'save_consumer_offset' or (last == 'insert' and 'DashMap' in c.name):
            sinks.append((c.bb, last, c.where()))
    for blk in sorted(sb.reach):
        for s in sb.stmts(blk):
            lhs = s.get('lhs')
            if lhs and place_fields(lhs) and place_fields(lhs)[-1] == ('server::streaming::partitions::partition::ConsumerOffset', 'offset'):
                sinks.append((blk, 'ConsumerOffset.offset =', '%s:%s' % (sb.file, s.get('ln'))))
    if len(sinks) < 3:
        rep.anchor_lost('R07.c', 'offset sinks in Partition::store_offset (found %d)' % len(sinks))
    for blk, what, where in sinks:
        ok, how = guarded_interproc(ctx, so, sb, blk, bound_lit, depth=2)
        rep.ob('R07.c', so, what, ok, where, how if ok else 'an offset beyond the partition\'s current offset can be stored: ' + how)

    # ------------------------------------------------------------ R07.d memory and disk move together
    rep.rule('R07.d', 'every Ok path of store/delete of an offset passes the success edge of the on-disk save/delete', floor=2, analysis='A2')
    for fn, callee in ((so, 'save_consumer_offset'), (P + '::delete_consumer_offset', 'delete_consumer_offset')):
        b = ctx.fn_body(fn)
        disk = [c for c in b.calls if c.name.split('::')[-1] == callee and is_user_call(c) and 'storage' in c.name.lower()]
        if not disk:
            rep.anchor_lost('R07.d', '%s call in %s' % (callee, fn))
            continue
        cut = set()
        for c in disk:
            for e in ok_edges(b, c):
                cut.add(e)
        reach = b.reachable(0, avoid_edges=cut)
        bad = strict_ok_exit_blocks(b) & reach
        rep.ob('R07.d', fn, 'disk-paired', not bad, disk[0].where(),
               'every Ok return has passed a successful %s' % callee if not bad else 'an Ok return is reachable without a successful %s (memory and disk diverge)' % callee)

    # ------------------------------------------------------------ R07.e purge / group deletion
    rep.rule('R07.e', 'purge clears both maps and deletes both directories; group deletion visits every partition', floor=3, analysis='A2')
    pb = ctx.fn_body(P + '::purge')
    clears = {}
    for c in pb.calls:
        if c.name.split('::')[-1] == 'clear' and is_user_call(c):
            e = pb.expr_operand(c.args[0])
            if e[0] == 'field' and e[2] in ALL:
                clears[e[2]] = c
    dels = {}
    for c in pb.calls:
        if c.name.split('::')[-1] == 'delete_consumer_offsets' and is_user_call(c):
            e = pb.expr_operand(c.args[-1])
            for x in walk(e):
                if x[0] == 'field' and x[2] in ALL:
                    dels[x[2]] = c
    oks = strict_ok_exit_blocks(pb)
    for f in ('consumer_offsets', 'consumer_group_offsets'):
        c = clears.get(f)
        ok = c is not None and not (oks & pb.reachable(0, avoid_blocks={c.bb}))
        rep.ob('R07.e', P + '::purge', 'clear ' + f, ok, c.where() if c else None, 'cleared on every Ok path' if ok else 'purge can return Ok without clearing ' + f)
    for f in ('consumer_offsets_path', 'consumer_group_offsets_path'):
        c = dels.get(f)
        ok = c is not None and not (oks & pb.reachable(0, avoid_edges=set(ok_edges(pb, c)))) if c else False
        rep.ob('R07.e', P + '::purge', 'delete dir ' + f, ok, c.where() if c else None, 'directory deleted on every Ok path' if ok else 'purge can return Ok without deleting the stored offsets under ' + f)
    # group deletion: the removal sits in a loop over self.partitions with no early exit other than error
    tb = ctx.fn_body('server::streaming::topics::topic::Topic::delete_consumer_group')
    rem = [c for c in tb.calls if c.name.split('::')[-1] == 'remove' and 'DashMap' in c.name and is_user_call(c)]
    if not rem:
        rep.anchor_lost('R07.e', 'DashMap::remove in Topic::delete_consumer_group')
    else:
        r = rem[0]
        loops = [(h, bl) for h, bl in natural_loops(tb) if r.bb in bl]
        it = False
        for h, bl in loops:
            for x in bl:
                t = tb.term(x)
                if t.get('t') == 'call' and (t.get('fn', '').endswith('Iterator::next')):
                    e = tb.expr_operand(t['args'][0])
                    if any(y[0] == 'field' and y[2] == 'partitions' for y in walk(e)):
                        it = True
        key = tb.expr_operand(r.args[1]) if len(r.args) > 1 else None
        key_ok = key is not None and (has_var(key, 'group_id') or any(y[0] == 'field' and y[2] == 'group_id' for y in walk(key)))
        rep.ob('R07.e', 'server::streaming::topics::topic::Topic::delete_consumer_group', 'every partition, keyed by group id', it and key_ok, r.where(),
               'removal runs inside the loop over self.partitions and is keyed by the group id' if it and key_ok else 'removal is not inside a loop over all partitions or is not keyed by the group id')
        okc, detail, _it = loop_coverage(tb, r)
        rep.ob('R07.e', 'server::streaming::topics::topic::Topic::delete_consumer_group', 'no partition is skipped and the loop ends only by exhaustion or error', okc, r.where(), detail if okc else
               detail + ': the offsets of the group survive on the partitions that were not visited and are inherited by the next group created under the same id')

    # ------------------------------------------------------------ R07.f auto-commit
    rep.rule('R07.f', 'auto-commit stores the offset of the last returned message, for the same consumer and partition, only when requested and non-empty', floor=4, analysis='A9+A3')
    sb2 = ctx.fn_body(SYS + '::poll_messages')
    st = [c for c in sb2.calls if c.name.endswith('Topic::store_consumer_offset_internal')]
    gm = [c for c in sb2.calls if c.name.endswith('Topic::get_messages')]
    if len(st) != 1 or len(gm) != 1:
        rep.anchor_lost('R07.f', 'store_consumer_offset_internal / get_messages in System::poll_messages')
    else:
        s, g = st[0], gm[0]
        off = sb2.expr_operand(s.args[2])
        # offset = polled.messages.last().unwrap().offset where polled derives from get_messages
        def from_poll(e):
            for x in walk(e):
                if x[0] == 'call' and x[3] == g.bb:
                    return True
                if x[0] == 'local':
                    w = sb2.whole_def_expr(x[1])
                    if w is not None and any(y[0] == 'call' and y[3] == g.bb for y in walk(w)):
                        return True
            return False
        ok_off = off[0] == 'field' and off[2] == 'offset' and has_call_last(off, 'last') and from_poll(off)
        rep.ob('R07.f', SYS + '::poll_messages', 'offset = last returned message', ok_off, s.where(), render(off)[:140])
        same_c = sb2.expr_operand(s.args[1]) == sb2.expr_operand(g.args[1])
        same_p = sb2.expr_operand(s.args[3]) == sb2.expr_operand(g.args[2])
        rep.ob('R07.f', SYS + '::poll_messages', 'same consumer', same_c, s.where(), render(sb2.expr_operand(s.args[1]))[:100])
        rep.ob('R07.f', SYS + '::poll_messages', 'same partition', same_p, s.where(), render(sb2.expr_operand(s.args[3]))[:100])
        lits = bool_literals_at(sb2, s.bb)
        ac = any(e[0] == 'field' and e[2] == 'auto_commit' and t for e, t, _ in lits)
        ne = any(e[0] == 'call' and e[1].split('::')[-1] == 'is_empty' and not t for e, t, _ in lits)
        rep.ob('R07.f', SYS + '::poll_messages', 'only when auto_commit and non-empty', ac and ne, s.where(),
               'store is control-dependent on args.auto_commit and on !messages.is_empty()' if ac and ne else 'auto-commit store is not guarded by auto_commit=%s / non-empty=%s' % (ac, ne))
        # and the store's failure propagates / success precedes the Ok return on the auto-commit path
        lit_edge = [lit for e, t, lit in lits if e[0] == 'field' and e[2] == 'auto_commit']

    # ------------------------------------------------------------ R07.g load restores both kinds
    rep.rule('R07.g', 'loading a partition restores both kinds of offsets, each from its own directory', floor=2, analysis='A2')
    lb = ctx.fn_body(P + '::load_consumer_offsets')
    kinds = {}
    for c in lb.calls:
        if c.name.endswith('load_consumer_offsets_from_storage'):
            e = lb.expr_operand(c.args[1])
            if e[0] == 'agg' and e[1] == CK:
                kinds[e[2]] = c
    oks = lb.ok_return_blocks()
    for k in ('Consumer', 'ConsumerGroup'):
        c = kinds.get(k)
        ok = c is not None
        if ok:
            # every Ok/tail exit passes this call
            reach = lb.reachable(0, avoid_blocks={c.bb})
            ok = not ({b for b in oks if b != c.bb} & reach) or c.to in oks or c.bb in oks
        rep.ob('R07.g', P + '::load_consumer_offsets', 'loads ' + k, ok, c.where() if c else None,
               'reached on every successful path' if ok else 'offsets of kind %s are not loaded on every successful path' % k)
    # next: the stored offset + 1 (shared with C02 R02.d) — consumer kind selects map is covered by R07.a

    # ------------------------------------------------------------ R07.h the offset file codec
    rep.rule('R07.h', 'durability codec: an offset is saved as its 8 little-endian bytes under <kind dir>/<consumer id>; load rebuilds kind, id (file name), offset (file content) and path from exactly those', floor=9, analysis='A9+A11')
    import forms
    FPS = '<server::streaming::partitions::storage::FilePartitionStorage as server::streaming::storage::PartitionStorage>::'
    CO = 'server::streaming::partitions::partition::ConsumerOffset'
    forms.check_call_args(ctx, rep, 'R07.h', {FPS + 'save_consumer_offset': {'PersisterKind::overwrite': ['path, u64::to_le_bytes(offset)']}})
    forms.check_aggregates(ctx, rep, 'R07.h', {
        FPS + 'load_consumer_offsets': {CO: {'kind': 'kind', 'consumer_id': 'str::parse(OsString::into_string(DirEntry::file_name(…)))', 'offset': 'AsyncReadExt::read_u64_le(file::open($str))', 'path': '::to_string(Path::to_str(DirEntry::path(…)))'}},
        CO + '::new': {CO: {'kind': 'kind', 'consumer_id': 'consumer_id', 'offset': 'offset'}},
    })
    # the path of a new offset is "<dir>/<consumer id>": both values flow into the format call
    nb = ctx.fn_body(CO + '::new')
    fmt_args = set()
    for c2 in nb.calls:
        if c2.name.endswith('Argument::new_display') or c2.name.endswith('Argument::new_debug'):
            e = nb.expr_operand(c2.args[0])
            for x in walk(e):
                if x[0] in ('param', 'upvar'):
                    fmt_args.add(x[1])
    if not fmt_args:
        # format_args captured through a tuple: look at the tuple operands
        for blk in sorted(nb.reach):
            for st in nb.stmts(blk):
                rv = st.get('rv')
                if rv and rv['r'] == 'agg' and rv.get('kind') == 'tuple':
                    for op in rv['ops']:
                        e = nb.expr_operand(op)
                        for x in walk(e):
                            if x[0] in ('param', 'upvar'):
                                fmt_args.add(x[1])
    rep.ob('R07.h', CO + '::new', 'path = dir / consumer id', {'path', 'consumer_id'} <= fmt_args, None, 'format arguments: %s' % sorted(fmt_args))

    # ------------------------------------------------------------ R07.i which partition a group member's offset operation addresses
    rep.rule('R07.i', 'store/get/delete of a group offset without an explicit partition address the member\'s CURRENT partition (the one last polled); only poll advances the rotation: the advancing resolver mode is passed by System::poll_messages alone', floor=7, analysis='A9 call-argument forms + A3')
    T = 'server::streaming::topics::topic::Topic'
    forms.check_call_args(ctx, rep, 'R07.i', {
        T + '::store_consumer_offset': {'resolve_consumer_with_partition_id': ['consumer, client_id, partition_id, 0']},
        T + '::get_consumer_offset': {'resolve_consumer_with_partition_id': ['consumer, client_id, partition_id, 0']},
        T + '::delete_consumer_offset': {'resolve_consumer_with_partition_id': ['consumer, client_id, partition_id, 0']},
        'server::streaming::systems::system::System::poll_messages': {'resolve_consumer_with_partition_id': ['consumer, session.client_id, partition_id, 1']},
    })
    # the "current partition" that store/get/delete fall back to is the one the last poll resolved: calculate_partition_id records it
    from forms import field_assignments
    CGM = 'server::streaming::topics::consumer_group::ConsumerGroupMember'
    cur = [(fn, form) for fn, b_, bb_, ln, form in field_assignments(ctx, CGM, 'current_partition_id') if fn == CGM + '::calculate_partition_id']
    okcur = any(form != 'Option::None{}' and 'partitions' in form for fn, form in cur)
    rep.ob('R07.i', CGM + '::calculate_partition_id', 'the polled partition becomes the current one', okcur, None, str([f for _, f in cur])[:140] if okcur else
           'calculate_partition_id does not record the partition it returns as current_partition_id (assignments: %s): a group offset stored without a partition id lands on another partition than the one polled last' % [f for _, f in cur])
    callers = {ctx.user_fn_of(f) for f, c in callers_of(ctx, T + '::resolve_consumer_with_partition_id')}
    extra = callers - {T + '::store_consumer_offset', T + '::get_consumer_offset', T + '::delete_consumer_offset', 'server::streaming::systems::system::System::poll_messages'}
    rep.ob('R07.i', T + '::resolve_consumer_with_partition_id', 'callers', not extra, None, '%d callers' % len(callers) if not extra else 'resolver called from unconfirmed places: %s' % sorted(extra))
    rb = ctx.fn_body(T + '::resolve_consumer_with_partition_id')
    CGP = 'server::streaming::topics::consumer_group::ConsumerGroup::'
    for callee, want in ((CGP + 'calculate_partition_id', True), (CGP + 'get_current_partition_id', False)):
        cs = [c for c in rb.calls if c.name == callee]
        if not cs:
            rep.ob('R07.i', T + '::resolve_consumer_with_partition_id', short(callee), False, None, 'the resolver no longer calls %s' % short(callee))
            continue
        lits = [(e, tr) for e, tr, _ in bool_literals_at(rb, cs[0].bb) if e in (('param', 'calculate_partition_id'), ('upvar', 'calculate_partition_id'))]
        ok = bool(lits) and all(tr == want for _, tr in lits)
        rep.ob('R07.i', T + '::resolve_consumer_with_partition_id', short(callee) + ' under calculate_partition_id == %s' % str(want).lower(), ok, cs[0].where(),
               None if ok else '%s is not selected by calculate_partition_id == %s' % (short(callee), str(want).lower()))
    # an explicit partition id wins over both
    for callee in (CGP + 'calculate_partition_id', CGP + 'get_current_partition_id'):
        cs = [c for c in rb.calls if c.name == callee]
        if cs:
            ok = any(render(e).endswith('partition_id') and (vals == [0] or (vals == [] and lit['else'] and lit['arms'] == [1])) for e, vals, lit in discr_literals_at(rb, cs[0].bb))
            rep.ob('R07.i', T + '::resolve_consumer_with_partition_id', short(callee) + ' only without an explicit partition', ok, cs[0].where(),
                   None if ok else 'the member\'s partition is consulted even when the request names a partition')

    # ------------------------------------------------------------ R07.j the offset maps are keyed by the consumer id / the group id, never by the member id
    rep.rule('R07.j', 'every keyed access to the two offset maps of a partition uses the key of its kind: consumer_offsets by the consumer id (`Consumer(id, _)`), consumer_group_offsets by the *group* id (`ConsumerGroup(group_id, member_id)`: the first component) — a group offset filed under the member id is invisible to the other members and collides with another group', floor=5, analysis='A9 call-argument forms')
    for d_ in sorted(ctx.facts.body_defs()):
        if not d_.startswith('server::') or '__CALLSITE' in d_:
            continue
        b_ = ctx.body(d_)
        for c_ in b_.calls:
            if not (is_user_call(c_) and c_.name.startswith('dashmap::DashMap::') and len(c_.args) > 1):
                continue
            r_ = canon(b_.pexpr_operand(c_.args[0], 0, frozenset(), (c_.bb, 't')), 0, 1)
            which = 'group' if r_.endswith('.consumer_group_offsets') else ('consumer' if r_.endswith('.consumer_offsets') else None)
            if which is None:
                continue
            k_ = canon(b_.pexpr_operand(c_.args[1], 0, frozenset(), (c_.bb, 't')), 0, 2)
            if which == 'group':
                ok_ = bool(re.search(r'as ConsumerGroup\)\.0\b', k_) or re.search(r'\bgroup_id\b', k_)) and not re.search(r'as ConsumerGroup\)\.1\b|member_id', k_)
            else:
                ok_ = bool(re.search(r'as Consumer\)\.0\b', k_) or re.search(r'\bconsumer_id\b', k_)) and not re.search(r'as ConsumerGroup\)', k_)
            rep.ob('R07.j', ctx.user_fn_of(d_), '%s(%s)[%s]' % (c_.name.split('::')[-1], r_.split('.')[-1], k_[:60]), ok_, c_.where(), None if ok_ else
                   'the %s offsets are accessed with the key `%s`, which is not the %s id' % (which, k_[:80], 'group' if which == 'group' else 'consumer'))

    # ------------------------------------------------------------ R07.k an automatic commit stores what the poll returned, whatever was stored before
    rep.rule('R07.k', 'auto-commit: Topic::store_consumer_offset_internal has no successful return that does not pass the success edge of Partition::store_consumer_offset (a poll by offset / first / timestamp may legitimately move the stored offset backwards; skipping the store leaves the consumer where it was)', floor=1, analysis='A2')
    SI = 'server::streaming::topics::topic::Topic::store_consumer_offset_internal'
    if not ctx.has(SI):
        rep.anchor_lost('R07.k', SI)
    else:
        sb_ = ctx.fn_body(SI)
        st_ = [c for c in sb_.calls if c.name.endswith('Partition::store_consumer_offset') and is_user_call(c)]
        if not st_:
            rep.ob('R07.k', SI, 'stores', False, None, 'the auto-commit path no longer calls Partition::store_consumer_offset')
        else:
            oks_ = strict_ok_exit_blocks(sb_) | {b for b, k, _ in sb_.return_sites() if k in ('value', 'tail')}
            # a successful exit reachable without the store: with the call block removed, some Ok / tail return is still reachable, and it is not the tail return of the store itself
            reach_ = sb_.reachable(0, avoid_blocks={st_[0].bb})
            bad_ = sorted(x for x in (oks_ & reach_))
            ok_ = not bad_
            rep.ob('R07.k', SI, 'every successful return passes the store', ok_, st_[0].where(), None if ok_ else
                   'a successful return (block %s) is reachable without storing the offset: the automatic commit is skipped under some condition' % bad_[:2])

