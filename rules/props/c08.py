"""C08 — consumer groups split a topic's partitions exclusively and evenly (structural clauses)."""
from lib import *
from mir import render, walk, short, canon
from engine import AnchorLost
import forms

TECHNIQUE = 'must-reach of the full reassignment after every membership / partition-count change, loop coverage, writer and normal-form tables of the member share state, comparison forms of membership matching (A1, A2, A6, A10)'
EXPLANATION = ('Decides on the MIR of the current tree: add_member, delete_member (on the removed edge) and reassign_partitions reach assign_partitions; partition creation/deletion reaches the '
               'rebalance of every group; a disconnect leaves every recorded membership; assign_partitions clears every member (cursor and share) before distributing, distributes partition i+1 to '
               'member i mod m with exactly one insert per iteration; the rotation cursor stays inside the share; the share state has no other writer; join/leave update the group and the client '
               'record together and match memberships on stream, topic and group id. Also: a dropped connection always leaves its groups (the group-side removal runs before the fallible client-side bookkeeping), and a group is created with the partition count of its topic at run time and when restored at start-up. Not decided: exclusivity/balance as invariants over all histories; group-level exactly-once delivery.')
ASSUMPTIONS = ['forms below are the pinned representation of the assignment']

CG = 'server::streaming::topics::consumer_group::ConsumerGroup'
CGM = 'server::streaming::topics::consumer_group::ConsumerGroupMember'
CM = 'server::streaming::clients::client_manager::ClientManager'
TOPIC = 'server::streaming::topics::topic::Topic'

MEMBER_TABLE = {
    'current_partition_index': {
        CG + '::assign_partitions': ['Option::None{}', 're:^HashMap::len\\(RwLock::write\\(.*\\)\\.partitions\\)$'],     # cleared, then index of the first assigned partition
        CGM + '::calculate_partition_id': ['0', '(1 + self.current_partition_index)'],                                    # wrap | advance
    },
    'current_partition_id': {
        CG + '::assign_partitions': ['Option::None{}', '(1 + ::next(::into_iter(Range::Range{start: 0, end: self.partitions_count})))'],   # cleared, then first partition = index + 1
        CGM + '::calculate_partition_id': ['AHashMap::get(self.partitions, self.current_partition_index)'],
    },
}
GROUP_TABLE = {'partitions_count': {CG + '::reassign_partitions': ['partitions_count']}}
CMP = {
    CGM + '::calculate_partition_id': ['(HashMap::len(self.partitions) <= (1 + self.current_partition_index))'],       # wrap when idx+1 reaches the share size
    CM + '::join_consumer_group': ['(consumer_group.group_id == group_id)', '(consumer_group.stream_id == stream_id)', '(consumer_group.topic_id == topic_id)'],
    CM + '::leave_consumer_group': ['(::next(::into_iter(…)).1.group_id == consumer_group_id)', '(::next(::into_iter(…)).1.stream_id == stream_id)', '(::next(::into_iter(…)).1.topic_id == topic_id)'],
    CM + '::delete_consumer_groups_for_stream': ['(arg2.1.stream_id == stream_id)'],
    CM + '::delete_consumer_groups_for_topic': ['(arg2.1.stream_id == stream_id)', '(arg2.1.topic_id == topic_id)'],
}
CALLS = {
    CG + '::assign_partitions': {'AHashMap::insert': ['HashMap::len(RwLock::write(…).partitions), (1 + ::next(::into_iter(…)))'],           # (next free slot, partition id = i + 1)
                                 'get': ['(::next(::into_iter(…)) % Vec::len(Iterator::collect(…)))']},                                       # member index = i mod m
}


def must_reach(ctx, rep, rid, caller, callee, inst=None, on_success_of=None):
    b = ctx.fn_body(caller)
    cs = [c for c in b.calls if c.name == callee and is_user_call(c)]
    if not cs:
        rep.ob(rid, caller, inst or ('reaches ' + short(callee)), False, None, '%s no longer calls %s' % (short(caller), short(callee)))
        return None, None
    exits = {x for x in b.reach if b.term(x).get('t') == 'return'}
    errs = {eb for eb, _ in err_exit_sites(b)}
    start = 0
    if on_success_of:
        pre = [c for c in b.calls if c.name == on_success_of]
        if pre:
            st = [o for _, o in ok_edges(b, pre[0])]
            start = st[0] if st else pre[0].to
    reach = b.reachable(start, avoid_blocks={c.bb for c in cs})
    # exits reachable without the call, not counting error returns
    bad = [x for x in exits & reach if not _only_err_paths(b, start, x, {c.bb for c in cs}, errs)]
    rep.ob(rid, caller, inst or ('reaches ' + short(callee)), not bad, cs[0].where(),
           'on every non-error path' if not bad else 'a successful return is reachable without calling %s' % short(callee))
    return b, cs[0]


def _only_err_paths(b, start, exit_bb, avoid, errs):
    """every path start→exit that avoids `avoid` passes an error-return site"""
    r = b.reachable(start, avoid_blocks=set(avoid) | set(errs))
    return exit_bb not in r


def run(ctx, rep):
    from props import accessors as _acc
    _acc.check(ctx, rep, 'C08', 'R08.acc')
    rep.rule('R08.a', 'every membership or partition-count change is followed by a full reassignment; a disconnect leaves every group', floor=8, analysis='A2')
    must_reach(ctx, rep, 'R08.a', CG + '::add_member', CG + '::assign_partitions')
    must_reach(ctx, rep, 'R08.a', CG + '::reassign_partitions', CG + '::assign_partitions')
    # delete_member: on the removed edge
    b = ctx.fn_body(CG + '::delete_member')
    rm = [c for c in b.calls if c.name.split('::')[-1] == 'remove' and is_user_call(c)]
    ap = [c for c in b.calls if c.name == CG + '::assign_partitions']
    if not rm or not ap:
        rep.ob('R08.a', CG + '::delete_member', 'reaches assign_partitions', False, None, 'delete_member no longer removes the member and reassigns')
    else:
        lits = bool_literals_at(b, ap[0].bb)
        ok = any(e[0] == 'call' and e[1].split('::')[-1] == 'is_some' and t and expr_has(e, lambda x: x[0] == 'call' and x[3] == rm[0].bb) for e, t, _ in lits) or success_dominates(b, rm[0], ap[0].bb)
        # and the removed edge cannot return without it
        st = [o for _, o in ok_edges(b, rm[0])]
        exits = {x for x in b.reach if b.term(x).get('t') == 'return'}
        skip = bool(st) and bool(exits & b.reachable(st[0], avoid_blocks={ap[0].bb}))
        rep.ob('R08.a', CG + '::delete_member', 'removed ⇒ reassign', ok and not skip, ap[0].where(), 'assign_partitions runs whenever a member was removed' if ok and not skip else 'a member can be removed without the partitions being reassigned')
    must_reach(ctx, rep, 'R08.a', SYS + '::create_partitions', TOPIC + '::reassign_consumer_groups', on_success_of=TOPIC + '::add_persisted_partitions')
    must_reach(ctx, rep, 'R08.a', SYS + '::delete_partitions', TOPIC + '::reassign_consumer_groups', on_success_of=TOPIC + '::delete_persisted_partitions')
    rb = ctx.fn_body(TOPIC + '::reassign_consumer_groups')
    rc = [c for c in rb.calls if c.name == CG + '::reassign_partitions']
    if not rc:
        rep.ob('R08.a', TOPIC + '::reassign_consumer_groups', 'every group', False, None, 'reassign_consumer_groups no longer calls ConsumerGroup::reassign_partitions')
    else:
        ok, detail, it = loop_coverage(rb, rc[0])
        arg = canon(rb.pexpr_operand(rc[0].args[1]), 0, 1)
        okc = 'partitions' in arg and ('len' in arg or 'count' in arg)
        rep.ob('R08.a', TOPIC + '::reassign_consumer_groups', 'every group', ok, rc[0].where(), detail)
        rep.ob('R08.a', TOPIC + '::reassign_consumer_groups', 'count = number of partitions', okc, rc[0].where(), 'reassign_partitions(%s)' % arg)
    db = ctx.fn_body(SYS + '::delete_client')
    lc = [c for c in db.calls if c.name == SYS + '::leave_consumer_group_by_client']
    if not lc:
        rep.ob('R08.a', SYS + '::delete_client', 'leaves every group', False, None, 'a disconnect no longer leaves the client\'s consumer groups: its partitions are never served again')
    else:
        ok, detail, it = loop_coverage(db, lc[0])
        rep.ob('R08.a', SYS + '::delete_client', 'leaves every group', ok, lc[0].where(), detail)

    rep.rule('R08.b', 'the member share state has its confirmed writers and forms (cleared, then first assigned; rotation wraps at the share size)', floor=7, analysis='A1+A10')
    forms.check_table(ctx, rep, 'R08.b', CGM, MEMBER_TABLE)
    forms.check_table(ctx, rep, 'R08.b', CG, GROUP_TABLE)

    rep.rule('R08.c', 'assignment form: every member cleared before distribution; partition i+1 goes to member i mod m; one insert per iteration; membership matching compares stream, topic and group id', floor=14, analysis='A10+A2')
    check_comparisons(ctx, rep, 'R08.c', CMP)
    forms.check_call_args(ctx, rep, 'R08.c', CALLS)
    ab = ctx.fn_body(CG + '::assign_partitions')
    clears = [c for c in ab.calls if c.name.split('::')[-1] == 'clear' and is_user_call(c)]
    ins = [c for c in ab.calls if c.name.endswith('AHashMap::insert') and is_user_call(c)]
    if not clears or not ins:
        rep.anchor_lost('R08.c', 'partitions.clear / partitions.insert in assign_partitions')
    else:
        ok, detail, it = loop_coverage(ab, clears[0])
        rep.ob('R08.c', CG + '::assign_partitions', 'every member cleared', ok, clears[0].where(), detail)
        okd = ins[0].bb in ab.reachable(clears[0].bb) and clears[0].bb not in ab.reachable(ins[0].bb)
        rep.ob('R08.c', CG + '::assign_partitions', 'clear before distribute', okd, ins[0].where(), 'the clearing loop completes before the distribution loop' if okd else 'distribution is not preceded by the clearing of all members')
        ok2, detail2, it2 = loop_coverage(ab, ins[0])
        rep.ob('R08.c', CG + '::assign_partitions', 'one insert per partition', ok2, ins[0].where(), detail2)
        # the cursor fields are cleared in the same loop as the share
        cl_loop = [bl for h, bl in natural_loops(ab) if clears[0].bb in bl]
        cleared = set()
        if cl_loop:
            body_ = min(cl_loop, key=len)
            for blk in body_:
                for s in ab.stmts(blk):
                    lhs = s.get('lhs')
                    if lhs and len(lhs) > 1 and place_fields(lhs) and place_fields(lhs)[-1][0] == CGM:
                        cleared.add(place_fields(lhs)[-1][1])
        okc = {'current_partition_index', 'current_partition_id'} <= cleared
        rep.ob('R08.c', CG + '::assign_partitions', 'cursor reset with the share', okc, clears[0].where(),
               'cursor index and id are reset for every member before redistribution' if okc else 'the rotation cursor (%s) survives a rebalance: it can point outside the new share, after which the member is never served' % sorted({'current_partition_index', 'current_partition_id'} - cleared))

    rep.rule('R08.f', 'the group member list and the client membership list move together (join and leave reach both sides)', floor=4, analysis='A2 pairing')
    must_reach(ctx, rep, 'R08.f', SYS + '::join_consumer_group', TOPIC + '::join_consumer_group')
    must_reach(ctx, rep, 'R08.f', SYS + '::join_consumer_group', CM + '::join_consumer_group')
    must_reach(ctx, rep, 'R08.f', SYS + '::leave_consumer_group_by_client', TOPIC + '::leave_consumer_group')
    must_reach(ctx, rep, 'R08.f', SYS + '::leave_consumer_group_by_client', CM + '::leave_consumer_group')

    # ------------------------------------------------------------ R08.g a disconnect cannot leave a ghost member
    rep.rule('R08.g', 'a dropped connection always leaves its groups: delete_client removes the client record first and ignores the result, so in leave_consumer_group_by_client the group-side removal must not depend on the client-side bookkeeping (it runs first)', floor=2, analysis='A2 ordering')
    lb = ctx.fn_body(SYS + '::leave_consumer_group_by_client')
    tl = [c for c in lb.calls if c.name == TOPIC + '::leave_consumer_group']
    cl = [c for c in lb.calls if c.name == CM + '::leave_consumer_group']
    if not tl or not cl:
        rep.anchor_lost('R08.g', 'Topic::leave_consumer_group / ClientManager::leave_consumer_group in leave_consumer_group_by_client')
    else:
        ok = lb.dominates(tl[0].bb, cl[0].bb) and tl[0].bb != cl[0].bb
        rep.ob('R08.g', SYS + '::leave_consumer_group_by_client', 'group-side removal first', ok, tl[0].where(),
               'Topic::leave_consumer_group runs before the fallible ClientManager::leave_consumer_group' if ok else
               'ClientManager::leave_consumer_group (ClientNotFound after delete_client removed the record) can abort the function before Topic::leave_consumer_group ran: the dead client stays a member and keeps its partitions')
        db = ctx.fn_body(SYS + '::delete_client')
        dc = [c for c in db.calls if c.name == CM + '::delete_client']
        lv = [c for c in db.calls if c.name == SYS + '::leave_consumer_group_by_client']
        ok2 = bool(dc and lv)
        rep.ob('R08.g', SYS + '::delete_client', 'disconnect leaves every group of the client', ok2, lv[0].where() if lv else None,
               None if ok2 else 'delete_client no longer leaves the groups of the removed client')

    # ------------------------------------------------------------ R08.h a group knows how many partitions its topic has, also after a restart
    rep.rule('R08.h', 'a consumer group is created with the number of partitions its topic has, at run time and when restored at start-up (after the partitions were loaded)', floor=2, analysis='A9 call-argument forms')
    group_partition_count_forms(ctx, rep, 'R08.h')


def group_partition_count_forms(ctx, rep, rid):
    """shared with C05: a group is created with the partition count of its topic at run time and when restored at start-up"""
    import forms as forms_
    TS = '<server::streaming::topics::storage::FileTopicStorage as server::streaming::storage::TopicStorage>::load'
    forms_.check_call_args(ctx, rep, rid, {
        TS: {'ConsumerGroup::new': ['re:^topic\\.topic_id, .*\\.id, .*\\.name, Topic::get_partitions_count\\(topic\\)$']},
        TOPIC + '::create_consumer_group': {'ConsumerGroup::new': ['re:^self\\.topic_id, phi\\{.*\\}, name, (HashMap::len\\(self\\.partitions\\)|Topic::get_partitions_count\\(self\\))$']},
    }, skip_self=False, cd=2)
    gb = ctx.fn_body(TOPIC + '::get_partitions_count')
    okc = any(c.name.split('::')[-1] == 'len' and render(gb.expr_operand(c.args[0])).endswith('.partitions') for c in gb.calls)
    rep.ob(rid, TOPIC + '::get_partitions_count', 'counts the partitions map', okc, None, None if okc else 'get_partitions_count no longer returns partitions.len()')
