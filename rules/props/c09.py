"""C09 — no operation succeeds without authentication and a granting permission (structural clauses)."""
import re
from lib import *
from mir import render, walk, short, canon
from engine import AnchorLost
import permtables as pt
import idkinds

TECHNIQUE = 'exhaustive decision-table extraction of the 40 permission rule functions by abstract execution of their MIR; must-pass-through gating of every &Session operation; id-kind dimension analysis; layering (A1, A2, A3, A8, A9, A13)'
EXPLANATION = ('Decides on the MIR of the current tree: (a) every System operation taking a &Session passes, on every path to a successful return, the success edge of '
               'ensure_authenticated or of a permission rule called with the session\'s user id, and the success edge of the rule listed for it; (b) ids handed to rules have the right '
               'kind; (c) for each of the 40 permission rule functions the complete decision table is extracted and checked for grant soundness against the documented hierarchy, '
               'monotonicity over all atom assignments, key provenance and panic freedom; (d) the denormalised permission tables follow the records; (e) root is protected; '
               '(f,g) handlers reach catalogue data only through gated operations. Also: the clearing calls of the denormalised tables select exactly the user\'s entries (the key component that holds the user id), and Permissions::to_bytes emits the flags in the order from_bytes stores them (a record keeps every flag through the wire and the journal). Not decided: ordering of permission changes against concurrently running requests.')
ASSUMPTIONS = ['user id 0 (unauthenticated) owns no permission record, so a successful permission rule implies authentication',
               'the granting sets in GRANTS are the closure of the hierarchy documented in sdk/src/models/permissions.rs plus what the pinned tree grants (confirmed by reading)',
               'HTTP requests outside PUBLIC_PATHS pass the jwt middleware (not analysed here)']

P = 'server::streaming::users::permissioner::Permissioner'
AUTH = SYS + '::ensure_authenticated'

# operation -> required permission rule (None: authentication only; reason given)
RULE_OVERRIDE = {
    'find_stream': 'get_stream', 'try_find_stream': 'get_stream', 'find_streams': 'get_streams',
    'find_topic': 'get_topic', 'try_find_topic': 'get_topic', 'find_topics': 'get_topics',
    'find_user': 'get_user', 'flush_unsaved_buffer': 'append_messages',
}
AUTH_ONLY = {
    'create_personal_access_token': 'acts on the caller\'s own tokens',
    'delete_personal_access_token': 'acts on the caller\'s own tokens',
    'get_personal_access_tokens': 'lists the caller\'s own tokens',
    'logout_user': 'acts on the caller\'s own session',
    'get_snapshot': 'authentication only in the pinned tree (no permission documents it; see finding F15 in DESIGN.md)',
    'ensure_authenticated': 'is the gate itself',
}
NO_GATE = {'login_with_personal_access_token': 'login', 'login_user': 'login', 'login_user_with_credentials': 'login'}
SELF_EXEMPT = {'find_user': 'a user may read their own record', 'change_password': 'a user may change their own password'}

# granting atoms per terminal rule family
G_READ_TOPIC = {'G.read_streams', 'G.manage_streams', 'G.manage_topics', 'G.read_topics', 'S.manage_stream', 'S.read_stream', 'S.manage_topics', 'S.read_topics', 'T.manage_topic', 'T.read_topic'}
G_MANAGE_TOPIC = {'G.manage_streams', 'G.manage_topics', 'S.manage_stream', 'S.manage_topics', 'T.manage_topic'}
G_POLL = G_READ_TOPIC | {'G.poll_messages', 'S.poll_messages', 'T.poll_messages', 'set.users_that_can_poll_messages_from_all_streams', 'set.users_that_can_poll_messages_from_specific_streams'}
G_SEND = G_MANAGE_TOPIC | {'G.send_messages', 'S.send_messages', 'T.send_messages', 'set.users_that_can_send_messages_to_all_streams', 'set.users_that_can_send_messages_to_specific_streams'}
GRANTS = {
    'get_server_info': {'G.manage_servers', 'G.read_servers'},
    'read_users': {'G.manage_users', 'G.read_users'},
    'manager_users': {'G.manage_users'},
    'get_stream': {'G.manage_streams', 'G.read_streams', 'S.manage_stream', 'S.read_stream'},
    'get_streams': {'G.manage_streams', 'G.read_streams'},
    'create_stream': {'G.manage_streams'},
    'manage_stream': {'G.manage_streams', 'S.manage_stream'},
    'get_topic': G_READ_TOPIC, 'get_topics': G_READ_TOPIC - {'T.manage_topic', 'T.read_topic'} | {'T.manage_topic', 'T.read_topic'},
    'create_topic': {'G.manage_streams', 'G.manage_topics', 'S.manage_stream', 'S.manage_topics'},
    'manage_topic': G_MANAGE_TOPIC,
    'poll_messages': G_POLL, 'append_messages': G_SEND,
}
# delegating entry points -> terminal family (documented)
DELEGATES = {
    'get_stats': 'get_server_info', 'get_clients': 'get_server_info', 'get_client': 'get_server_info',
    'get_user': 'read_users', 'get_users': 'read_users',
    'create_user': 'manager_users', 'delete_user': 'manager_users', 'update_user': 'manager_users', 'update_permissions': 'manager_users', 'change_password': 'manager_users',
    'update_stream': 'manage_stream', 'delete_stream': 'manage_stream', 'purge_stream': 'manage_stream',
    'update_topic': 'manage_topic', 'delete_topic': 'manage_topic', 'purge_topic': 'manage_topic',
    'create_partitions': 'manage_topic', 'delete_partitions': 'manage_topic',
    'create_consumer_group': 'get_topic', 'delete_consumer_group': 'get_topic', 'get_consumer_group': 'get_topic', 'get_consumer_groups': 'get_topic',
    'join_consumer_group': 'get_topic', 'leave_consumer_group': 'get_topic',
    'get_consumer_offset': 'poll_messages', 'store_consumer_offset': 'poll_messages', 'delete_consumer_offset': 'poll_messages',
}
EXPECTED_KEYS = {'users_permissions': ['user_id'], 'users_streams_permissions': ['user_id', 'stream_id'], 'topics': ['topic_id'],
                 'users_that_can_poll_messages_from_all_streams': ['user_id'], 'users_that_can_send_messages_to_all_streams': ['user_id'],
                 'users_that_can_poll_messages_from_specific_streams': ['user_id', 'stream_id'], 'users_that_can_send_messages_to_specific_streams': ['user_id', 'stream_id']}


def session_ops(ctx):
    out = {}
    for f, r in ctx.facts.fns.items():
        if f.startswith(SYS + '::') and len(r['params']) >= 2 and any(p == '&server::streaming::session::Session' for p in r['params'][1:2]):
            out[f.split('::')[-1]] = f
    return out


def atom_name(sim, key):
    d = sim.atoms[key]
    if d['kind'] == 'flag':
        return '%s.%s' % (d['level'], d['flag'])
    if d['kind'] == 'set':
        cont = pt._strip(d['expr'][2][0])
        return 'set.%s' % (cont[2] if cont[0] == 'field' else render(cont))
    return None


def key_params(e):
    """parameter names a key expression is built from, in order"""
    out = []
    for x in walk(e):
        if x[0] == 'param':
            out.append(x[1])
        elif x[0] in ('local', 'call', 'field') and x[0] != 'field':
            if x[0] == 'local':
                out.append('local:%s' % (x[2] or x[1]))
    return out


def canon_field(s_):
    return s_


def replay_permissions(ctx, rep, rid):
    """shared with C05: replay assigns the journalled permissions unconditionally, like the running server does"""
    rep.rule(rid, 'replay of UpdatePermissions / CreateUser stores the journalled permissions as they are, None included (the running server clears the permissions on None; a replay that keeps the old ones gives removed permissions back after a restart)', floor=2, analysis='A9+A3')
    import forms as forms_
    US = 'server::state::system::UserState'
    sites = forms_.field_assignments(ctx, US, 'permissions')
    init = [x for x in sites if x[0] == 'server::state::system::SystemState::init']
    if not init:
        rep.anchor_lost(rid, 'UserState.permissions assigned in SystemState::init')
    for fn, b_, bb_, ln, form in init:
        okf = form.endswith('.permissions') and 'UpdatePermissions' in form
        cond = [canon(e, 0, 2) for e, vals, _ in discr_literals_at(b_, bb_) if 'permissions' in canon(e, 0, 3)]
        rep.ob(rid, fn, 'permissions := journalled permissions', okf, '%s:%s' % (b_.file, ln), form[-60:] if okf else 'UserState.permissions is assigned `%s`' % form[:100])
        rep.ob(rid, fn, 'assigned unconditionally (None clears)', not cond, '%s:%s' % (b_.file, ln), None if not cond else
               'the assignment is selected by a test of %s: a journalled removal of permissions (None) is skipped at replay, so the user gets the old permissions back after a restart' % cond)
    other = [x for x in sites if x[0] != 'server::state::system::SystemState::init']
    for fn, b_, bb_, ln, form in other:
        rep.ob(rid, fn, 'writer of UserState.permissions', False, '%s:%s' % (b_.file, ln), 'UserState.permissions is written outside SystemState::init')


def run(ctx, rep):
    from props import accessors as _acc
    _acc.check(ctx, rep, 'C09', 'R09.acc')
    pt.CTX = ctx
    ops = session_ops(ctx)
    # ------------------------------------------------------------ R09.a
    rep.rule('R09.a', 'every &Session operation passes, on every path to a successful return, the success edge of ensure_authenticated or of a permission rule keyed by the session user, and of the rule listed for it', floor=44, analysis='A2')
    gate_ops = set(ops.values())
    for op, f in sorted(ops.items()):
        if op in NO_GATE or op == 'ensure_authenticated':
            rep.ob('R09.a', f, 'exempt', True, None, NO_GATE.get(op, 'the gate itself'))
            continue
        b = ctx.fn_body(f)
        exits = ok_exit_blocks(b)
        gates, rules = [], {}
        for c in b.calls:
            if not is_user_call(c):
                continue
            if c.name == AUTH:
                gates.append(c)
            elif c.name.startswith(P + '::') and ctx.fn_record(c.name) and ctx.fn_record(c.name)['ret'].startswith('std::result::Result'):
                u = b.expr_operand(c.args[1]) if len(c.args) > 1 else None
                from_session = u is not None and expr_has_call(u, 'server::streaming::session::Session::get_user_id')
                if from_session:
                    gates.append(c)
                    rules.setdefault(c.name.split('::')[-1], []).append(c)
                else:
                    rep.ob('R09.a', f, 'rule-user:' + c.name.split('::')[-1], False, c.where(),
                           'permission rule is asked about `%s`, not about the session\'s user' % render(u)[:60])
            elif c.name in gate_ops and c.name != f and c.name.split('::')[-1] not in NO_GATE:
                # a gated operation called with the same session
                if any(b.expr_operand(a) == ('param', 'session') for a in c.args[1:2]):
                    gates.append(c)
        cut = set()
        for g in gates:
            for e in ok_edges(b, g):
                cut.add(e)
        reach = b.reachable(0, avoid_edges=cut)
        bad = sorted(exits & reach)
        if bad:
            lines = explain_path(b, 0, bad[0], avoid_edges=cut)
            rep.ob('R09.a', f, 'gated', False, b.where(bad[0]), 'a successful return is reachable without passing ensure_authenticated or a permission rule (path through lines %s)' % lines)
        else:
            rep.ob('R09.a', f, 'gated', True, None, 'gates: %s' % sorted({short(g.name) for g in gates}))
        # required rule
        if op in AUTH_ONLY:
            rep.ob('R09.a', f, 'rule:none', True, None, 'authentication only: ' + AUTH_ONLY[op])
            continue
        want = RULE_OVERRIDE.get(op, op)
        rc = rules.get(want, [])
        if not rc:
            rep.ob('R09.a', f, 'rule:' + want, False, None, 'operation never calls Permissioner::%s (rules called: %s)' % (want, sorted(rules)))
            continue
        cut = set()
        for g in rc:
            for e in ok_edges(b, g):
                cut.add(e)
        reach = b.reachable(0, avoid_edges=cut)
        bad = sorted(strict_ok_exit_blocks(b) & reach) or sorted(exits & reach)
        if bad and op in SELF_EXEMPT:
            # paths that skip the rule must carry `target.id == session user id`, or return no entity at all
            allowed = set()
            for bb, t, e in switch_exprs(b):
                if t.get('ty') == 'bool' and e[0] == 'bin' and e[1] in ('Ne', 'Eq'):
                    sides = (e[2], e[3])
                    if any(expr_has_call(s, 'get_user_id') for s in sides) and any(s[0] == 'field' and s[2] == 'id' for s in sides):
                        tt, tf = bool_targets(t)
                        allowed.add((bb, tf if e[1] == 'Ne' else tt))
            reach2 = b.reachable(0, avoid_edges=cut | allowed)
            bad2 = [x for x in sorted(strict_ok_exit_blocks(b) & reach2) if not _returns_nothing(b, x)]
            rep.ob('R09.a', f, 'rule:' + want, not bad2, rc[0].where(),
                   'rule skipped only for the caller\'s own record (%s)' % SELF_EXEMPT[op] if not bad2 else 'Ok return reachable without Permissioner::%s and without the own-record test' % want)
            continue
        if bad and all(_returns_nothing(b, x) for x in bad):
            bad = []
        if bad:
            lines = explain_path(b, 0, bad[0], avoid_edges=cut)
            rep.ob('R09.a', f, 'rule:' + want, False, b.where(bad[0]), 'a successful return is reachable without a successful Permissioner::%s (path through lines %s)' % (want, lines))
        else:
            rep.ob('R09.a', f, 'rule:' + want, True, rc[0].where(), 'every data-returning Ok path passes Permissioner::%s' % want)

    rep.rule('R09.h', 'the gate itself: ensure_authenticated returns Ok only for an active session with a non-zero user id', floor=1, analysis='A3')
    eb = ctx.fn_body(AUTH)
    for blk in sorted(strict_ok_exit_blocks(eb)):
        lits = bool_literals_at(eb, blk)
        act = any(e[0] == 'call' and e[1].endswith('Session::is_active') and t for e, t, _ in lits)
        aut = any(e[0] == 'call' and e[1].endswith('Session::is_authenticated') and t for e, t, _ in lits)
        rep.ob('R09.h', AUTH, 'Ok ⇒ active ∧ authenticated', act and aut, eb.where(blk), 'Ok only under is_active() and is_authenticated()' if act and aut else 'ensure_authenticated can succeed without %s' % [n for n, v in (('is_active', act), ('is_authenticated', aut)) if not v])

    # ------------------------------------------------------------ R09.b id kinds
    rep.rule('R09.b', 'ids handed to permission rules and to entity lookups have the kind the parameter is declared for (no swapped stream/topic/user ids)', floor=150, analysis='A13')
    idkinds.check_calls(ctx, rep, 'R09.b', ['server::streaming::systems::', 'server::streaming::users::'])

    # ------------------------------------------------------------ R09.c decision tables
    rep.rule('R09.c', 'permission rule functions: grant soundness, monotonicity, key provenance, totality — decided on the exhaustive decision table', floor=40 * 3, analysis='A8')
    fns = sorted(f for f, r in ctx.facts.fns.items() if f.startswith(P + '::') and r['mod'].startswith('server::streaming::users::permissioner_rules'))
    tables = {}
    total_leaves = 0
    for f in fns:
        name = f.split('::')[-1]
        sim = pt.Sim(ctx, f)
        try:
            leaves = sim.run()
        except pt.Undecidable as e:
            rep.ob('R09.c', f, 'table', False, None, 'decision table could not be extracted: %s' % e)
            continue
        tables[name] = (sim, leaves)
        total_leaves += len(leaves)
    rep.note('decision tables: %d functions, %d leaves in total (exhaustive)' % (len(tables), total_leaves))
    for name, (sim, leaves) in sorted(tables.items()):
        f = P + '::' + name
        deleg = [l for l in leaves if isinstance(l[1], tuple) and l[1][0] == 'delegate']
        if deleg:
            # a pure delegator: one leaf, no atoms, arguments passed through in order
            _, (_, callee, args, ln), _ = deleg[0]
            cname = callee.split('::')[-1]
            crec = ctx.fn_record(callee)
            want = DELEGATES.get(name)
            chain = cname
            # follow chains like create_partitions -> update_topic -> manage_topic
            seen = {name}
            while chain in DELEGATES and chain not in GRANTS and chain not in seen:
                seen.add(chain)
                chain = DELEGATES[chain]
            ok_family = want is not None and (cname == want or chain == want or DELEGATES.get(cname) == want)
            rep.ob('R09.c', f, 'delegates-to', ok_family and len(leaves) == 1, '%s:%s' % (sim.body.file, ln),
                   'delegates to %s (family %s)' % (cname, want) if ok_family else 'delegates to Permissioner::%s, but the documented rule family for %s is %s' % (cname, name, want))
            pn = crec['pnames'][1:] if crec else []
            passed = [a[1] if a[0] == 'param' else render(a) for a in args[1:]]
            rep.ob('R09.c', f, 'args-pass-through', passed == pn, '%s:%s' % (sim.body.file, ln),
                   'passes %s' % passed if passed == pn else 'passes %s to parameters %s' % (passed, pn))
            rep.ob('R09.c', f, 'total', True, None, 'no panic path')
            continue
        grants = GRANTS.get(name)
        if grants is None:
            rep.ob('R09.c', f, 'grant-soundness', False, None, 'permission rule `%s` is not in the granting table of the checker (new rule: add its documented granting set)' % name)
            continue
        # (i) grant soundness
        bad = []
        for A, out, trail in leaves:
            if out != 'ok':
                continue
            true_atoms = {atom_name(sim, k) for k, v in A.items() if v and atom_name(sim, k)}
            if not (true_atoms & grants):
                bad.append(sorted(true_atoms))
        rep.ob('R09.c', f, 'grant-soundness', not bad, None,
               'every Ok leaf (%d) holds a permission from the documented granting set' % sum(1 for l in leaves if l[1] == 'ok') if not bad else
               'an Ok outcome is reached holding only %s, none of which grants %s' % (bad[0], name))
        # (iv) totality
        pan = [(A, trail) for A, out, trail in leaves if out == 'panic']
        rep.ob('R09.c', f, 'total', not pan, '%s:%s' % (sim.body.file, pan[0][1][-1][1]) if pan and pan[0][1] else None,
               'no panic leaf' if not pan else 'evaluation panics (%s) for a user with: %s' % (pan[0][1][-1][0] if pan[0][1] else 'diverging call',
                                                                                               {pt.describe_atom(sim, k): v for k, v in pan[0][0].items() if k[0] == 'has'}))
        # (ii) monotonicity over all total assignments
        atoms = sorted(sim.atoms)
        n = len(atoms)
        viol = None
        if n <= 14:
            for mask in range(1 << n):
                A = {atoms[i]: bool(mask >> i & 1) for i in range(n)}
                o = pt.lookup(leaves, A)
                if o != 'ok':
                    continue
                for i in range(n):
                    if not A[atoms[i]]:
                        A2 = dict(A)
                        A2[atoms[i]] = True
                        o2 = pt.lookup(leaves, A2)
                        if o2 != 'ok':
                            viol = (pt.describe_atom(sim, atoms[i]), o2)
                            break
                if viol:
                    break
            rep.ob('R09.c', f, 'monotone', viol is None, None,
                   'checked all %d assignments of %d atoms: granting more never turns Ok into a refusal' % (1 << n, n) if viol is None else
                   'granting `%s` in addition turns an allowed request into %s' % viol)
        else:
            rep.ob('R09.c', f, 'monotone', False, None, 'too many atoms (%d) for exhaustive evaluation' % n)
        # (iii) key provenance
        wrong = []
        for k, d in sim.atoms.items():
            for cont, kexpr in d['keys']:
                exp = EXPECTED_KEYS.get(cont)
                if exp is None:
                    continue
                got = key_params(kexpr)
                if got != exp:
                    wrong.append('%s keyed by %s (expected %s)' % (cont, got, exp))
        rep.ob('R09.c', f, 'key-provenance', not wrong, None,
               'every lookup is keyed by the request\'s own ids' if not wrong else 'lookup keyed by the wrong id: %s' % sorted(set(wrong))[0])

    # ------------------------------------------------------------ R09.d denormalised tables
    rep.rule('R09.d', 'the denormalised permission tables follow the records (init inserts under the matching flag, delete clears all six tables, update = delete then init, System reaches them before Ok)', floor=14, analysis='A2+A3')
    ib = ctx.fn_body(P + '::init_permissions_for_user')
    want_flag = {'users_that_can_poll_messages_from_all_streams': ('GlobalPermissions', 'poll_messages'),
                 'users_that_can_send_messages_to_all_streams': ('GlobalPermissions', 'send_messages'),
                 'users_that_can_poll_messages_from_specific_streams': ('StreamPermissions', 'poll_messages'),
                 'users_that_can_send_messages_to_specific_streams': ('StreamPermissions', 'send_messages')}
    seen = set()
    for c in ib.calls:
        if c.name.split('::')[-1] != 'insert' or not is_user_call(c):
            continue
        tgt = ib.expr_operand(c.args[0])
        if tgt[0] != 'field' or tgt[3] != P:
            continue
        fld = tgt[2]
        seen.add(fld)
        if fld in want_flag:
            adt, flag = want_flag[fld]
            ok = any(e[0] == 'field' and e[2] == flag and e[3].endswith(adt) and t for e, t, _ in bool_literals_at(ib, c.bb))
            rep.ob('R09.d', P + '::init_permissions_for_user', 'insert ' + fld, ok, c.where(),
                   'inserted under %s.%s' % (adt, flag) if ok else 'set `%s` is filled without the dominating test of %s.%s' % (fld, adt, flag))
        else:
            lits = [e for e, t, _ in bool_literals_at(ib, c.bb) if e[0] == 'field' and e[3].startswith('iggy::models::permissions::')]
            rep.ob('R09.d', P + '::init_permissions_for_user', 'insert ' + fld, not lits, c.where(),
                   'record stored unconditionally' if not lits else 'record insert depends on a permission flag')
    for fld in list(want_flag) + ['users_permissions', 'users_streams_permissions']:
        if fld not in seen:
            rep.ob('R09.d', P + '::init_permissions_for_user', 'insert ' + fld, False, None, 'table `%s` is never filled' % fld)
    db = ctx.fn_body(P + '::delete_permissions_for_user')
    cleared = {}
    for c in db.calls:
        if c.name.split('::')[-1] in ('remove', 'retain') and is_user_call(c):
            tgt = db.expr_operand(c.args[0])
            if tgt[0] == 'field' and tgt[3] == P:
                cleared.setdefault(tgt[2], []).append(c)
    exits = {b_ for b_ in db.reach if db.term(b_).get('t') == 'return'}
    for fld in list(want_flag) + ['users_permissions', 'users_streams_permissions']:
        cs = cleared.get(fld, [])
        ok = bool(cs) and not (exits & db.reachable(0, avoid_blocks={c.bb for c in cs}))
        rep.ob('R09.d', P + '::delete_permissions_for_user', 'clear ' + fld, ok, cs[0].where() if cs else None,
               'cleared on every path' if ok else 'table `%s` is not cleared when a user\'s permissions are deleted or replaced: a revoked grant keeps working' % fld)
    # the clearing call selects exactly the entries of this user: remove(&user_id) / retain(|key| key.<position of the user id in the inserted key> != user_id)
    keypos = {}
    for c in ib.calls:
        if c.name.split('::')[-1] != 'insert' or not is_user_call(c) or len(c.args) < 2:
            continue
        tgt = ib.expr_operand(c.args[0])
        if tgt[0] != 'field' or tgt[3] != P:
            continue
        k = ib.expr_operand(c.args[1])
        if k[0] == 'tuple':
            pos = [i for i, x in enumerate(k[1]) if x == ('param', 'user_id')]
            keypos[tgt[2]] = pos[0] if len(pos) == 1 else None
        else:
            keypos[tgt[2]] = 'whole' if k == ('param', 'user_id') else None
    for fld, cs in sorted(cleared.items()):
        for c in cs:
            kp = keypos.get(fld)
            if c.name.split('::')[-1] == 'remove':
                k = db.expr_operand(c.args[1])
                ok = kp == 'whole' and k == ('param', 'user_id')
                rep.ob('R09.d', P + '::delete_permissions_for_user', 'selects the user\'s entries in ' + fld, ok, c.where(),
                       'remove(&user_id)' if ok else 'the entry removed from `%s` is keyed by `%s`, not by the user id the table is keyed by' % (fld, render(k)))
            else:
                clo = db.expr_operand(c.args[1])
                forms_ = set()
                if clo[0] == 'closure' and ctx.has(clo[1]):
                    cb_ = ctx.body(clo[1])
                    for blk in sorted(cb_.reach):
                        for s_ in cb_.stmts(blk):
                            if s_.get('lhs') == [0]:
                                forms_.add(canon(cb_._pexpr_rvalue(s_['rv'], 0, frozenset())))
                want = '(arg2.%s != user_id)' % kp
                ok = isinstance(kp, int) and forms_ == {want}
                rep.ob('R09.d', P + '::delete_permissions_for_user', 'selects the user\'s entries in ' + fld, ok, c.where(),
                       'retain(key.%s != user_id), the user id being component %s of the inserted key' % (kp, kp) if ok else
                       'the entries kept in `%s` are selected by `%s`; the user id is component %s of the key that init_permissions_for_user inserts (expected `%s`): another user\'s grants are dropped and this user\'s revoked grants survive' % (fld, sorted(forms_), kp, want))
    ub = ctx.fn_body(P + '::update_permissions_for_user')
    dc = ub.find_calls(P + '::delete_permissions_for_user')
    ic = ub.find_calls(P + '::init_permissions_for_user')
    ok = bool(dc and ic) and ub.dominates(dc[0].bb, ic[0].bb) and dc[0].bb != ic[0].bb
    rep.ob('R09.d', P + '::update_permissions_for_user', 'delete-then-init', ok, dc[0].where() if dc else None, 'old tables are cleared before the new ones are built' if ok else 'update does not clear the old tables before initialising the new ones')
    for op, callee in (('update_permissions', 'update_permissions_for_user'), ('delete_user', 'delete_permissions_for_user'), ('create_user', 'init_permissions_for_user')):
        b = ctx.fn_body(SYS + '::' + op)
        cs = b.find_calls(P + '::' + callee)
        ok = bool(cs) and not (strict_ok_exit_blocks(b) & b.reachable(0, avoid_blocks={c.bb for c in cs}))
        rec = ctx.fn_record(SYS + '::' + op)
        excl = rec and rec['params'][0].startswith('&mut ')
        rep.ob('R09.d', SYS + '::' + op, 'reaches ' + callee, ok and excl, cs[0].where() if cs else None,
               'tables rebuilt before Ok, under &mut System' if ok and excl else 'Ok is reachable without %s (or the operation is not exclusive)' % callee)

    # ------------------------------------------------------------ R09.i the permission record survives its byte encoding
    rep.rule('R09.i', 'a permission record keeps every flag through its byte encoding (binary requests, journal replay): Permissions::to_bytes emits the flags in the order Permissions::from_bytes stores them', floor=2, analysis='A11')
    import wire
    PW = '<iggy::models::permissions::Permissions as iggy::bytes_serializable::BytesSerializable>::'
    if not ctx.has(PW + 'to_bytes') or not ctx.has(PW + 'from_bytes'):
        rep.anchor_lost('R09.i', 'Permissions codec')
    else:
        nw, nr = wire.named_writer(ctx, PW + 'to_bytes'), wire.named_reader(ctx, PW + 'from_bytes')
        okn, x, y = wire.named_agreement(nw, nr)
        rep.ob('R09.i', PW + 'to_bytes', 'flag order written = flag order read', okn, None, ' '.join(x)[:160] if okn else
               'Permissions::to_bytes emits [%s] but from_bytes stores the values as [%s]: a flag is encoded from / decoded into another one' % (' '.join(x), ' '.join(y)))
        flags = {f for f in x if f.startswith(('manage_', 'read_', 'poll_', 'send_'))}
        rep.ob('R09.i', PW + 'to_bytes', 'all 14 distinct flag names covered', len(flags) >= 14 and len(x) >= 20, None, '%d flag positions, %d distinct flags' % (len(x), len(flags)))

    # ------------------------------------------------------------ R09.k removed permissions stay removed after a restart
    replay_permissions(ctx, rep, 'R09.k')

    # ------------------------------------------------------------ R09.l revoked HTTP tokens stay revoked: one time unit for exp, revocation expiry and the cleaner
    rep.rule('R09.l', 'a logged-out (revoked) access token stays refused until it expires: token expiry, revocation expiry and the clock the cleaner compares them with are all in seconds; a revoked token is dropped only when expiry <= now', floor=5, analysis='A13 units + A10')
    import forms as forms_
    J = 'server::http::jwt::jwt_manager::JwtManager'
    CL = 'server::http::jwt::cleaner::start_expired_tokens_cleaner'
    forms_.check_call_args(ctx, rep, 'R09.l', {CL: {'delete_expired_revoked_tokens': ['IggyTimestamp::to_secs(IggyTimestamp::now())']}}, skip_self=True, cd=3)
    ag = forms_.aggregate_forms(ctx, J + '::generate', 'server::http::jwt::json_web_token::JwtClaims')
    if not ag:
        rep.anchor_lost('R09.l', 'JwtClaims built in JwtManager::generate')
    else:
        f_ = ag[0][0]
        for fld in ('iat', 'exp', 'nbf'):
            v = f_.get(fld, '')
            ok = 'IggyTimestamp::to_secs(IggyTimestamp::now())' in v and 'micros' not in v and 'millis' not in v
            rep.ob('R09.l', J + '::generate', 'claim %s in seconds' % fld, ok, ag[0][1], v[:90] if ok else 'claim `%s` is computed as `%s`' % (fld, v[:120]))
    check_comparisons(ctx, rep, 'R09.l', {J + '::delete_expired_revoked_tokens': ['re:^\\(.*\\.1 <= now\\)$']})
    rf_ = forms_.aggregate_forms(ctx, J + '::refresh_token', 'server::http::jwt::json_web_token::RevokedAccessToken')
    okr = bool(rf_) and '.claims.exp' in canon_field(rf_[0][0].get('expiry', ''))
    rep.ob('R09.l', J + '::refresh_token', 'revocation expiry = exp claim of the token', okr, rf_[0][1] if rf_ else None, None if okr else 'the revoked token is stored with expiry `%s`' % (rf_[0][0].get('expiry') if rf_ else None))

    # ------------------------------------------------------------ R09.e root protected
    rep.rule('R09.e', 'the root user can be neither deleted nor stripped of permissions: the mutation is dominated by the !is_root() edge', floor=3, analysis='A3')
    for op, sinks in (('delete_user', ('remove', 'delete_permissions_for_user')), ('update_permissions', ('update_permissions_for_user', 'permissions='))):
        b = ctx.fn_body(SYS + '::' + op)
        targets = []
        for c in b.calls:
            if is_user_call(c) and c.name.split('::')[-1] in sinks and (c.name.startswith(P) or 'HashMap' in c.name):
                targets.append((c.bb, c.name.split('::')[-1], c.where()))
        for blk in sorted(b.reach):
            for s in b.stmts(blk):
                lhs = s.get('lhs')
                if lhs and place_fields(lhs) and place_fields(lhs)[-1] == ('server::streaming::users::user::User', 'permissions'):
                    targets.append((blk, 'user.permissions =', '%s:%s' % (b.file, s.get('ln'))))
        if not targets:
            rep.anchor_lost('R09.e', 'mutation sinks in System::' + op)
        for blk, what, where in targets:
            ok = any(e[0] == 'call' and e[1].endswith('User::is_root') and t is False for e, t, _ in bool_literals_at(b, blk))
            rep.ob('R09.e', SYS + '::' + op, what, ok, where, 'only on the !is_root() edge' if ok else 'the root user is not protected: `%s` is reachable without the is_root() test' % what)

    # ------------------------------------------------------------ R09.f handlers cannot go around the gate
    rep.rule('R09.f', 'binary and HTTP handlers reach catalogue data only through gated operations (no ungated accessor, no direct field access)', floor=1, analysis='A1')
    UNGATED = re.compile(r'^' + re.escape(SYS) + r'::(get_stream|get_stream_mut|get_streams|get_user|get_user_mut|try_get_stream|try_get_user|get_stats)$')
    n_handlers = 0
    for d in sorted(ctx.facts.body_defs()):
        if not (d.startswith('server::binary::handlers::') or (d.startswith('server::http::') and not d.startswith('server::http::jwt') and not d.startswith('server::http::http_server'))):
            continue
        b = ctx.body(d)
        n_handlers += 1
        fn = ctx.user_fn_of(d)
        for c in b.calls:
            if is_user_call(c) and UNGATED.match(c.name):
                # public HTTP endpoints are declared public by the server
                pub = fn in ('server::http::system::get_stats', 'server::http::system::get_metrics', 'server::http::system::get_ping')
                # or the handler performed the gate itself: authentication and a permission rule about the session user both succeeded before
                auth = [g for g in b.calls if g.name == AUTH and success_dominates(b, g, c.bb)]
                perm = [g for g in b.calls if g.name.startswith(P + '::') and len(g.args) > 1 and expr_has_call(b.expr_operand(g.args[1]), 'server::streaming::session::Session::get_user_id')
                        and success_dominates(b, g, c.bb)]
                ok = pub or (bool(auth) and bool(perm))
                rep.ob('R09.f', fn, 'calls ' + c.name.split('::')[-1], ok, c.where(),
                       'declared public over HTTP' if pub else ('after ensure_authenticated and Permissioner::%s succeeded' % perm[0].name.split('::')[-1] if ok else
                       'handler answers from `System::%s`, which takes no session: neither authentication nor a permission is checked' % c.name.split('::')[-1]))
        for blk in sorted(b.reach):
            for adt, f_, ln in block_field_accesses(b, blk):
                if adt == SYS and f_ in ('streams', 'users', 'streams_ids'):
                    rep.ob('R09.f', fn, 'field ' + f_, False, '%s:%s' % (b.file, ln), 'handler touches System.%s directly' % f_)
    rep.ob('R09.f', '<handlers>', 'scanned', n_handlers >= 100, None, '%d handler bodies scanned' % n_handlers)

    # ------------------------------------------------------------ R09.g binary handlers answer only after a gate
    rep.rule('R09.g', 'every binary command handler except ping/login sends a success response only after a gated operation or ensure_authenticated succeeded', floor=40, analysis='A2')
    SEND_OK = ('server::binary::sender::SenderKind::send_ok_response', 'server::binary::sender::SenderKind::send_empty_ok_response')
    for name, d in sorted(binary_handlers(ctx).items()):
        if name in ('ping', 'login_user', 'login_with_personal_access_token'):
            continue
        b = ctx.fn_body(d)
        data_sends = {c.bb for c in b.calls if c.matches(SEND_OK[0])}
        empty_sends = {c.bb for c in b.calls if c.matches(SEND_OK[1])}
        if not (data_sends | empty_sends):
            rep.ob('R09.g', d, 'responds', False, None, 'no success response found in the handler')
            continue
        gates = [c for c in b.calls if is_user_call(c) and (c.name == AUTH or (c.name in gate_ops and c.name.split('::')[-1] not in NO_GATE))]
        cut = set()
        for g in gates:
            for e in ok_edges(b, g):
                cut.add(e)
        reach = b.reachable(0, avoid_edges=cut)
        bad = sorted(data_sends & reach)
        # an empty OK answered on the *failure* edge of the gated operation (request refused, nothing disclosed, but not told so) is reported separately
        reach_e = b.reachable(0, avoid_blocks={g.bb for g in gates})
        bad_e = sorted(empty_sends & reach_e)
        lenient = sorted((empty_sends & reach) - set(bad_e))
        if lenient:
            rep.ob('R09.g', d, 'empty-ok-on-refusal', False, b.where(lenient[0]),
                   'the handler answers an empty OK on the failure edge of its gated operation: an unauthenticated or unauthorised request is not refused with an error')
        bad = bad + bad_e
        rep.ob('R09.g', d, 'gated-response', not bad, b.where(bad[0]) if bad else None,
               'data responses only after success of %s; empty responses only after it was consulted' % sorted({short(g.name) for g in gates}) if not bad else
               'a success response is sent without any authenticated/permission-checked operation having succeeded (gates seen: %s)' % sorted({short(g.name) for g in gates}))

    # ------------------------------------------------------------ R09.m a refused request leaves no trace in the journal
    from props.c05 import refused_requests_leave_no_journal_entry
    refused_requests_leave_no_journal_entry(ctx, rep, 'R09.m')


def _returns_nothing(body, bb):
    """the Ok value written at bb carries no entity (Ok(None) / Ok(()) / Ok(vec![]))"""
    for s in body.stmts(bb):
        if s.get('lhs') == [0] and s['rv']['r'] == 'agg':
            ops = s['rv']['ops']
            if not ops:
                return True
            e = body.expr_operand(ops[0])
            if e[0] == 'agg' and e[2] == 'None':
                return True
            if e[0] == 'const' and e[1] == '()':
                return False
    return False
