"""C10 — only valid, current credentials authenticate; secrets never stored in clear (structural clauses)."""
from lib import *
from mir import render, walk, short, canon
from engine import AnchorLost
import forms

TECHNIQUE = 'edge-cut reachability for the login gates, def-use taint from raw secrets to the journal and the user table with hash functions as sanitisers, provenance forms, must-reach for logout/deletion (A1, A2, A3, A9)'
EXPLANATION = ('Decides on the MIR of the current tree: a login returns Ok / marks the session only through the is_active()==true edge and, when a password is given, the verify_password==true edge; '
               'only the token login passes no password, and it does so only after the token digest was found, is not expired and its owner exists; a password change stores hash_password(new) only '
               'after verify_password(current)==true; everything journalled or stored in the user table that derives from a raw password or raw token passes through hash_password / hash_token '
               '(current_password is journalled as the empty string); logout clears the session user, deleting a user deletes its clients and permissions; replay computes token expiry from the '
               'entry timestamp and drops tokens expired at replay time. Not decided: temporal statement over all histories; bcrypt/blake3 themselves; clock behaviour.')
ASSUMPTIONS = ['crypto::hash_password / PersonalAccessToken::hash_token are one-way (library contract)', 'log lines are outside the data files the property names']

U = 'server::streaming::users::user::User'
LOGIN = SYS + '::login_user_with_credentials'
PATLOGIN = SYS + '::login_with_personal_access_token'
SANITIZERS = ('hash_password', 'hash_token')
RAW_FIELDS = ('password', 'current_password', 'new_password', 'token')


def tainted_leaks(e, clean=False, path=''):
    """sub-expressions that carry a raw secret (a field/param named like a secret, or the raw token returned by
    create_personal_access_token) not wrapped in a sanitiser"""
    out = []
    if not isinstance(e, tuple) or not e:
        return out
    k = e[0]
    if k == 'call':
        last = e[1].split('::')[-1]
        if last in SANITIZERS:
            return out
        if last == 'create_personal_access_token' and not clean:
            out.append('raw token returned by create_personal_access_token')
            return out
        if last in ('create_root_user',):
            return out   # builds the root user with an already hashed password (checked separately)
        for a in e[2]:
            out += tainted_leaks(a, clean, path)
        return out
    if k == 'field' and e[2] in RAW_FIELDS and not clean and not (len(e) > 3 and e[3].endswith('PersonalAccessToken')):
        base = e[1]
        if not (base[0] == 'call' and base[1].split('::')[-1] == 'create_root_user'):
            out.append(render(e)[:60])
        return out
    if k in ('param', 'upvar', 'local') and (e[1] if k != 'local' else e[2]) in RAW_FIELDS and not clean:
        out.append(render(e)[:60])
        return out
    for x in e[1:]:
        if isinstance(x, tuple):
            if x and isinstance(x[0], str):
                out += tainted_leaks(x, clean, path)
            else:
                for y in x:
                    if isinstance(y, tuple):
                        if y and isinstance(y[0], str) and len(y) == 2 and isinstance(y[1], tuple):
                            # (fieldname, expr) of an aggregate: a whole `command` copied into the journal carries its secret fields
                            out += tainted_leaks(y[1], clean, path)
                        else:
                            out += tainted_leaks(y, clean, path)
    return out


SECRET_TYPES = {'iggy::users::change_password::ChangePassword': ['current_password', 'new_password'], 'iggy::users::create_user::CreateUser': ['password'],
                'iggy::users::login_user::LoginUser': ['password']}


def run(ctx, rep):
    # ------------------------------------------------------------ R10.a login gate
    rep.rule('R10.a', 'login succeeds only through is_active()==true and, with a password, verify_password==true; only the token login passes no password and only after digest lookup, expiry and owner checks', floor=6, analysis='A2+A3')
    b = ctx.fn_body(LOGIN)
    exits = ok_exit_blocks(b)
    marks = {c.bb for c in b.calls if c.name.endswith('Session::set_user_id')}
    act = vp = None
    for bb, t, e in switch_exprs(b):
        if t.get('ty') != 'bool':
            continue
        ee, tr = norm_bool(e, True)
        if ee[0] == 'call' and ee[1].endswith('User::is_active'):
            tt, tf = bool_targets(t)
            act = (bb, tt if tr else tf, tf if tr else tt)
        if ee[0] == 'call' and ee[1].endswith('crypto::verify_password'):
            tt, tf = bool_targets(t)
            vp = (bb, tt if tr else tf, tf if tr else tt, ee)
    if act is None or vp is None:
        rep.anchor_lost('R10.a', 'is_active / verify_password tests in login_user_with_credentials')
    else:
        bad = (exits | marks) & b.reachable(0, avoid_edges={(act[0], act[1])})
        rep.ob('R10.a', LOGIN, 'active user only', not bad, b.where(act[0]), 'Ok and set_user_id only through is_active()==true' if not bad else 'login can succeed for an inactive user')
        # password given => verified: from the Some(password) edge every success passes the verify==true edge
        some_edge = None
        for bb, t, e in switch_exprs(b):
            if e[0] == 'discr' and e[1] in (('param', 'password'), ('upvar', 'password')):
                arms = dict((v, x) for v, x in t['arms'])
                some_edge = arms.get(1, t['else'])
        if some_edge is None:
            rep.anchor_lost('R10.a', 'match on the optional password')
        else:
            bad = (exits | marks) & b.reachable(some_edge, avoid_edges={(vp[0], vp[1])})
            rep.ob('R10.a', LOGIN, 'given password verified', not bad, b.where(vp[0]), 'with a password, success only through verify_password==true' if not bad else 'login can succeed although a wrong password was given')
            a = vp[3][2]
            ok = len(a) == 2 and a[0] == ('param', 'password') or (len(a) == 2 and has_var(a[0], 'password'))
            ok = ok and any(x[0] == 'field' and x[2] == 'password' and x[3] == U for x in walk(a[1]))
            rep.ob('R10.a', LOGIN, 'verified against the stored hash of that user', ok, b.where(vp[0]), render(vp[3])[:120])
    # who passes None
    for d, c in callers_of(ctx, LOGIN):
        cb = ctx.body(d)
        pw = cb.expr_operand(c.args[2])
        fn = ctx.user_fn_of(d)
        is_none = pw[0] == 'agg' and pw[2] == 'None'
        rep.ob('R10.a', fn, 'password argument', (not is_none) or fn == PATLOGIN, c.where(), 'passes %s' % ('no password (token login)' if is_none else 'a password'))
    pb = ctx.fn_body(PATLOGIN)
    lc = [c for c in pb.calls if c.name == LOGIN]
    if not lc:
        rep.anchor_lost('R10.a', 'login_user_with_credentials call in the token login')
    else:
        l = lc[0]
        lits = bool_literals_at(pb, l.bb)
        found = any(e[0] == 'call' and e[1].split('::')[-1] == 'is_none' and not t for e, t, _ in lits)
        notexp = any(e[0] == 'call' and e[1].endswith('PersonalAccessToken::is_expired') and not t for e, t, _ in lits)
        owner = any(success_dominates(pb, g, l.bb) for g in pb.calls if g.name == SYS + '::get_user')
        rep.ob('R10.a', PATLOGIN, 'token found', found, l.where(), None if found else 'token login proceeds although no token with that digest exists')
        rep.ob('R10.a', PATLOGIN, 'token not expired', notexp, l.where(), None if notexp else 'token login proceeds without the is_expired(now)==false test')
        rep.ob('R10.a', PATLOGIN, 'owner exists', owner, l.where(), None if owner else 'token login proceeds without resolving the owning user')
        # lookup keyed by the digest
        gets = [c for c in pb.calls if c.name.split('::')[-1] == 'get' and is_user_call(c) and any(x[0] == 'field' and x[2] == 'personal_access_tokens' for x in walk(pb.expr_operand(c.args[0])))]
        okk = bool(gets) and expr_has_call(pb.expr_operand(gets[0].args[1]), 'hash_token')
        rep.ob('R10.a', PATLOGIN, 'lookup by digest', okk, gets[0].where() if gets else None, None if okk else 'token table is not looked up by hash_token(token)')

    # ------------------------------------------------------------ R10.b change password
    rep.rule('R10.b', 'a password change stores hash_password(new) only after verify_password(current, stored)==true', floor=2, analysis='A2+A9')
    cb = ctx.fn_body(SYS + '::change_password')
    stores = []
    for blk in sorted(cb.reach):
        for s in cb.stmts(blk):
            lhs = s.get('lhs')
            if lhs and len(lhs) > 1 and place_fields(lhs) and place_fields(lhs)[-1] == (U, 'password'):
                stores.append((blk, s))
    if not stores:
        rep.anchor_lost('R10.b', 'store to User.password in change_password')
    for blk, s in stores:
        ok = any(e[0] == 'call' and e[1].endswith('crypto::verify_password') and t and has_var(e[2][0], 'current_password') for e, t, _ in bool_literals_at(cb, blk))
        rep.ob('R10.b', SYS + '::change_password', 'current password verified', ok, '%s:%s' % (cb.file, s.get('ln')), None if ok else 'the password is replaced without verify_password(current_password, ..)==true')
        f = canon(cb._pexpr_rvalue(s['rv'], 0, frozenset()))
        rep.ob('R10.b', SYS + '::change_password', 'stores the hash of the new password', f == 'crypto::hash_password(new_password)', '%s:%s' % (cb.file, s.get('ln')), 'User.password = %s' % f)

    # ------------------------------------------------------------ R10.c only digests reach the journal and the user table
    rep.rule('R10.c', 'nothing derived from a raw password or raw token reaches the journal or the user table without hash_password / hash_token', floor=40, analysis='A9 taint')
    for d, c in callers_of(ctx, STATE_APPLY):
        if d.startswith('server::state::') or d.startswith('<server::state::'):
            continue
        jb = ctx.body(d)
        e = jb.pexpr_operand(c.args[2], 0, frozenset(), (c.bb, "t"))
        leaks = tainted_leaks(e)
        # a secret-bearing command copied wholesale (`..command` / `EntryCommand::X(command)`) leaks its secret fields
        for x in walk(e):
            if x[0] == 'agg' and x[1] in SECRET_TYPES:
                names = {n for n, _ in x[3]}
                for n, v in x[3]:
                    if n in SECRET_TYPES[x[1]] and not (v[0] == 'call' and v[1].split('::')[-1] in SANITIZERS) and not (v[0] == 'const' and v[1] in ('""', '')) \
                            and not (v[0] == 'call' and v[1].split('::')[-1] == 'create_root_user') and not (v[0] == 'field' and v[1][0] == 'call' and v[1][1].split('::')[-1] == 'create_root_user'):
                        leaks.append('%s.%s = %s' % (x[1].split('::')[-1], n, render(v)[:50]))
        wholesale = [x for x in walk(e) if x[0] in ('param', 'upvar', 'local') and (jb.locals and False)]
        fn = ctx.user_fn_of(d)
        var = e[2] if e[0] == 'agg' else '?'
        # wholesale copy of a command whose type has secret fields
        if e[0] == 'agg' and e[3]:
            inner = e[3][0][1]
            ity = _type_of_expr(ctx, jb, inner)
            if ity in SECRET_TYPES and inner[0] != 'agg':
                leaks.append('whole %s (with its %s) is journalled as received' % (ity.split('::')[-1], '/'.join(SECRET_TYPES[ity])))
        leaks = sorted(set(leaks))
        rep.ob('R10.c', fn, 'journal ' + var, not leaks, c.where(), 'only digests / non-secret fields are journalled' if not leaks else 'a raw secret reaches the state journal: %s' % '; '.join(leaks))
    for fn, b_, bb, ln, form in forms.field_assignments(ctx, U, 'password'):
        ok = form.startswith('crypto::hash_password(') or 'password_hash' in form
        rep.ob('R10.c', fn, 'User.password = %s' % form, ok, '%s:%s' % (b_.file, ln), None if ok else 'User.password is assigned something that is not a hash')
    # constructor sites of User with a password: User::new(.., password, ..) hashes inside; with_password / from state take a hash
    for d, c in callers_of(ctx, 'server::streaming::users::user::User::new'):
        ub = ctx.body(d)
        pw = ub.pexpr_operand(c.args[2], 0, frozenset(), (c.bb, "t")) if len(c.args) > 2 else None
        nb = ctx.fn_body('server::streaming::users::user::User::new')
        hashed_inside = any(x.name.endswith('crypto::hash_password') for x in nb.calls) or any(x.name.endswith('User::with_password') for x in nb.calls)
        rep.ob('R10.c', ctx.user_fn_of(d), 'User::new hashes the password', hashed_inside, c.where(), 'User::new → hash_password' if hashed_inside else 'User::new stores the password it is given without hashing')
    # PAT registry keyed by / storing only the digest
    tb = ctx.fn_body(SYS + '::create_personal_access_token')
    ins = [c for c in tb.calls if c.name.split('::')[-1] == 'insert' and is_user_call(c) and any(x[0] == 'field' and x[2] == 'personal_access_tokens' for x in walk(tb.expr_operand(c.args[0])))]
    if not ins:
        rep.anchor_lost('R10.c', 'personal_access_tokens.insert in create_personal_access_token')
    else:
        key = tb.pexpr_operand(ins[0].args[1])
        okk = not tainted_leaks(key) and (has_call_last(key, 'hash') or any(x[0] == 'field' and x[2] in ('token', 'hash', 'token_hash') for x in walk(key)) or has_call_last(key, 'new'))
        rep.ob('R10.c', SYS + '::create_personal_access_token', 'registry keyed by the digest', okk, ins[0].where(), canon(key, 0, 2)[:120])

    # ------------------------------------------------------------ R10.d logout and deletion end validity
    rep.rule('R10.d', 'logout de-authenticates the connection; deleting a user removes its clients; deleting a token removes its digest', floor=4, analysis='A2')
    hb = ctx.fn_body('server::binary::handlers::users::logout_user_handler::handle')
    lo = [c for c in hb.calls if c.name == SYS + '::logout_user']
    cl = [c for c in hb.calls if c.name.endswith('Session::clear_user_id')]
    ok = bool(lo and cl) and success_dominates(hb, lo[0], cl[0].bb)
    sends = {c.bb for c in hb.calls if c.name.endswith('send_empty_ok_response') or c.name.endswith('send_ok_response')}
    ok2 = bool(cl) and not (sends & hb.reachable(0, avoid_blocks={cl[0].bb}))
    rep.ob('R10.d', 'server::binary::handlers::users::logout_user_handler::handle', 'session cleared after logout', ok and ok2, cl[0].where() if cl else None,
           'clear_user_id after System::logout_user succeeded and before the response' if ok and ok2 else 'a logout is acknowledged without clearing the session\'s user id: the connection stays authenticated')
    lb = ctx.fn_body(SYS + '::logout_user')
    cu = [c for c in lb.calls if c.name.endswith('ClientManager::clear_user_id')]
    rep.ob('R10.d', SYS + '::logout_user', 'client record cleared', bool(cu), cu[0].where() if cu else None, None if cu else 'logout no longer clears the client\'s user id')
    du = ctx.fn_body(SYS + '::delete_user')
    dc = [c for c in du.calls if c.name.endswith('ClientManager::delete_clients_for_user')]
    ok = bool(dc) and not (strict_ok_exit_blocks(du) & du.reachable(0, avoid_edges=set(ok_edges(du, dc[0]))))
    rep.ob('R10.d', SYS + '::delete_user', 'clients of the user deleted', ok, dc[0].where() if dc else None, None if ok else 'a user can be deleted while its connections stay authenticated')
    dt = ctx.fn_body(SYS + '::delete_personal_access_token')
    rm = [c for c in dt.calls if c.name.split('::')[-1] == 'remove' and is_user_call(c) and any(x[0] == 'field' and x[2] == 'personal_access_tokens' for x in walk(dt.expr_operand(c.args[0])))]
    ok = bool(rm) and not (strict_ok_exit_blocks(dt) & dt.reachable(0, avoid_blocks={rm[0].bb}))
    rep.ob('R10.d', SYS + '::delete_personal_access_token', 'token removed', ok, rm[0].where() if rm else None, None if ok else 'Ok is reachable without removing the token')

    # ------------------------------------------------------------ R10.e replay
    rep.rule('R10.e', 'replay computes token expiry from the journal entry and drops tokens that are expired at replay time', floor=2, analysis='A3+A9')
    ib = ctx.fn_body('server::state::system::SystemState::init')
    ce = [c for c in ib.calls if c.name.endswith('PersonalAccessToken::calculate_expiry_at')]
    if not ce:
        rep.anchor_lost('R10.e', 'calculate_expiry_at in replay')
    else:
        a0 = ib.expr_operand(ce[0].args[0])
        ok = a0[0] == 'field' and a0[2] == 'timestamp' and a0[3] == 'server::state::entry::StateEntry'
        rep.ob('R10.e', 'server::state::system::SystemState::init', 'expiry base = entry.timestamp', ok, ce[0].where(), None if ok else 'token expiry is computed from `%s`: every restart re-arms the token' % render(a0)[:60])
        ins = [c for c in ib.calls if c.name.split('::')[-1] == 'insert' and is_user_call(c) and any(x[0] == 'field' and x[2] == 'personal_access_tokens' for x in walk(ib.expr_operand(c.args[0])))]
        f = None
        if ins:
            # the insert must not be reachable from the `expiry_at <= now` true edge
            for bb, t, e in switch_exprs(ib):
                if t.get('ty') == 'bool' and e[0] == 'bin' and e[1] in ('Le', 'Lt', 'Ge', 'Gt') and has_call_last(e, 'now') and expr_has(e, lambda x: x[0] == 'call' and x[3] == ce[0].bb):
                    tt, tf = bool_targets(t)
                    expired_edge = tt if e[1] in ('Le', 'Lt') and has_call_last(e[3], 'now') else (tt if e[1] in ('Ge', 'Gt') and has_call_last(e[2], 'now') else tf)
                    heads = {c.bb for c in ib.calls if (c.fn or '').endswith('Iterator::next')}
                    f = ins[0].bb not in ib.reachable(expired_edge, avoid_blocks={bb} | heads)
        if ins and f is None:
            # the same test written as `expiry_at.is_some_and(|e| e.as_micros() <= now().as_micros())`: the switch is on the
            # predicate call, the comparison is the result of its closure
            import guardpol as gp_
            for bb, t, e in switch_exprs(ib):
                if t.get('ty') != 'bool' or e[0] != 'call' or e[1].split('::')[-1] != 'is_some_and' or not expr_has(e, lambda x: x[0] == 'call' and x[3] == ce[0].bb):
                    continue
                recs = {}
                for d_ in ctx.facts.body_defs():
                    if d_.startswith('server::state::system::SystemState::init::{closure'):
                        try:
                            recs.update({k: v for k, v in gp_.sites(ctx, d_).items() if k.endswith('<result>') and 'now' in k})
                        except Exception:
                            pass
                # predicate true exactly when expiry <= now: result holds for {eq, lt} or {eq, gt} depending on the operand order of the key
                expired_when_true = any(('now' in k.split(' @@ ')[0] and 'now' not in k.split(' @@ ')[1] and v == ['eq,gt']) or
                                        ('now' in k.split(' @@ ')[1] and 'now' not in k.split(' @@ ')[0] and v == ['eq,lt']) for k, v in recs.items())
                if expired_when_true:
                    tt, tf = bool_targets(t)
                    heads = {c.bb for c in ib.calls if (c.fn or '').endswith('Iterator::next')}
                    f = ins[0].bb not in ib.reachable(tt, avoid_blocks={bb} | heads)
        rep.ob('R10.e', 'server::state::system::SystemState::init', 'expired tokens dropped', bool(f), ins[0].where() if ins else None,
               'the token insert is unreachable from the expired edge' if f else 'replay re-installs a token that is already expired (or the expiry test is gone)')

    # ------------------------------------------------------------ R10.h a journalled credential change names the user it was made for
    rep.rule('R10.h', 'a journalled credential command (ChangePassword, CreateUser, UpdateUser, DeleteUser, token create / delete) names the user or token of the request, not the session: after a restart the new password belongs to the same user as before it', floor=4, analysis='A9 provenance')
    from props.c05 import journal_entity_provenance, journalling_sites
    journal_entity_provenance(ctx, rep, 'R10.h', journalling_sites(ctx), only={'ChangePassword', 'CreateUser', 'UpdateUser', 'DeleteUser', 'CreatePersonalAccessToken', 'DeletePersonalAccessToken', 'UpdatePermissions'})

    # ------------------------------------------------------------ R10.i a revocation reaches the file under the lock it was recorded under
    rep.rule('R10.i', 'logout: JwtManager::revoke_token keeps the write guard on the revocation map until the revocation has been saved (the save loads, updates and overwrites one file: two logouts that save outside the lock lose one of the two revocations, and the lost token is accepted again after a restart)', floor=1, analysis='A4 guard liveness')
    RT = 'server::http::jwt::jwt_manager::JwtManager::revoke_token'
    if not ctx.has(RT):
        rep.anchor_lost('R10.i', RT)
    else:
        rb_ = ctx.fn_body(RT)
        saves_ = [c for c in rb_.calls if 'save_revoked_access_token' in c.name and is_user_call(c)]
        guards_ = [l for l in range(len(rb_.locals)) if str(rb_.locals[l] if isinstance(rb_.locals[l], str) else rb_.locals[l].get('ty')).startswith('tokio::sync::RwLockWriteGuard<') and rb_.local_name(l) not in (None, 'result')]
        held_ = False
        for l in guards_:
            drops_ = [bb for bb in rb_.reach if rb_.term(bb).get('t') == 'drop' and not rb_.blocks[bb].get('cleanup') and rb_.term(bb)['p'][0] == l]
            if drops_ and saves_ and not any(c.bb in rb_.reachable(d_) for d_ in drops_ for c in saves_):
                held_ = True
        rep.ob('R10.i', RT, 'revocation saved under the write guard', held_ and bool(saves_), saves_[0].where() if saves_ else None, None if held_ else
               'the write guard on revoked_tokens is released before save_revoked_access_token runs (or is never bound): concurrent logouts overwrite each other in the tokens file')

    # ------------------------------------------------------------ R10.j user ids mean the same user after a restart
    from props.c05 import user_ids_after_validation
    user_ids_after_validation(ctx, rep, 'R10.j')


def _type_of_expr(ctx, body, e):
    """type path of a param/upvar/local expression, refs stripped"""
    import re
    if e[0] == 'param':
        for l in range(1, body.argc + 1):
            if body.local_name(l) == e[1]:
                return re.sub(r"^&(?:'\S+ )?(?:mut )?", '', body.locals[l])
    if e[0] == 'upvar':
        for name, place in body.raw['vars']:
            if name == e[1] and len(place) == 2:
                pass
        # find a local copy typed like the upvar: search locals by debug name in parent is not available; fall back on rendering
        for l, ty in enumerate(body.locals):
            pass
        # upvars of handler coroutines are the handler's parameters: look them up in the fn record
        fn = re.sub(r'(::\{closure#\d+\})+$', '', body.defn)
        rec = ctx.fn_record(fn)
        if rec and rec.get('pnames') and e[1] in rec['pnames']:
            return re.sub(r"^&(?:'\S+ )?(?:mut )?", '', rec['params'][rec['pnames'].index(e[1])])
    if e[0] == 'local' and e[1] is not None:
        return re.sub(r"^&(?:'\S+ )?(?:mut )?", '', body.locals[e[1]])
    return None
