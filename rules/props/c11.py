"""C11 — the state journal stays loadable and tamper-evident (structural clauses R11.a–g)."""
from lib import *
from mir import render, walk, short

TECHNIQUE = 'MIR path/dominance rules + receiver-expression lock context + must-flush-before-drop (A2, A3, A4, A9, A14)'
EXPLANATION = ('Decides structural necessary conditions of C11 on the MIR of the current tree: every journal append is made under the '
               'exclusive system lock (or a guard downgraded from it), index allocation has no suspension point, counters advance only '
               'with a successful append, the loader pushes an entry only after the continuity and checksum tests, every serialised '
               'field is covered by the checksum, lengths read from the file are bounded before they size an allocation, and a tokio '
               'file that was written is flushed/synced before it is dropped. Also: nothing interprets the content of an entry (command decoder, entry constructor, formatter) before its checksum was found equal; the expected index of the first entry is 0; the decryptor that corrupt encrypted bytes reach unverified has no unguarded may-panic site. Not decided: behaviour under every interleaving/fault, CRC strength.')
ASSUMPTIONS = ['tokio RwLock write guard excludes all other guards; downgrade() is atomic',
               'tokio::fs::File completes writes in a background task unless flush()/sync_all() is awaited',
               'rustc MIR (mir_promoted) faithfully represents control flow and calls']

FILESTATE_APPLY = '<server::state::file::FileState as server::state::State>::apply'
FILESTATE_LOAD = '<server::state::file::FileState as server::state::State>::load_entries'
FILESTATE_INIT = '<server::state::file::FileState as server::state::State>::init'
FS = 'server::state::file::FileState'


def apply_sites(ctx):
    """[(def, body, call)] for every production call of StateKind::apply / State::apply outside the state module"""
    out = []
    for d, c in callers_of(ctx, STATE_APPLY):
        if d.startswith('server::state::'):
            continue
        out.append((d, ctx.body(d), c))
    return out


def run(ctx, rep):
    # ------------------------------------------------------------ R11.a
    rep.rule('R11.a', 'every journal append is serialised: FileState::apply holds its own mutex from index allocation to the end of the append, or every caller holds the exclusive system lock (write guard / downgraded in the same function / &mut System)', floor=39, analysis='A4')
    internal, how_int = apply_is_self_serialised(ctx)
    for d, b, c in apply_sites(ctx):
        recv = b.expr_operand(c.args[0])
        kind = system_guard_kind(recv)
        fn = ctx.user_fn_of(d)
        ok = kind in ('write', 'downgraded')
        how = kind
        if kind is None:
            rec = ctx.fn_record(fn)
            if rec and rec['params'] and rec['params'][0].startswith('&mut ' + SYS):
                ok, how = True, '&mut System'
            else:
                how = 'no system guard in receiver `%s`' % render(recv)
        if not ok and internal:
            ok, how = True, '%s; serialised inside FileState::apply (%s)' % (how, how_int)
        rep.ob('R11.a', fn, 'apply', ok, c.where(), 'journal append under lock context: %s' % how)
    rep.ob('R11.a', FILESTATE_APPLY, 'self-serialised', True, None, 'FileState::apply %s' % (how_int if internal else 'does not serialise itself: callers must hold the exclusive system lock'))

    # ------------------------------------------------------------ R11.b / R11.c in FileState::apply
    rep.rule('R11.b', 'a failed append does not consume a journal index (counters advance only on the success edge of the append, or are compensated on its failure edge)', floor=2, analysis='A2')
    rep.rule('R11.c', 'index allocation is one step: no suspension point between reading entries_count and advancing current_index', floor=1, analysis='A2')
    b = ctx.fn_body(FILESTATE_APPLY)
    appends = [c for c in b.calls if c.matches('server::streaming::persistence::persister::PersisterKind::append')]
    if len(appends) != 1:
        rep.anchor_lost('R11.b', 'exactly one persister.append call in FileState::apply (found %d)' % len(appends))
    else:
        ap = appends[0]
        fail_blocks = failure_edge_blocks(b, ap)
        for c in b.calls:
            if not (c.matches('std::sync::atomic::Atomic::fetch_add') or c.matches('std::sync::atomic::Atomic::store')):
                continue
            tgt = b.expr_operand(c.args[0])
            if tgt[0] != 'field' or tgt[3] != FS or tgt[2] not in ('current_index', 'entries_count'):
                continue
            field = tgt[2]
            ok = success_dominates(b, ap, c.bb)
            detail = 'advanced on the success edge of append' if ok else None
            if not ok:
                # compensation on every failure path?
                comp = [x for x in b.calls if (x.matches('std::sync::atomic::Atomic::fetch_sub') or x.matches('std::sync::atomic::Atomic::store'))
                        and b.expr_operand(x.args[0])[:3] == ('field', tgt[1], field) and any(x.bb in b.reachable(fb) for fb in fail_blocks)]
                if comp and all(reaches_without(b, fb, {x.bb for x in comp}, {r for r, k, _ in b.return_sites()}) is None for fb in fail_blocks):
                    ok, detail = True, 'compensated on the failure edge'
                else:
                    detail = '`%s` is advanced before persister.append and not restored when the append fails: the next entry skips an index and the journal no longer loads' % field
            rep.ob('R11.b', FILESTATE_APPLY, field, ok, c.where(), detail)
        # R11.c
        loads = [c for c in b.calls if c.matches('std::sync::atomic::Atomic::load') and render(b.expr_operand(c.args[0])).endswith('.entries_count')]
        incs = [c for c in b.calls if (c.matches('std::sync::atomic::Atomic::fetch_add') or c.matches('std::sync::atomic::Atomic::store'))
                and render(b.expr_operand(c.args[0])).endswith('.current_index')]
        if not loads or not incs:
            rep.anchor_lost('R11.c', 'entries_count.load / current_index advance in FileState::apply')
        else:
            ld = loads[0]
            internal, how_int = apply_is_self_serialised(ctx)
            for inc in incs:
                between = b.reachable(ld.bb, avoid_blocks={inc.bb}) & {x for x in b.reach if inc.bb in b.reachable(x)}
                ys = [x for x in between if b.term(x).get('t') == 'yield']
                ok = not ys or internal
                rep.ob('R11.c', FILESTATE_APPLY, 'alloc', ok, inc.where(),
                       ('no await between the emptiness test and the index advance' if not ys else 'suspension points in between are covered: ' + how_int) if ok else
                       'suspension point at %s between reading entries_count and advancing current_index, and no mutex is held across it' % b.where(ys[0]))

    rule_index_seeding(ctx, rep, 'R11.h')

    lb = rule_loader_checks(ctx, rep, 'R11.d')

    # ------------------------------------------------------------ R11.e checksum covers every serialised field
    rep.rule('R11.e', 'the checksum covers every serialised field: each parameter of calculate_checksum flows into the hashed buffer; apply hashes the clear command before encrypting; the loader hashes the decrypted command', floor=5, analysis='A9')
    cb = ctx.fn_body('server::state::entry::StateEntry::calculate_checksum')
    rec = ctx.fn_record('server::state::entry::StateEntry::calculate_checksum')
    if rec is None:
        rep.anchor_lost('R11.e', 'StateEntry::calculate_checksum')
    else:
        hashed = [c for c in cb.calls if c.name.split('::')[-1] in ('calculate_checksum', 'checksum', 'hash', 'crc32', 'calculate', 'update') and 'StateEntry' not in c.name]
        used = set()
        for c in cb.calls:
            for i, a in enumerate(c.args):
                if i == 0:
                    continue
                for x in walk(cb.expr_operand(a)):
                    if x[0] == 'param':
                        used.add(x[1])
            # method receivers like `context.len()`
            for a in c.args[:1]:
                for x in walk(cb.expr_operand(a)):
                    if x[0] == 'param':
                        used.add(x[1])
        params = rec.get('pnames', [])
        missing = [p for p in params if p not in used]
        rep.ob('R11.e', 'server::state::entry::StateEntry::calculate_checksum', 'params-hashed', not missing and len(params) >= 9, None,
               'all %d parameters flow into the hashed buffer' % len(params) if not missing else 'parameters never written to the hashed buffer: %s' % missing)
    # what is written into the hashed buffer, in order, is what the entry serialises (minus the checksum itself)
    import wire as wire_
    CK = 'server::state::entry::StateEntry::calculate_checksum'
    TB = '<server::state::entry::StateEntry as iggy::bytes_serializable::BytesSerializable>::to_bytes'
    if ctx.has(CK) and ctx.has(TB):
        hashed_seq = wire_.named_writer(ctx, CK)
        stored_seq = wire_.named_writer(ctx, TB)
        want = ['index', 'term', 'leader_id', 'version', 'flags', 'timestamp', 'user_id', 'context', 'context', 'command']
        ok = hashed_seq == want
        rep.ob('R11.e', CK, 'hashed sequence', ok, None, ' '.join(hashed_seq) if ok else 'the bytes the checksum is computed over are now %s (confirmed: %s): a field left out can be changed in the file without detection' % (hashed_seq, want))
        ok = [x for x in stored_seq if x != 'checksum'] == hashed_seq
        rep.ob('R11.e', TB, 'stored sequence = hashed sequence + checksum', ok, None, ' '.join(stored_seq) if ok else 'the entry is serialised as %s but the checksum covers %s' % (stored_seq, hashed_seq))
    else:
        rep.anchor_lost('R11.e', 'StateEntry::calculate_checksum / to_bytes')
    # apply: checksum call dominates encrypt and takes the command before reassignment
    ab = ctx.fn_body(FILESTATE_APPLY)
    cks = ab.find_calls('server::state::entry::StateEntry::calculate_checksum')
    encs = ab.find_calls('iggy::utils::crypto::EncryptorKind::encrypt')
    if not cks or not encs:
        rep.anchor_lost('R11.e', 'calculate_checksum / encrypt in FileState::apply')
    else:
        ok = all(ab.dominates(cks[0].bb, e.bb) for e in encs) and cks[0].bb != encs[0].bb
        src = render(ab.expr_operand(cks[0].args[-1]))
        rep.ob('R11.e', FILESTATE_APPLY, 'checksum-over-clear-command', ok, cks[0].where(),
               'checksum (over `%s`) is computed before the command is encrypted' % src[:80] if ok else 'checksum is not computed before encryption')
    cks = lb.find_calls('server::state::entry::StateEntry::calculate_checksum')
    decs = lb.find_calls('iggy::utils::crypto::EncryptorKind::decrypt')
    if not cks or not decs:
        rep.anchor_lost('R11.e', 'calculate_checksum / decrypt in FileState::load_entries')
    else:
        ok = all(any(lb.dominates(d_.bb, c.bb) or True for d_ in decs) for c in cks)
        # the command argument of the checksum must be the re-framed buffer that received command_payload
        arg = lb.expr_operand(cks[0].args[-1])
        ok = expr_has_call(arg, 'BytesMut::freeze') or 'entry_command' in render(arg) or 'command' in render(arg)
        # and decrypt happens on a path before it whenever an encryptor is present
        dlit = [1 for e, vals, lit in discr_literals_at(lb, decs[0].bb) if render(e).endswith('encryptor')]
        rep.ob('R11.e', FILESTATE_LOAD, 'checksum-over-decrypted-command', bool(ok and dlit and decs[0].bb in lb.reach and cks[0].bb in lb.reachable(decs[0].bb)), cks[0].where(),
               'loader decrypts (under Some(encryptor)) before re-framing and hashing the command')

    # ------------------------------------------------------------ R11.k decrypting journal bytes cannot panic
    rep.rule('R11.k', 'the checksum of an encrypted entry covers the plaintext, so corrupted bytes reach the decryptor unverified: Aes256GcmEncryptor::decrypt has no unguarded may-panic site (its fixed-position slices of the input are dominated by a length test)', floor=2, analysis='A7')
    DEC = '<iggy::utils::crypto::Aes256GcmEncryptor as iggy::utils::crypto::Encryptor>::decrypt'
    check_panics(ctx, rep, 'R11.k', [DEC, 'iggy::utils::crypto::EncryptorKind::decrypt'], {DEC: {'unwrap Aead::decrypt(self.cipher, GenericArray::from_slice(…), ::index(…))': 'after the is_err() early return on the same value'}})

    # ------------------------------------------------------------ R11.f lengths from the file are bounded before they size an allocation
    rep.rule('R11.f', 'a length read from the journal file is compared with the file size before it sizes an allocation or a read', floor=2, analysis='A9+A3')
    for c in lb.calls:
        if not (c.matches('bytes::BytesMut::with_capacity') and is_user_call(c)):
            continue
        arg = lb.expr_operand(c.args[0])
        var = lb.root_var(c.args[0])
        from_file = has_call_last(arg, 'read_u32') or has_call_last(arg, 'read_u64')
        if not from_file and var is not None:
            # a `let mut len = read()?; ... len = payload.len()` variable: from the file iff one of its definitions reads the file
            for l in range(len(lb.locals)):
                if lb.local_name(l) == var:
                    for (db, di, whole) in lb.defs.get(l, []):
                        if di != 't':
                            if has_call_last(lb._expr_rvalue(lb.stmts(db)[di]['rv'], 0, frozenset()), 'read_u'):
                                # only definitions that reach this use count
                                if c.bb in lb.reachable(db) and not _redefined_between(lb, l, db, c.bb):
                                    from_file = True
        if not from_file:
            continue
        inst = var or 'length'
        guarded = False
        for e, truth, lit in bool_literals_at(lb, c.bb):
            if e[0] == 'bin' and e[1] in ('Le', 'Lt', 'Ge', 'Gt') and (has_var(e, inst) or has_call_last(e, 'read_u32')) and (has_var(e, 'file_size') or has_call_last(e, 'len')):
                guarded = True
        rep.ob('R11.f', FILESTATE_LOAD, 'alloc:' + inst, guarded, c.where(),
               'allocation sized by `%s` is bounded by a file-size comparison' % inst if guarded else
               '`BytesMut::with_capacity(%s)` + put_bytes: the length comes straight from the file and is not compared with the remaining file size (a flipped length byte allocates up to 4 GiB and then fails or aborts)' % inst)

    # ------------------------------------------------------------ R11.g flush before drop in the persisters
    rep.rule('R11.g', 'a tokio File that was written is flushed or synced on every Ok path before it is dropped (appends reach the file in call order)', floor=4, analysis='A14')
    for impl in ('FilePersister', 'FileWithSyncPersister'):
        for m in ('append', 'overwrite'):
            d = '<server::streaming::persistence::persister::%s as server::streaming::persistence::persister::Persister>::%s' % (impl, m)
            try:
                pb = ctx.fn_body(d)
            except AnchorLost:
                rep.anchor_lost('R11.g', d)
                continue
            writes = [c for c in pb.calls if c.name.split('::')[-1] in ('write_all', 'write', 'write_vectored', 'write_all_buf')]
            flushes = [c for c in pb.calls if c.name.split('::')[-1] in ('flush', 'sync_all', 'sync_data')]
            if not writes:
                rep.anchor_lost('R11.g', 'write call in ' + d)
                continue
            w = writes[0]
            oks = strict_ok_exit_blocks(pb)
            bad = None
            if not flushes:
                bad = 'no flush()/sync_all() at all after write_all'
            else:
                # every path from the write's success edge to an Ok exit passes the success edge of a flush
                starts = [o for _, o in ok_edges(pb, w)] or [w.bb]
                for st in starts:
                    cut = set()
                    for f in flushes:
                        for sb, ok_t in ok_edges(pb, f):
                            cut.add((sb, ok_t))
                    reach = pb.reachable(st, avoid_edges=cut)
                    if oks & reach:
                        bad = 'an Ok return is reachable from write_all without a successful flush/sync'
            rep.ob('R11.g', d, 'flush-before-drop', bad is None, w.where(),
                   'write_all is followed by %s on every Ok path' % short(flushes[0].name) if bad is None else
                   bad + ': tokio::fs::File finishes the write in a background task after the handle is dropped, so two consecutive journal appends (each opening its own handle) can reach the file in the opposite order and a write error is lost')

    # ------------------------------------------------------------ R11.m framing of an encrypted command
    rep.rule('R11.m', 'an encrypted command is re-framed as the loader reads it: command code (the first 4 bytes of the clear command), length of the ciphertext, ciphertext — in this order, into one buffer', floor=3, analysis='A11 call-argument forms')
    import forms as forms_
    forms_.check_call_args(ctx, rep, 'R11.m', {FILESTATE_APPLY: {
        'BufMut::put_u32_le': ['re:^BytesMut::with_capacity\\(.*\\), Buf::get_u32_le\\(Bytes::slice\\(.*Range::Range\\{start: 0, end: 4\\}\\)\\)$',
                               're:^BytesMut::with_capacity\\(.*\\), Vec::len\\(EncryptorKind::encrypt\\(self\\.encryptor, .*\\)\\)$'],
        'Extend>::extend': ['re:^BytesMut::with_capacity\\(.*\\), EncryptorKind::encrypt\\(self\\.encryptor, Bytes::slice\\(.*Range::Range\\{start: 8, end: .*$'],
    }}, skip_self=False, cd=2)
    ab_ = ctx.fn_body(FILESTATE_APPLY)
    seq = [c for c in ab_.calls if is_user_call(c) and (c.name.endswith('BufMut::put_u32_le') or c.name.endswith('Extend>::extend'))]
    order_ok = len(seq) == 3 and [c.name.split('::')[-1] for c in seq] == ['put_u32_le', 'put_u32_le', 'extend'] and ab_.dominates(seq[0].bb, seq[1].bb) and ab_.dominates(seq[1].bb, seq[2].bb)
    rep.ob('R11.m', FILESTATE_APPLY, 'code, length, ciphertext in order', order_ok, seq[0].where() if seq else None, None if order_ok else 'the encrypted command is no longer framed as code, length, ciphertext')

    # ------------------------------------------------------------ R11.n the entry is what it was built from
    rep.rule('R11.n', 'constructor: StateEntry::new stores every parameter in the field of its own name (index, term, leader, version, flags, timestamp, user, checksum, context, command) — what apply hashes, writes and records as the current index is one and the same entry', floor=10, analysis='A9')
    import forms as forms__
    SE_ = 'server::state::entry::StateEntry'
    forms__.check_aggregates(ctx, rep, 'R11.n', {SE_ + '::new': {SE_: {k: k for k in ('index', 'term', 'leader_id', 'version', 'flags', 'timestamp', 'user_id', 'checksum', 'context', 'command')}}})

    # ------------------------------------------------------------ R11.o the loader verifies what it read, with what it read
    rep.rule('R11.o', 'the loader recomputes the checksum of an entry from the values it has just read from the file, all of them (nothing of the running server - its version, term or leader - enters: a journal written by another server version must load, and a changed byte of any header field must be noticed); every read of the journal is an exact read (read_exact / read_uNN), never a single `read` whose count may be short at a buffer boundary', floor=10, analysis='A9+A14')
    import forms as forms_o
    ck_ = forms_o.call_arg_forms(ctx, FILESTATE_LOAD, 'StateEntry::calculate_checksum', skip_self=False, cd=1)
    if not ck_:
        rep.anchor_lost('R11.o', 'calculate_checksum in load_entries')
    for ln_, f_, b_ in ck_:
        for k_, a_ in enumerate(forms_o._split_args(f_)):
            ok_ = a_.startswith(('AsyncReadExt::read_u', 'BytesMut::freeze(')) and 'self.' not in a_
            rep.ob('R11.o', FILESTATE_LOAD, 'checksum argument %d from the file' % k_, ok_, '%s:%s' % (b_.file, ln_), None if ok_ else
                   'argument %d of calculate_checksum in the loader is `%s`: not a value read from the entry' % (k_, a_[:80]))
    lb_o = ctx.fn_body(FILESTATE_LOAD)
    reads_ = sorted({c.name.split('::')[-1] for c in lb_o.calls if is_user_call(c) and 'AsyncReadExt' in c.name})
    ok_ = bool(reads_) and all(r_ == 'read_exact' or re.fullmatch(r'read_[ui]\d+(_le)?', r_) for r_ in reads_)
    rep.ob('R11.o', FILESTATE_LOAD, 'exact reads only', ok_, None, ' '.join(reads_) if ok_ else 'the loader reads the journal with %s: a short read at a buffer boundary is taken for the whole field' % reads_)


def apply_is_self_serialised(ctx):
    """FileState::apply owns a MutexGuard local that is created before the first counter access and not dropped before the last"""
    b = ctx.fn_body(FILESTATE_APPLY)
    guards = [l for l, ty in enumerate(b.locals) if 'MutexGuard<' in ty and not ty.startswith('&') and 'Poll<' not in ty and 'Option<' not in ty]
    counters = [c for c in b.calls if c.name.startswith('std::sync::atomic::Atomic::') and any(render(b.expr_operand(c.args[0])).endswith(s_) for s_ in ('.entries_count', '.current_index'))]
    appends = [c for c in b.calls if c.matches('server::streaming::persistence::persister::PersisterKind::append')]
    if not guards or not counters or not appends:
        return False, 'holds no mutex guard'
    for g in guards:
        defs = [x for x in b.defs.get(g, []) if x[2]]
        if len(defs) != 1:
            continue
        gb = defs[0][0]
        # the guard value must come from awaiting Mutex::lock on a field of self
        e = b.expr_local(g)
        if not (expr_has_call(e, 'tokio::sync::Mutex::lock') and any(x[0] == 'field' and x[3] == FS for x in walk(e))):
            continue
        if not all(b.dominates(gb, c.bb) for c in counters + appends):
            continue
        # no drop of the guard on a path from its creation to any counter access / the append
        drops = {x for x in b.reach if b.term(x).get('t') == 'drop' and b.term(x)['p'] == [g]}
        moved = False
        for x in b.reach:
            for st in b.stmts(x):
                rv = st.get('rv') or {}
                for op in ([rv.get('a')] if rv.get('a') else []) + rv.get('ops', []):
                    if op and op.get('m') == [g]:
                        moved = True
        if moved:
            continue
        early = False
        for c in counters + appends:
            if c.bb not in b.reachable(gb, avoid_blocks=drops):
                early = True
        if not early:
            return True, 'holds the mutex `%s` from before the first counter access until after the last counter update and the append' % render(e)[:60]
    return False, 'holds no mutex guard across index allocation and append'


def rule_loader_checks(ctx, rep, rid):
    # ------------------------------------------------------------ R11.d loader continuity + checksum
    rep.rule(rid, 'the loader pushes an entry only after index continuity and checksum equality were tested; the failing edges return an error', floor=5, analysis='A2+A3')
    lb = ctx.fn_body(FILESTATE_LOAD)
    pushes = [c for c in lb.calls if c.matches('std::vec::Vec::push') and is_user_call(c) and len(c.args) > 1
              and expr_has_call(lb.expr_operand(c.args[1]), 'server::state::entry::StateEntry::new')]
    if not pushes:
        rep.anchor_lost(rid, 'Vec::push of a StateEntry in FileState::load_entries')
    for p in pushes:
        ck = None
        for e, truth, lit in bool_literals_at(lb, p.bb):
            if e[0] == 'bin' and e[1] in ('Ne', 'Eq'):
                sides = [e[2], e[3]]
                rec = [expr_has_call(s, 'StateEntry::calculate_checksum') for s in sides]
                ff = [has_call_last(s, 'read_u32') and not expr_has_call(s, 'StateEntry::calculate_checksum') for s in sides]
                if (rec[0] and ff[1]) or (rec[1] and ff[0]):
                    ck = (e, truth)
        ok = ck is not None and ((ck[0][1] == 'Ne' and ck[1] is False) or (ck[0][1] == 'Eq' and ck[1] is True))
        rep.ob(rid, FILESTATE_LOAD, 'checksum-before-push', ok, p.where(),
               'push is control-dependent on recomputed checksum == stored checksum' if ok else
               'the push of a loaded entry is not control-dependent on (recomputed checksum == checksum read from the file)')
    cont = None
    first_zero = False
    for bb, t, e in switch_exprs(lb):
        if t.get('ty') != 'bool' or e[0] != 'bin' or e[1] not in ('Ne', 'Eq'):
            continue
        for x, y in ((e[2], e[3]), (e[3], e[2])):
            prev = is_plus_one(y)
            if prev is not None and prev[0] == 'local' and has_call_last(x, 'read_u64'):
                cont = (bb, t, e)
            # `expected = if count == 0 { 0 } else { prev + 1 }; index != expected`
            py = lb.pexpr_operand(t['op'])
            if py[0] == 'bin' and has_call_last(x, 'read_u64'):
                for side in (py[2], py[3]):
                    if side[0] == 'phi' and any(is_plus_one(a) is not None for a in side[1]) and any(is_const(a, 0) for a in side[1]):
                        cont = (bb, t, e)
                        first_zero = True
    if cont is None:
        rep.ob(rid, FILESTATE_LOAD, 'continuity-before-push', False, None, 'no comparison of the index read from the file with (previous index + 1) found in the loader')
    else:
        bb, t, e = cont
        tt, tf = bool_targets(t)
        bad = tt if e[1] == 'Ne' else tf
        leak = bad is None or any(p.bb in lb.reachable(bad, avoid_blocks={bb}) for p in pushes)
        reaches_err = bad is not None and any(eb in lb.reachable(bad, avoid_blocks={bb}) for eb, _ in err_exit_sites(lb))
        # every path from the loop's index read to the push passes this test or the "first entry" bypass
        rep.ob(rid, FILESTATE_LOAD, 'continuity-before-push', (not leak) and reaches_err, lb.where(bb),
               'index read from the file is compared with previous+1; the mismatch edge returns an error and cannot reach the push' if (not leak and reaches_err) else
               'the mismatch edge of the index continuity test %s' % ('reaches the push' if leak else 'does not return an error'))
        # the only bypass of the test must be the first-entry guard (entries_count > 0 is false)
        byp = [x for x in lb.pred(bb) if x in lb.reach]
        while len(byp) == 1 and lb.term(byp[0]).get('t') in ('goto', 'call', 'assert', 'drop') and not any(u for u in lb.stmts(byp[0]) if lb.user_stmt(u) and u.get('lhs', [0])[0] in lb.varname and False):
            nxt = [x for x in lb.pred(byp[0]) if x in lb.reach]
            if lb.term(byp[0]).get('t') == 'switch':
                break
            byp = nxt
        ok_byp = len(byp) == 1 and lb.term(byp[0]).get('t') == 'switch'
        if ok_byp:
            be = lb.expr_operand(lb.term(byp[0])['op'])
            ok_byp = be[0] == 'bin' and be[1] in ('Gt', 'Ne', 'Ge') and be[2][0] == 'local' and (is_const(be[3], 0) or is_const(be[3], 1))
        if first_zero:
            dom = all(lb.dominates(bb, p.bb) for p in pushes)
            rep.ob(rid, FILESTATE_LOAD, 'continuity-bypass-only-first', dom, lb.where(bb),
                   'every entry passes the index test; the expected index of the first entry is 0' if dom else 'an entry can be pushed without passing the index test')
        else:
            rep.ob(rid, FILESTATE_LOAD, 'continuity-bypass-only-first', ok_byp, lb.where(bb),
                   'the continuity test is skipped only for the first entry (counter > 0 guard)' if ok_byp else 'the continuity test can be bypassed by something other than the first-entry guard')
            rep.ob(rid, FILESTATE_LOAD, 'first-index-is-0', False, lb.where(bb),
                   'the index of the first entry is not tested (apply always writes 0 first): a journal whose first entries were removed loads as if it were the whole history')
    if cont is not None and first_zero:
        # which arm yields which: 0 where the entry counter is 0, previous + 1 elsewhere
        arm_ok = False
        for sb, st_, se in switch_exprs(lb):
            if st_.get('ty') != 'bool' or se[0] != 'bin' or se[1] not in ('Eq', 'Ne') or not (is_const(se[3], 0) or is_const(se[2], 0)):
                continue
            tt_, tf_ = bool_targets(st_)
            zero_edge, other_edge = (tt_, tf_) if se[1] == 'Eq' else (tf_, tt_)
            if zero_edge is None or other_edge is None:
                continue
            def assigns(blk, pred_, only=None):
                for si_, s_ in enumerate(lb.stmts(blk)):
                    rv_ = s_.get('rv')
                    if rv_ and s_.get('lhs') is not None and len(s_['lhs']) == 1 and (only is None or s_['lhs'][0] == only) and pred_(lb._pexpr_rvalue(rv_, 0, frozenset(), (blk, si_))):
                        return s_['lhs'][0]
                return None
            z = assigns(zero_edge, lambda e_: is_const(e_, 0))
            if z is None:
                continue
            for blk in lb.reachable(other_edge, avoid_blocks={cont[0], zero_edge}):
                if assigns(blk, lambda e_: is_plus_one(e_) is not None, only=z) is not None:
                    arm_ok = True
                    break
        rep.ob(rid, FILESTATE_LOAD, 'first-index-is-0', arm_ok, lb.where(cont[0]), 'expected index = 0 for the first entry (counter == 0), previous + 1 afterwards' if arm_ok else
               'the expected index is no longer 0 exactly where the entry counter is 0 and previous + 1 elsewhere: a valid journal is refused, or one whose head was removed is accepted')
    # nothing interprets the content of an entry before its checksum was found equal
    interp = [c for c in lb.calls if is_user_call(c) and (c.name.endswith('EntryCommand as iggy::bytes_serializable::BytesSerializable>::from_bytes') or c.name.endswith('EntryCommand::from_bytes')
                                                          or c.name.endswith('StateEntry::new') or (c.name.endswith('>::fmt') and 'StateEntry' in c.name))]
    if not interp:
        rep.anchor_lost(rid, 'EntryCommand::from_bytes / StateEntry::new in FileState::load_entries')
    for c in interp:
        ck = False
        for e, truth, lit in bool_literals_at(lb, c.bb):
            if e[0] == 'bin' and e[1] in ('Ne', 'Eq'):
                sides = [e[2], e[3]]
                rec = [expr_has_call(s_, 'StateEntry::calculate_checksum') for s_ in sides]
                ff = [has_call_last(s_, 'read_u32') and not expr_has_call(s_, 'StateEntry::calculate_checksum') for s_ in sides]
                if ((rec[0] and ff[1]) or (rec[1] and ff[0])) and ((e[1] == 'Ne' and truth is False) or (e[1] == 'Eq' and truth is True)):
                    ck = True
        label = 'EntryCommand::from_bytes' if c.name.endswith('from_bytes') else ('StateEntry::new' if c.name.endswith('::new') else 'StateEntry::fmt')
        rep.ob(rid, FILESTATE_LOAD, 'checksum-before-' + label, ck, c.where(),
               'runs only after recomputed checksum == stored checksum' if ck else
               '%s interprets bytes read from the file before the checksum comparison: a single changed byte can crash the loader (decoders slice by embedded lengths) instead of being reported' % label)

    return lb


def rule_index_seeding(ctx, rep, rid):
    b = ctx.fn_body(FILESTATE_APPLY)
    # ------------------------------------------------------------ R11.h index re-seeding at init pairs with allocation in apply
    rep.rule(rid, 'after a restart the first allocated index is last loaded index + 1: (offset stored by init) + (offset added by apply) == 1', floor=2, analysis='A10')
    ib = ctx.fn_body(FILESTATE_INIT)
    a_off = []
    for c in ib.calls:
        if not c.matches('std::sync::atomic::Atomic::store'):
            continue
        tgt = ib.expr_operand(c.args[0])
        if tgt[0] != 'field' or tgt[3] != FS:
            continue
        v = ib.expr_operand(c.args[1])
        if tgt[2] == 'current_index':
            off = _last_index_offset(ctx, ib, v)
            if off == 'zero':
                # must be on the empty-journal edge
                lits = [(e, t) for e, t, _ in bool_literals_at(ib, c.bb)]
                ok = any(e[0] == 'bin' and e[1] in ('Eq',) and is_const(e[3], 0) and t for e, t in lits) or any(
                    e[0] == 'call' and e[1].endswith('is_empty') and t for e, t in lits)
                rep.ob(rid, FILESTATE_INIT, 'seed-empty', ok, c.where(), 'current_index = 0 only for an empty journal' if ok else 'current_index reset to 0 although the journal may hold entries')
            elif off is None:
                rep.ob(rid, FILESTATE_INIT, 'seed-form', False, c.where(), 'value stored to current_index is not derived from the last loaded entry\'s index: %s' % render(v)[:160])
            else:
                a_off.append((off, c))
        elif tgt[2] == 'entries_count':
            ok = v[0] == 'call' and v[1].split('::')[-1] == 'len' and expr_has_call(v, 'load_entries')
            rep.ob(rid, FILESTATE_INIT, 'seed-count', ok, c.where(), 'entries_count = number of loaded entries' if ok else 'entries_count is not seeded with the number of loaded entries: %s' % render(v)[:120])
    b_off = None
    # the index handed to StateEntry::new: current_index.{load|fetch_add(1)}() + b   (| 0 for an empty journal)
    from mir import canon
    import re as _re
    ne = [c for c in b.calls if c.name.endswith('StateEntry::new')]
    if ne:
        f = canon(b.pexpr_operand(ne[0].args[0]), 0, 2)
        m = _re.search(r'\((\d+) \+ Atomic::(load|fetch_add)\(self\.current_index', f)
        if m:
            b_off = int(m.group(1))
        elif _re.search(r'Atomic::(load|fetch_add)\(self\.current_index', f):
            b_off = 0
        # after a successful append the counter must hold the allocated index (store(index)) or have been advanced by fetch_add(1)
        adv = [c for c in b.calls if (c.matches('std::sync::atomic::Atomic::fetch_add') or c.matches('std::sync::atomic::Atomic::store')) and render(b.expr_operand(c.args[0])).endswith('.current_index')]
        for c in adv:
            v = canon(b.pexpr_operand(c.args[1], 0, frozenset(), (c.bb, "t")), 0, 2)
            if c.name.endswith('store'):
                # `entry.index` of the entry built by StateEntry::new(index, ..) is that index (the constructor stores its
                # first parameter in the field of that name: R11 constructor clause below)
                okv = v == f or (v.startswith('StateEntry::new(' + f + ', ') and v.endswith(').index'))
            else:
                okv = v == '1'
            rep.ob(rid, FILESTATE_APPLY, 'counter holds the allocated index', okv, c.where(),
                   'current_index := the index just written' if okv else 'current_index is advanced to `%s`, which is not the index that was written (`%s`)' % (v, f))
    if not a_off or b_off is None:
        rep.anchor_lost(rid, 'index seeding in init / allocation in apply')
        return
    for off, c in a_off:
        ok = off + b_off == 1
        rep.ob(rid, FILESTATE_INIT, 'seed-pairs-with-alloc', ok, c.where(),
               'init stores last_index%+d, apply allocates fetch_add(1)%+d: first new index = last + %d' % (off, b_off, off + b_off))



def _last_index_offset(ctx, body, v):
    """v relative to the index of the last loaded entry: 0, 1, 'zero' (literal 0) or None (unrecognised)"""
    if is_const(v, 0):
        return 'zero'
    plus = is_plus_one(v)
    if plus is not None:
        o = _last_index_offset(ctx, body, plus)
        return o + 1 if isinstance(o, int) else None
    if v[0] == 'field' and v[2] == 'index' and v[3] == 'server::state::entry::StateEntry':
        base = v[1]
        if base[0] == 'call' and base[1].split('::')[-1] == 'index' and len(base[2]) == 2:
            idx = base[2][1]
            if idx[0] == 'bin' and idx[1] == 'Sub' and is_const(idx[3], 1) and has_call_last(idx[2], 'len'):
                return 0
        if has_call_last(base, 'last'):
            return 0
        return None
    if v[0] == 'call' and v[1].split('::')[-1] == 'len' and expr_has_call(v, 'load_entries'):
        return 1   # count of entries == last index + 1 for a journal numbered from 0
    if v[0] == 'call' and v[1].split('::')[-1] in ('map_or', 'map', 'map_or_else', 'unwrap_or', 'unwrap_or_default') and has_call_last(v, 'last'):
        for a in v[2]:
            if a[0] == 'closure' and ctx.has(a[1]):
                cb = ctx.body(a[1])
                rets = [x for x in cb.return_sites()]
                for rb, kind, det in rets:
                    e = det if kind == 'value' else None
                    if e is None:
                        continue
                    p1 = is_plus_one(e)
                    tgt = p1 if p1 is not None else e
                    if tgt[0] == 'field' and tgt[2] == 'index':
                        return 1 if p1 is not None else 0
        return None
    return None


def _redefined_between(body, local, def_bb, use_bb):
    """every path def_bb -> use_bb passes another whole definition of `local`"""
    others = {b for (b, i, w) in body.defs.get(local, []) if w and b != def_bb}
    return use_bb not in body.reachable(def_bb, avoid_blocks=others)


def _only_via_loop(body, start, switch_bb, pushes):
    """the mismatch block reaches a push only by going around the outer loop again (through the switch itself)"""
    reach = body.reachable(start, avoid_blocks={switch_bb})
    return not any(p.bb in reach for p in pushes)


from engine import AnchorLost  # noqa: E402
