"""C12 — concurrent producers and consumers observe one totally ordered log per partition (structural clauses)."""
from lib import *
from mir import render, walk, short, canon
from engine import AnchorLost
import forms
from props import storage_forms as sf
from props import read_forms as rf

TECHNIQUE = 'lock-mode by receiver expressions at every mutator/reader call site, &mut-self signature table, publish-after-write dominance chain with flush, buffer hand-over pairing, frozen operation table of the cache queue, read-path comparison forms (A1, A2, A4, A6, A10, A12, A14)'
EXPLANATION = ('Decides on the MIR of the current tree: every method that mutates a Partition or Segment takes &mut self and each production call site reaches it through the partition write guard, polls hold the '
               'read guard across the whole read; the log size that bounds readers is advanced only after the batch write (including its flush) succeeded, in the waiting writer and in the background persister, '
               'and the index size likewise; messages leave the unsaved buffer only on the path that hands them to the writer; the message cache is a queue (in at the back, out at the front or all at once) and '
               'eviction runs under the partition write guard; the range comparisons that select segments and cache hits keep their confirmed forms. Also: the split of a poll between the persisted part of the open segment and its unsaved buffer keeps its confirmed comparisons, and in every confirmation mode the batch taken out of the unsaved buffer must be covered by the published log size when the save returns (the NoWait arm is a known finding, F21). Not decided: linearizability of histories; NoWait visibility races.')
ASSUMPTIONS = ['tokio RwLock semantics', 'forms in props/read_forms.py']

P = sf.PART
S = sf.SEG
T = 'server::streaming::topics::topic::Topic'
MUTATORS = {P: ['append_messages', 'flush_unsaved_buffer', 'delete_segment', 'add_persisted_segment', 'purge', 'delete', 'load', 'delete_consumer_offset'],
            S: ['append_batch', 'persist_messages', 'load_from_disk', 'delete', 'persist', 'initialize_writing', 'initialize_reading', 'shutdown_writing', 'shutdown_reading']}
CACHE_OPS = {
    '<server::streaming::cache::buffer::SmartCache as std::ops::Index>::index': ['index'],
    'server::streaming::cache::buffer::SmartCache::append': ['push'],
    'server::streaming::cache::buffer::SmartCache::evict_by_size': ['pop_front'],        # oldest first
    'server::streaming::cache::buffer::SmartCache::extend': ['extend'],
    'server::streaming::cache::buffer::SmartCache::is_empty': ['is_empty'],
    'server::streaming::cache::buffer::SmartCache::iter': ['iter'],
    'server::streaming::cache::buffer::SmartCache::len': ['len'],
    'server::streaming::cache::buffer::SmartCache::purge': ['clear'],
    'server::streaming::cache::buffer::SmartCache::push_safe': ['pop_front', 'push_back'],
}


def guard_mode(e):
    """lock mode denoted by a receiver expression on an IggySharedMut<Partition>/RwLock: 'write' | 'read' | None"""
    m = None
    for x in walk(e):
        if x[0] == 'call':
            last = x[1].split('::')[-1]
            if last == 'write' and ('IggySharedMut' in x[1] or 'RwLock' in x[1] or 'IggyTokioRwLock' in x[1]):
                m = 'write'
            elif last == 'read' and ('IggySharedMut' in x[1] or 'RwLock' in x[1] or 'IggyTokioRwLock' in x[1]) and m is None:
                m = 'read'
    return m


def run(ctx, rep):
    rep.rule('R12.a', 'writers are exclusive, readers shared — by type and by lock mode at every call site', floor=25, analysis='A12+A4')
    for adt, names in MUTATORS.items():
        for n in names:
            rec = ctx.fn_record(adt + '::' + n)
            if rec is None:
                rep.anchor_lost('R12.a', adt + '::' + n)
                continue
            rep.ob('R12.a', adt + '::' + n, '&mut self', rec['params'][0].startswith('&mut '), None, 'receiver ' + rec['params'][0])
    # Partition mutators: call sites outside impl Partition go through .write()
    for n in MUTATORS[P]:
        for d, c in callers_of(ctx, P + '::' + n):
            fn = ctx.user_fn_of(d)
            if fn.startswith(P + '::') or fn.startswith('<server::streaming::partitions::storage::'):
                continue
            cb = ctx.body(d)
            recv = cb.expr_operand(c.args[0])
            mode = guard_mode(recv)
            owned = (any(x[0] == 'call' and x[1].split('::')[-1] in ('create', 'new') for x in walk(recv)) or recv[0] in ('param', 'local', 'upvar')) and mode is None   # a partition not yet / no longer shared
            rep.ob('R12.a', fn, 'Partition::%s via write guard' % n, mode == 'write' or owned, c.where(),
                   'through .write()' if mode == 'write' else ('on an unshared partition value' if owned else 'receiver `%s` is not the partition write guard' % render(recv)[:80]))
    # polls hold the read guard across the whole read
    gb = ctx.fn_body(T + '::get_messages')
    for c in gb.calls:
        if c.name.startswith(P + '::get_') and is_user_call(c):
            mode = guard_mode(gb.expr_operand(c.args[0]))
            rep.ob('R12.a', T + '::get_messages', short(c.name) + ' under the read guard', mode in ('read', 'write'), c.where(), 'lock mode: %s' % mode)
    # eviction under the write guard
    cdefs = [d for d in ctx.facts.body_defs() if d.startswith(SYS + '::clean_cache')]
    ev = []
    for d in cdefs:
        cb = ctx.body(d)
        for c in cb.calls:
            if c.name.endswith('SmartCache::evict_by_size'):
                ev.append((cb, c))
    if not ev:
        rep.anchor_lost('R12.a', 'evict_by_size in System::clean_cache')
    for cb, c in ev:
        mode = guard_mode(cb.expr_operand(c.args[0]))
        rep.ob('R12.a', SYS + '::clean_cache', 'eviction under the partition write guard', mode == 'write', c.where(), 'lock mode: %s' % mode)

    rep.rule('R12.b', 'the size that bounds readers is published only after the bytes were written and flushed (waiting writer, background persister, index writer)', floor=5, analysis='A2+A14')
    from props.c04 import write_all_rules, LW, PT
    write_all_rules(ctx, rep, 'R12.b')
    sb = ctx.fn_body(LW + '::save_batches')
    wb = [c for c in sb.calls if c.name == LW + '::write_batch']
    pub = [c for c in sb.calls if c.name.endswith('Atomic::fetch_add') and render(sb.expr_operand(c.args[0])).endswith('.log_size_bytes')]
    if not wb or not pub:
        rep.anchor_lost('R12.b', 'write_batch / log_size_bytes.fetch_add in save_batches')
    else:
        ok = all(success_dominates(sb, wb[0], p.bb) for p in pub)
        rep.ob('R12.b', LW + '::save_batches', 'publish after write', ok, pub[0].where(), 'log_size_bytes advances on the success edge of write_batch' if ok else 'readers can see a log size that covers bytes not yet written')
        amt = canon(sb.pexpr_operand(pub[0].args[1]), 0, 1)
        rep.ob('R12.b', LW + '::save_batches', 'amount = batch size', 'get_size_bytes' in amt, pub[0].where(), 'fetch_add(%s)' % amt)
    for d in [x for x in ctx.facts.body_defs() if x.startswith(PT + '::')]:
        pb = ctx.body(d)
        for c in pb.calls:
            if c.name.endswith('Atomic::fetch_add') and render(pb.expr_operand(c.args[0])).endswith('log_size_bytes') and is_user_call(c):
                ws = [w for w in pb.calls if w.name == PT + '::write_with_retries']
                ok = bool(ws) and any(success_dominates(pb, w, c.bb) for w in ws)
                rep.ob('R12.b', ctx.user_fn_of(d), 'publish after write (background persister)', ok, c.where(), None if ok else 'the background persister publishes the size before/without a successful write')
    persister_amounts(ctx, rep, 'R12.b')

    IW = 'server::streaming::segments::indexes::index_writer::SegmentIndexWriter::save_index'
    ib = ctx.fn_body(IW)
    w = [c for c in ib.calls if c.name.split('::')[-1].startswith('write_all')]
    pub = [c for c in ib.calls if c.name.endswith('Atomic::fetch_add') and render(ib.expr_operand(c.args[0])).endswith('.index_size_bytes')]
    if not w or not pub:
        rep.anchor_lost('R12.b', 'write_all / index_size_bytes.fetch_add in save_index')
    else:
        ok = success_dominates(ib, w[0], pub[0].bb)
        rep.ob('R12.b', IW, 'index size after write', ok, pub[0].where(), None if ok else 'index size is published before the entry was written')

    rep.rule('R12.d', 'no acknowledged message is invisible: the batch that persist_messages took out of the unsaved buffer is covered by the published log size when save_batches returns, in every confirmation mode', floor=2, analysis='A5+A2')
    CONF = 'iggy::confirmation::Confirmation'
    sw = enum_switches(sb, {CONF})
    if not sw:
        rep.anchor_lost('R12.d', 'match on Confirmation in save_batches')
    else:
        bb_, t_, ty_ = sw[0]
        for v, blocks in arm_regions(sb, bb_).items():
            vn = variant_name(ctx, ty_, v) if v != 'else' else None
            if vn is None:
                continue
            pubs = [c for c in sb.calls if c.bb in blocks and c.name.endswith('Atomic::fetch_add') and render(sb.expr_operand(c.args[0])).endswith('.log_size_bytes')]
            queued = [c for c in sb.calls if c.bb in blocks and c.name.startswith(PT + '::persist')]
            ok = bool(pubs) and not queued
            rep.ob('R12.d', LW + '::save_batches', 'batch readable when the save returns: ' + vn, ok, (pubs or queued or [None])[0].where() if (pubs or queued) else sb.where(bb_),
                   'size published in this arm after the write' if ok else
                   'in the %s arm the batch is only queued for the background persister: it has left the unsaved buffer but the published log size does not cover it yet, so a poll can return a run with a hole (or nothing) for acknowledged offsets until the persister catches up' % vn)

    rep.rule('R12.c', 'messages leave the unsaved buffer only when handed to the writer; segment/cache selection comparisons keep their forms; the cache is a queue', floor=16, analysis='A2+A6+A10')
    pb = ctx.fn_body(S + '::persist_messages')
    tk = [c for c in pb.calls if c.name.split('::')[-1] == 'take' and is_user_call(c) and render(pb.expr_operand(c.args[0])).endswith('.unsaved_messages')]
    sv = [c for c in pb.calls if c.name == LW + '::save_batches']
    if not tk or not sv:
        rep.anchor_lost('R12.c', 'unsaved_messages.take / save_batches in persist_messages')
    else:
        exits = {x for x in pb.reach if pb.term(x).get('t') == 'return'}
        empty_edges = set()
        for bb_, t_, e in switch_exprs(pb):
            if t_.get('ty') == 'bool' and e[0] == 'call' and e[1].endswith('BatchAccumulator::is_empty'):
                tt, tf = bool_targets(t_)
                empty_edges.add((bb_, tt))    # an empty accumulator holds nothing that could be lost
        bad = exits & pb.reachable(tk[0].bb, avoid_blocks={sv[0].bb}, avoid_edges=empty_edges)
        # the early return for an absent/empty accumulator happens before take
        rep.ob('R12.c', S + '::persist_messages', 'taken ⇒ handed to the writer', not bad, tk[0].where(), None if not bad else 'the buffer can be emptied on a path that never reaches save_batches: buffered messages are lost')
        arg = canon(pb.pexpr_operand(sv[0].args[1]), 0, 2)
        rep.ob('R12.c', S + '::persist_messages', 'the materialised batch is what is written', 'materialize_batch_and_update_state' in arg, sv[0].where(), 'save_batches(%s)' % arg[:90])
    check_comparisons(ctx, rep, 'R12.c', {k: v for k, v in rf.CMP_PARTITION.items() if k.endswith(('filter_segments_by_offsets', 'try_get_messages_from_cache', 'load_messages_from_cache', 'get_end_offset'))})
    # the split of a poll between the persisted part of the open segment and its unsaved buffer: an acknowledged message that is still
    # only in the buffer must be found there (wrong bound = acknowledged messages silently missing from a poll)
    check_comparisons(ctx, rep, 'R12.c', {k: v for k, v in rf.CMP_SEGMENT.items() if k.endswith(('Segment::get_messages_by_offset', 'BatchAccumulator::get_messages_by_offset', 'Segment::load_messages_from_disk'))})
    ops = field_method_ops(ctx, 'server::streaming::cache::buffer::SmartCache', 'buffer')
    for fn, want in CACHE_OPS.items():
        got = ops.get(fn)
        rep.ob('R12.c', fn, 'queue operations %s' % want, got == want, None,
               None if got == want else 'the cache queue is operated with %s here (confirmed: %s): elements must enter at the back and leave at the front, otherwise cached offsets are no longer a contiguous run' % (got, want))
    for fn in sorted(set(ops) - set(CACHE_OPS)):
        rep.ob('R12.c', fn, 'unlisted cache queue user', False, None, 'a new function operates the cache queue with %s' % ops[fn])

    # ------------------------------------------------------------ R12.e one offset per message, also after a restart
    from props.c01 import offset_assignment
    offset_assignment(ctx, rep, 'R12.e', 'R12.e')
    rep.rules['R12.e']['desc'] = 'no message is given a shared offset and none is skipped: the offset state of partitions and segments has its confirmed writers and forms (current offset, end offset, and the index position a reloaded segment appends at), every message gets base + running count of accepted messages in both append loops'
    rep.rules['R12.e']['floor'] = 16
    sf.check(ctx, rep, 'R12.e', part_fields=(), seg_fields=('last_index_position',))


def persister_amounts(ctx, rep, rid):
    """shared with C02: every read is bounded by the published log size, so the amount the background persister publishes must be what it wrote"""
    from props.c04 import PT
    # the amount published by the background persister is what it wrote: header + payload (the waiting writer publishes get_size_bytes())
    amts = []
    for d in [x for x in ctx.facts.body_defs() if x.startswith(PT + '::run')]:
        pb_ = ctx.body(d)
        for c in pb_.calls:
            if c.name.endswith('Atomic::fetch_add') and is_user_call(c) and render(pb_.expr_operand(c.args[0])).endswith('log_file_size'):
                amts.append((canon(pb_.pexpr_operand(c.args[1], 0, frozenset(), (c.bb, 't')), 0, 1), c.where()))
    oka = bool(amts) and all(a.startswith('PersisterTask::write_with_retries(') for a, _ in amts)
    rep.ob(rid, PT + '::run', 'published amount = bytes written', oka, amts[0][1] if amts else None, None if oka else 'the background persister publishes `%s`' % [a for a, _ in amts])
    rets = set()
    for d in [x for x in ctx.facts.body_defs() if x.startswith(PT + '::write_with_retries')]:
        wb_ = ctx.body(d)
        for blk in sorted(wb_.reach):
            for si, st in enumerate(wb_.stmts(blk)):
                rv = st.get('rv') or {}
                if st.get('lhs') == [0] and rv.get('r') == 'agg' and rv.get('variant') == 'Ok':
                    rets.add(canon(wb_._pexpr_rvalue(rv, 0, frozenset(), (blk, si)), 0, 3))
    okr = rets == {'(24 + Bytes::len(batch_to_write.bytes))'} or rets == {'(Bytes::len(batch_to_write.bytes) + RETAINED_BATCH_HEADER_LEN)'}
    rep.ob(rid, PT + '::write_with_retries', 'returns header + payload length', okr, None, str(sorted(rets)) if okr else
           'write_with_retries reports %s as written; the file grew by the 24-byte header plus the payload, so the published size falls behind the file and the last batch stays unreadable' % sorted(rets))
