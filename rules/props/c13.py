"""C13 — client and server agree on every request and response they exchange (structural clauses)."""
import json, os, re
from lib import *
from mir import render, walk, short, canon
from engine import AnchorLost
import wire

TECHNIQUE = 'code-table agreement (constant ↔ type.code() ↔ decode arm ↔ variant payload ↔ dispatch arm ↔ handler parameter), wire layouts as width sequences writer↔reader, count-prefix provenance, validator comparison forms, decode/validate dominance before dispatch (A2, A10, A11)'
EXPLANATION = ('Decides on the MIR of the current tree: every command code is decoded by the server into the variant whose payload type reports that code and is dispatched to the handler taking that type, no two '
               'codes coincide; for every response mapper pair (server writer, SDK reader), every SDK to_bytes/from_bytes pair, the journal entry and command codecs and the on-disk message codec, the sequence of '
               'fixed widths and variable parts written equals the sequence read (or, for pairs that use different but compatible idioms, both still equal their pinned reference); the count written in front of '
               'an element loop is the length of the collection that the loop writes; every validate() keeps its confirmed byte-length and range comparisons (they bound the lengths that are cast to u8/u32 on the wire); '
               'a frame reaches a handler only after it was decoded and validated successfully, failures are answered with an error response. Not decided: value-level round trips, serde behaviour for HTTP/JSON.')
ASSUMPTIONS = ['rules/props/wire_frozen.json is the reference taken from the pinned, triaged tree (tools/freeze_wire.py); a deliberate protocol change re-freezes it',
               'HTTP/JSON uses the same serde-derived SDK types on both sides (one definition per type)']

FROZEN = os.path.join(os.path.dirname(os.path.abspath(__file__)), 'wire_frozen.json')
SC = 'server::command::ServerCommand'
BS = 'iggy::bytes_serializable::BytesSerializable'
S2C = {'map_client': 'map_client', 'map_clients': 'map_clients', 'map_consumer_group': 'map_consumer_group', 'map_consumer_groups': 'map_consumer_groups', 'map_consumer_offset': 'map_consumer_offset',
       'map_identity_info': 'map_identity_info', 'map_personal_access_tokens': 'map_personal_access_tokens', 'map_polled_messages': 'map_polled_messages', 'map_raw_pat': 'map_raw_pat', 'map_stats': 'map_stats',
       'map_stream': 'map_stream', 'map_streams': 'map_streams', 'map_topic': 'map_topic', 'map_topics': 'map_topics', 'map_user': 'map_user', 'map_users': 'map_users'}


def helper_set(ctx):
    h = {f for f in ctx.facts.body_defs() if re.search(r'BytesSerializable>::(to_bytes|from_bytes)$', f)}
    h |= {f for f in ctx.facts.fns if f.startswith('server::binary::mapper::') or f.startswith('iggy::binary::mapper::')}
    h |= {f for f in ctx.facts.body_defs() if re.search(r'::(extend|as_bytes|from_raw_bytes|try_from_bytes|header_as_bytes)$', f) and (in_crate(f, 'iggy::') or in_crate(f, 'server::streaming::models') or in_crate(f, 'server::streaming::batching') or in_crate(f, 'server::state'))}
    return h


def codec_pairs(ctx):
    out = []
    for s, c in sorted(S2C.items()):
        out.append(('response ' + s, 'server::binary::mapper::' + s, 'iggy::binary::mapper::' + c))
    tys = sorted({m.group(1) for f in ctx.facts.body_defs() for m in [re.match(r'^<(.+) as %s>::to_bytes$' % re.escape(BS), f)] if m})
    for t in tys:
        w, r = '<%s as %s>::to_bytes' % (t, BS), '<%s as %s>::from_bytes' % (t, BS)
        if ctx.has(r) and t not in (SC,):
            out.append(('codec ' + t, w, r))
    out.append(('disk message', 'server::streaming::models::messages::RetainedMessage::extend', 'server::streaming::models::messages::RetainedMessage::try_from_bytes'))
    out.append(('disk batch header', 'server::streaming::batching::message_batch::RetainedMessageBatch::header_as_bytes', 'server::streaming::segments::logs::log_reader::SegmentLogReader::read_next_batch'))
    out.append(('disk index entry', 'server::streaming::segments::indexes::index_writer::SegmentIndexWriter::save_index', 'server::streaming::segments::indexes::index_reader::parse_index'))
    out.append(('index rebuild', 'server::compat::index_rebuilding::index_rebuilder::IndexRebuilder::write_index_entry', 'server::streaming::segments::indexes::index_reader::parse_index'))
    out.append(('index rebuild header', 'server::streaming::batching::message_batch::RetainedMessageBatch::header_as_bytes', 'server::compat::index_rebuilding::index_rebuilder::IndexRebuilder::read_batch_header'))
    out.append(('journal entry', '<server::state::entry::StateEntry as iggy::bytes_serializable::BytesSerializable>::to_bytes', '<server::state::file::FileState as server::state::State>::load_entries'))
    out.append(('consumer offset file', '<server::streaming::partitions::storage::FilePartitionStorage as server::streaming::storage::PartitionStorage>::save_consumer_offset', '<server::streaming::partitions::storage::FilePartitionStorage as server::streaming::storage::PartitionStorage>::load_consumer_offsets'))
    return out


def writer_fns(ctx):
    return sorted({w for _, w, _ in codec_pairs(ctx)} | {f for f in ctx.facts.fns if f.startswith('server::binary::mapper::')} | {'iggy::models::messages::PolledMessage::extend'})


def validate_fns(ctx):
    return sorted(f for f in ctx.facts.body_defs() if re.match(r'^<iggy::.+ as iggy::validatable::Validatable(<.*>)?>::validate$', f))


def run(ctx, rep):
    frozen = json.load(open(FROZEN))
    # ------------------------------------------------------------ R13.a code tables
    rep.rule('R13.a', 'command table: code ↔ payload type.code() ↔ decode arm ↔ variant ↔ dispatch arm ↔ handler parameter; codes are pairwise distinct', floor=45 * 2, analysis='A11')
    from props.c05 import _command_codes
    code_of = _command_codes(ctx)
    adt = ctx.facts.adts.get(SC)
    vtype = {v['name']: (v['fields'][0][1] if v['fields'] else None) for v in adt['variants']} if adt else {}
    fb = ctx.fn_body('<%s as %s>::from_bytes' % (SC, BS))
    seen = {}
    for bb, t, e in switch_exprs(fb):
        if t.get('ty') != 'u32':
            continue
        for val, tgt in t['arms']:
            region = {x for x in fb.reach if fb.dominates(tgt, x)}
            aggs = [s['rv']['variant'] for x in region for s in fb.stmts(x) if (s.get('rv') or {}).get('r') == 'agg' and s['rv'].get('adt') == SC]
            decs = [fb.calls_by_bb[x].name for x in region if x in fb.calls_by_bb and fb.calls_by_bb[x].name.endswith('>::from_bytes')]
            if len(aggs) != 1:
                rep.ob('R13.a', SC, 'code %d' % val, False, fb.where(tgt), 'arm for code %d builds %s' % (val, aggs))
                continue
            v = aggs[0]
            ty = vtype.get(v)
            ok = code_of.get(ty) == val and any(ty and dd.startswith('<' + ty + ' as ') for dd in decs)
            seen[v] = val
            rep.ob('R13.a', SC, 'code %d ↔ %s' % (val, v), ok, fb.where(tgt),
                   None if ok else 'code %d is decoded into variant %s, whose payload type %s reports code %s (decoder %s)' % (val, v, ty, code_of.get(ty), [short(x) for x in decs]))
    missing = set(vtype) - set(seen)
    rep.ob('R13.a', SC, 'every variant decodable', not missing and len(vtype) >= 45, None, '%d variants' % len(vtype) if not missing else 'no decode arm builds %s' % sorted(missing))
    vals = sorted(code_of.values())
    dup = sorted({v for v in vals if vals.count(v) > 1} - {42})   # CreatePersonalAccessTokenWithHash reuses the code of the command it wraps
    rep.ob('R13.a', 'iggy::command', 'codes pairwise distinct', not dup, None, '%d command types' % len(code_of) if not dup else 'several command types report code(s) %s' % dup)
    # dispatch
    tb = ctx.fn_body('server::binary::command::try_handle')
    sw = enum_switches(tb, {SC})
    if not sw:
        rep.anchor_lost('R13.a', 'match on ServerCommand in try_handle')
    else:
        bb, t, ty = sw[0]
        n = 0
        for v, blocks in arm_regions(tb, bb).items():
            vn = variant_name(ctx, ty, v) if v != 'else' else None
            if vn is None:
                continue
            hs = [tb.calls_by_bb[x] for x in blocks if x in tb.calls_by_bb and tb.calls_by_bb[x].name.startswith('server::binary::handlers::') and tb.calls_by_bb[x].name.endswith('::handle')]
            if len(hs) != 1:
                rep.ob('R13.a', 'server::binary::command::try_handle', 'dispatch ' + vn, False, tb.where(bb), 'variant %s is dispatched to %s' % (vn, [short(h.name) for h in hs]))
                continue
            rec = ctx.fn_record(hs[0].name)
            ok = bool(rec) and rec['params'][0] == vtype.get(vn)
            n += 1
            rep.ob('R13.a', 'server::binary::command::try_handle', 'dispatch ' + vn, ok, hs[0].where(),
                   None if ok else 'variant %s (payload %s) is handled by %s, which takes %s' % (vn, vtype.get(vn), hs[0].name, rec['params'][0] if rec else '?'))
        rep.ob('R13.a', 'server::binary::command::try_handle', 'all variants dispatched', n == len(vtype) and tb.is_unreachable_block(t['else']), tb.where(bb), '%d arms' % n)

    # ------------------------------------------------------------ R13.b/c layouts
    rep.rule('R13.b', 'wire layouts: for every codec pair the width sequence written equals the sequence read (or both equal their pinned reference where idioms differ)', floor=60, analysis='A11')
    helpers = helper_set(ctx)
    pairs = dict((n, (w, r)) for n, w, r in codec_pairs(ctx))
    for name, ref in sorted(frozen['pairs'].items()):
        if name not in pairs or not ctx.has(ref['writer']) or not ctx.has(ref['reader']):
            rep.ob('R13.b', ref['writer'], name, False, None, 'codec pair `%s` no longer exists' % name)
            continue
        a = wire.norm(wire.sequence(ctx, ref['writer'], helpers))
        b = wire.norm(wire.sequence(ctx, ref['reader'], helpers))
        if ref['mode'] == 'equal':
            ok = a == b
            rep.ob('R13.b', ref['writer'], name, ok, None, 'writes = reads = [%s]' % a[:80] if ok else 'writer emits [%s] but reader consumes [%s]' % (a, b))
        else:
            ok = a == ref['w'] and b == ref['r']
            rep.ob('R13.b', ref['writer'], name, ok, None, 'both sides equal their pinned layouts' if ok else
                   'layout drifted from the pinned reference: writer [%s] (pinned [%s]); reader [%s] (pinned [%s])' % (a, ref['w'], b, ref['r']))
    for name in sorted(set(pairs) - set(frozen['pairs'])):
        w, r = pairs[name]
        a = wire.norm(wire.sequence(ctx, w, helpers)); b = wire.norm(wire.sequence(ctx, r, helpers))
        rep.ob('R13.b', w, name, a == b, None, 'new codec pair: writes [%s], reads [%s]' % (a, b))

    rep.rule('R13.f', 'named layouts: the fields a writer emits, in order, are the fields the reader stores the values into (compared on the names both sides use; catches two same-width fields written or read in each other\'s place)', floor=30, analysis='A11')
    total = 0
    for name, ref in sorted(frozen['pairs'].items()):
        nm = ref.get('names')
        if not nm or name not in pairs or not ctx.has(ref['writer']) or not ctx.has(ref['reader']):
            continue
        nw, nr = wire.named_writer(ctx, ref['writer'], helpers), wire.named_reader(ctx, ref['reader'], helpers)
        ok, x, y = wire.named_agreement(nw, nr)
        total += len(x)
        if nm['mode'] == 'equal':
            rep.ob('R13.f', ref['writer'], name, ok, None, 'fields in order: %s' % ' '.join(x)[:120] if ok else
                   'the writer emits the fields [%s] but the reader stores the values as [%s]' % (' '.join(x), ' '.join(y)))
        else:
            ok2 = x == nm['w'] and y == nm['r']
            rep.ob('R13.f', ref['writer'], name, ok2, None, 'both sides keep their pinned field order' if ok2 else
                   'field order drifted from the pinned reference: writer [%s] (pinned [%s]); reader [%s] (pinned [%s])' % (' '.join(x), ' '.join(nm['w']), ' '.join(y), ' '.join(nm['r'])))
    want = sum(len(ref['names']['w']) for ref in frozen['pairs'].values() if ref.get('names'))
    rep.ob('R13.f', 'iggy::bytes_serializable', 'labelled fields', total * 10 >= want * 8, None, '%d field positions compared (reference %d)' % (total, want))

    rep.rule('R13.b2', 'the count written in front of an element loop is the length of the collection the loop writes', floor=7, analysis='A9')
    for fn, ref in sorted(frozen['count_prefixes'].items()):
        if not ctx.has(fn):
            rep.ob('R13.b2', fn, 'exists', False, None, 'writer no longer exists')
            continue
        got = wire.count_prefixes(ctx, fn)
        ok = [list(x) for x in got] == [list(x) for x in ref]
        rep.ob('R13.b2', fn, 'count prefixes', ok, None, str(got)[:140] if ok else 'element loops and their count prefixes changed: now %s, pinned %s — the reader takes the count from the prefix' % (got, ref))

    rep.rule('R13.c', 'every validate() keeps its confirmed comparisons (byte lengths and ranges that bound what is cast on the wire)', floor=30, analysis='A10')
    for fn, ref in sorted(frozen['validate'].items()):
        if not ctx.has(fn):
            rep.ob('R13.c', fn, 'exists', False, None, 'validator no longer exists')
            continue
        check_comparisons(ctx, rep, 'R13.c', {fn: ref})

    # ------------------------------------------------------------ R13.e bad frames never reach a handler
    rep.rule('R13.e', 'a frame reaches command::handle only after ServerCommand::from_bytes and validate() succeeded; failures are answered with an error response', floor=4, analysis='A2')
    for fn in ('server::tcp::connection_handler::handle_connection', 'server::quic::listener::handle_stream'):
        if not ctx.has(fn):
            rep.anchor_lost('R13.e', fn)
            continue
        b = ctx.fn_body(fn)
        h = [c for c in b.calls if c.name == 'server::binary::command::handle']
        dec = [c for c in b.calls if c.name == '<%s as %s>::from_bytes' % (SC, BS) or c.name.endswith('ServerCommand::from_bytes')]
        val = [c for c in b.calls if c.name.endswith('::validate') and is_user_call(c)]
        if not h or not dec or not val:
            rep.ob('R13.e', fn, 'decode+validate before dispatch', False, None, 'handle=%d decode=%d validate=%d call sites' % (len(h), len(dec), len(val)))
            continue
        ok = success_dominates(b, dec[0], h[0].bb) and any(success_dominates(b, v, h[0].bb) for v in val)
        rep.ob('R13.e', fn, 'decode+validate before dispatch', ok, h[0].where(), None if ok else 'a frame can reach the handlers without having been decoded and validated successfully')
        errs = [c for c in b.calls if c.name.endswith('send_error_response')]
        heads = {c.bb for c in b.calls if c.name.endswith('::read') and is_user_call(c)}
        def answered_(call):
            errexits = {eb for eb, _ in err_exit_sites(b)}
            return any(any(c.bb in b.reachable(x, avoid_blocks=heads) for c in errs) or bool(errexits & b.reachable(x, avoid_blocks=heads)) for x in failure_edge_blocks(b, call))
        answered = answered_(dec[0]) and any(answered_(v) for v in val)
        rep.ob('R13.e', fn, 'failures answered with an error or a closed stream', answered, errs[0].where() if errs else None, None if answered else 'a decode/validation failure is neither answered with an error response nor ends the stream with an error')
