"""C13 — client and server agree on every request and response they exchange (structural clauses)."""
import json, os, re
from lib import *
from mir import render, walk, short, canon
from engine import AnchorLost
import wire

TECHNIQUE = 'code-table agreement (constant ↔ type.code() ↔ decode arm ↔ variant payload ↔ dispatch arm ↔ handler parameter), wire layouts as width sequences writer↔reader, count-prefix provenance, validator comparison forms, decode/validate dominance before dispatch (A2, A10, A11)'
EXPLANATION = ('Decides on the MIR of the current tree: every command code is decoded by the server into the variant whose payload type reports that code and is dispatched to the handler taking that type, no two '
               'codes coincide; for every response mapper pair (server writer, SDK reader), every SDK to_bytes/from_bytes pair, the journal entry and command codecs and the on-disk message codec, the sequence of '
               'fixed widths and variable parts written equals the sequence read (or, for pairs that use different but compatible idioms, both still equal their pinned reference); the count written in front of '
               'an element loop is the length of the collection that the loop writes; every validate() keeps its confirmed byte-length and range comparisons (they bound the lengths that are cast to u8/u32 on the wire); '
               'a frame reaches a handler only after it was decoded and validated successfully, failures are answered with an error response. Also: named layouts - the fields a writer emits, in order, are the fields the reader stores the values into (compared on the names both sides use), which catches two same-width fields written or read in each other\'s place. Not decided: value-level round trips, serde behaviour for HTTP/JSON.')
ASSUMPTIONS = ['rules/props/wire_frozen.json is the reference taken from the pinned, triaged tree (tools/freeze_wire.py); a deliberate protocol change re-freezes it',
               'HTTP/JSON uses the same serde-derived SDK types on both sides (one definition per type)']

FROZEN = os.path.join(os.path.dirname(os.path.abspath(__file__)), 'wire_frozen.json')
SC = 'server::command::ServerCommand'
BS = 'iggy::bytes_serializable::BytesSerializable'
S2C = {'map_client': 'map_client', 'map_clients': 'map_clients', 'map_consumer_group': 'map_consumer_group', 'map_consumer_groups': 'map_consumer_groups', 'map_consumer_offset': 'map_consumer_offset',
       'map_identity_info': 'map_identity_info', 'map_personal_access_tokens': 'map_personal_access_tokens', 'map_polled_messages': 'map_polled_messages', 'map_raw_pat': 'map_raw_pat', 'map_stats': 'map_stats',
       'map_stream': 'map_stream', 'map_streams': 'map_streams', 'map_topic': 'map_topic', 'map_topics': 'map_topics', 'map_user': 'map_user', 'map_users': 'map_users'}


def helper_set(ctx):
    h = {f for f in ctx.facts.body_defs() if re.search(r'BytesSerializable>::(to_bytes|from_bytes)$', f)}
    h |= {f for f in ctx.facts.fns if f.startswith('server::binary::mapper::') or f.startswith('iggy::binary::mapper::')}
    h |= {f for f in ctx.facts.body_defs() if re.search(r'::(extend|as_bytes|from_raw_bytes|try_from_bytes|header_as_bytes)$', f) and (in_crate(f, 'iggy::') or in_crate(f, 'server::streaming::models') or in_crate(f, 'server::streaming::batching') or in_crate(f, 'server::state'))}
    return h


def codec_pairs(ctx):
    out = []
    for s, c in sorted(S2C.items()):
        out.append(('response ' + s, 'server::binary::mapper::' + s, 'iggy::binary::mapper::' + c))
    tys = sorted({m.group(1) for f in ctx.facts.body_defs() for m in [re.match(r'^<(.+) as %s>::to_bytes$' % re.escape(BS), f)] if m})
    for t in tys:
        w, r = '<%s as %s>::to_bytes' % (t, BS), '<%s as %s>::from_bytes' % (t, BS)
        if ctx.has(r) and t not in (SC,):
            out.append(('codec ' + t, w, r))
    out.append(('disk message', 'server::streaming::models::messages::RetainedMessage::extend', 'server::streaming::models::messages::RetainedMessage::try_from_bytes'))
    out.append(('disk batch header', 'server::streaming::batching::message_batch::RetainedMessageBatch::header_as_bytes', 'server::streaming::segments::logs::log_reader::SegmentLogReader::read_next_batch'))
    out.append(('disk index entry', 'server::streaming::segments::indexes::index_writer::SegmentIndexWriter::save_index', 'server::streaming::segments::indexes::index_reader::parse_index'))
    out.append(('index rebuild', 'server::compat::index_rebuilding::index_rebuilder::IndexRebuilder::write_index_entry', 'server::streaming::segments::indexes::index_reader::parse_index'))
    out.append(('index rebuild header', 'server::streaming::batching::message_batch::RetainedMessageBatch::header_as_bytes', 'server::compat::index_rebuilding::index_rebuilder::IndexRebuilder::read_batch_header'))
    out.append(('journal entry', '<server::state::entry::StateEntry as iggy::bytes_serializable::BytesSerializable>::to_bytes', '<server::state::file::FileState as server::state::State>::load_entries'))
    out.append(('consumer offset file', '<server::streaming::partitions::storage::FilePartitionStorage as server::streaming::storage::PartitionStorage>::save_consumer_offset', '<server::streaming::partitions::storage::FilePartitionStorage as server::streaming::storage::PartitionStorage>::load_consumer_offsets'))
    return out


def writer_fns(ctx):
    return sorted({w for _, w, _ in codec_pairs(ctx)} | {f for f in ctx.facts.fns if f.startswith('server::binary::mapper::')} | {'iggy::models::messages::PolledMessage::extend'})


def validate_fns(ctx):
    return sorted(f for f in ctx.facts.body_defs() if re.match(r'^<iggy::.+ as iggy::validatable::Validatable(<.*>)?>::validate$', f))


def run(ctx, rep):
    frozen = json.load(open(FROZEN))
    # ------------------------------------------------------------ R13.a code tables
    rep.rule('R13.a', 'command table: code ↔ payload type.code() ↔ decode arm ↔ variant ↔ dispatch arm ↔ handler parameter; codes are pairwise distinct', floor=45 * 2, analysis='A11')
    from props.c05 import _command_codes
    code_of = _command_codes(ctx)
    adt = ctx.facts.adts.get(SC)
    vtype = {v['name']: (v['fields'][0][1] if v['fields'] else None) for v in adt['variants']} if adt else {}
    fb = ctx.fn_body('<%s as %s>::from_bytes' % (SC, BS))
    seen = {}
    for bb, t, e in switch_exprs(fb):
        if t.get('ty') != 'u32':
            continue
        for val, tgt in t['arms']:
            region = {x for x in fb.reach if fb.dominates(tgt, x)}
            aggs = [s['rv']['variant'] for x in region for s in fb.stmts(x) if (s.get('rv') or {}).get('r') == 'agg' and s['rv'].get('adt') == SC]
            decs = [fb.calls_by_bb[x].name for x in region if x in fb.calls_by_bb and fb.calls_by_bb[x].name.endswith('>::from_bytes')]
            if len(aggs) != 1:
                rep.ob('R13.a', SC, 'code %d' % val, False, fb.where(tgt), 'arm for code %d builds %s' % (val, aggs))
                continue
            v = aggs[0]
            ty = vtype.get(v)
            ok = code_of.get(ty) == val and any(ty and dd.startswith('<' + ty + ' as ') for dd in decs)
            seen[v] = val
            rep.ob('R13.a', SC, 'code %d ↔ %s' % (val, v), ok, fb.where(tgt),
                   None if ok else 'code %d is decoded into variant %s, whose payload type %s reports code %s (decoder %s)' % (val, v, ty, code_of.get(ty), [short(x) for x in decs]))
    missing = set(vtype) - set(seen)
    rep.ob('R13.a', SC, 'every variant decodable', not missing and len(vtype) >= 45, None, '%d variants' % len(vtype) if not missing else 'no decode arm builds %s' % sorted(missing))
    vals = sorted(code_of.values())
    dup = sorted({v for v in vals if vals.count(v) > 1} - {42})   # CreatePersonalAccessTokenWithHash reuses the code of the command it wraps
    rep.ob('R13.a', 'iggy::command', 'codes pairwise distinct', not dup, None, '%d command types' % len(code_of) if not dup else 'several command types report code(s) %s' % dup)
    # dispatch
    tb = ctx.fn_body('server::binary::command::try_handle')
    sw = enum_switches(tb, {SC})
    if not sw:
        rep.anchor_lost('R13.a', 'match on ServerCommand in try_handle')
    else:
        bb, t, ty = sw[0]
        n = 0
        for v, blocks in arm_regions(tb, bb).items():
            vn = variant_name(ctx, ty, v) if v != 'else' else None
            if vn is None:
                continue
            hs = [tb.calls_by_bb[x] for x in blocks if x in tb.calls_by_bb and tb.calls_by_bb[x].name.startswith('server::binary::handlers::') and tb.calls_by_bb[x].name.endswith('::handle')]
            if len(hs) != 1:
                rep.ob('R13.a', 'server::binary::command::try_handle', 'dispatch ' + vn, False, tb.where(bb), 'variant %s is dispatched to %s' % (vn, [short(h.name) for h in hs]))
                continue
            rec = ctx.fn_record(hs[0].name)
            ok = bool(rec) and rec['params'][0] == vtype.get(vn)
            n += 1
            rep.ob('R13.a', 'server::binary::command::try_handle', 'dispatch ' + vn, ok, hs[0].where(),
                   None if ok else 'variant %s (payload %s) is handled by %s, which takes %s' % (vn, vtype.get(vn), hs[0].name, rec['params'][0] if rec else '?'))
        rep.ob('R13.a', 'server::binary::command::try_handle', 'all variants dispatched', n == len(vtype) and tb.is_unreachable_block(t['else']), tb.where(bb), '%d arms' % n)

    # ------------------------------------------------------------ R13.b/c layouts
    rep.rule('R13.b', 'wire layouts: for every codec pair the width sequence written equals the sequence read (or both equal their pinned reference where idioms differ)', floor=60, analysis='A11')
    helpers = helper_set(ctx)
    pairs = dict((n, (w, r)) for n, w, r in codec_pairs(ctx))
    for name, ref in sorted(frozen['pairs'].items()):
        if name not in pairs or not ctx.has(ref['writer']) or not ctx.has(ref['reader']):
            rep.ob('R13.b', ref['writer'], name, False, None, 'codec pair `%s` no longer exists' % name)
            continue
        a = wire.norm(wire.sequence(ctx, ref['writer'], helpers))
        b = wire.norm(wire.sequence(ctx, ref['reader'], helpers))
        if ref['mode'] == 'equal':
            ok = a == b
            rep.ob('R13.b', ref['writer'], name, ok, None, 'writes = reads = [%s]' % a[:80] if ok else 'writer emits [%s] but reader consumes [%s]' % (a, b))
        else:
            ok = a == ref['w'] and b == ref['r']
            rep.ob('R13.b', ref['writer'], name, ok, None, 'both sides equal their pinned layouts' if ok else
                   'layout drifted from the pinned reference: writer [%s] (pinned [%s]); reader [%s] (pinned [%s])' % (a, ref['w'], b, ref['r']))
    for name in sorted(set(pairs) - set(frozen['pairs'])):
        w, r = pairs[name]
        a = wire.norm(wire.sequence(ctx, w, helpers)); b = wire.norm(wire.sequence(ctx, r, helpers))
        rep.ob('R13.b', w, name, a == b, None, 'new codec pair: writes [%s], reads [%s]' % (a, b))

    rep.rule('R13.f', 'named layouts: the fields a writer emits, in order, are the fields the reader stores the values into (compared on the names both sides use; catches two same-width fields written or read in each other\'s place)', floor=30, analysis='A11')
    total = 0
    for name, ref in sorted(frozen['pairs'].items()):
        nm = ref.get('names')
        if not nm or name not in pairs or not ctx.has(ref['writer']) or not ctx.has(ref['reader']):
            continue
        nw, nr = wire.named_writer(ctx, ref['writer'], helpers), wire.named_reader(ctx, ref['reader'], helpers)
        ok, x, y = wire.named_agreement(nw, nr)
        total += len(x)
        if nm['mode'] == 'equal':
            rep.ob('R13.f', ref['writer'], name, ok, None, 'fields in order: %s' % ' '.join(x)[:120] if ok else
                   'the writer emits the fields [%s] but the reader stores the values as [%s]' % (' '.join(x), ' '.join(y)))
        else:
            ok2 = x == nm['w'] and y == nm['r']
            rep.ob('R13.f', ref['writer'], name, ok2, None, 'both sides keep their pinned field order' if ok2 else
                   'field order drifted from the pinned reference: writer [%s] (pinned [%s]); reader [%s] (pinned [%s])' % (' '.join(x), ' '.join(nm['w']), ' '.join(y), ' '.join(nm['r'])))
    want = sum(len(ref['names']['w']) for ref in frozen['pairs'].values() if ref.get('names'))
    rep.ob('R13.f', 'iggy::bytes_serializable', 'labelled fields', total * 10 >= want * 8, None, '%d field positions compared (reference %d)' % (total, want))

    rep.rule('R13.g', 'cursor discipline of the decoders: between two reads of the buffer at the same cursor expression the cursor is advanced on every path (a dropped or branch-local `position += n` makes the next field be decoded from the bytes of the previous one)', floor=25, analysis='A11 cursor tracking')
    readers = sorted({r for _, _, r in codec_pairs(ctx)} | {f for f in ctx.facts.body_defs() if re.search(r'::(from_bytes|from_raw_bytes|try_from_bytes|map_to_\w+)$', f) and (in_crate(f, 'iggy::') or in_crate(f, 'server::'))})
    for f in readers:
        if not ctx.has(f):
            continue
        bad, n = wire.cursor_double_reads(ctx, f)
        if n == 0:
            continue
        rep.ob('R13.g', f, 'cursor advanced between reads', not bad, None, '%d reads through a cursor' % n if not bad else
               'the read at line %s and the read at line %s both decode from `%s` and a path between them does not advance the cursor' % (bad[0][0], bad[0][1], bad[0][2]))

    rep.rule('R13.h', 'the length prefix the server writes in front of a payload is the length of that payload: a message rebuilt after decryption carries length = len(decrypted payload), and PolledMessage::extend writes length then payload', floor=2, analysis='A10 aggregate forms')
    import forms as forms_
    PM = 'iggy::models::messages::PolledMessage'
    SYSF = 'server::streaming::systems::system::System::poll_messages'
    aggs = []
    for d_ in [x for x in ctx.facts.body_defs() if x == SYSF or x.startswith(SYSF + '::{closure')]:
        kb = ctx.body(d_)
        for blk in sorted(kb.reach):
            for st in kb.stmts(blk):
                rv = st.get('rv')
                if rv and rv['r'] == 'agg' and rv.get('adt') == PM and not st.get('x', '').startswith('m:'):
                    e = kb._pexpr_rvalue(rv, 0, frozenset())
                    aggs.append((dict((n, canon(v, 0, 3)) for n, v in e[3]), '%s:%s' % (kb.file, st.get('ln'))))
    if not aggs:
        rep.anchor_lost('R13.h', 'PolledMessage rebuilt in System::poll_messages')
    for f_, where in aggs:
        pl, ln_ = f_.get('payload', ''), f_.get('length', '')
        ok = 'decrypt' in pl and ln_.startswith('Vec::len(') and 'decrypt' in ln_ or (ln_ == 'Vec::len(%s)' % pl)
        rep.ob('R13.h', SYSF, 'length = len(decrypted payload)', ok, where, 'length: %s' % ln_[:90] if ok else
               'the rebuilt message carries length `%s` but payload `%s`: the length prefix on the wire disagrees with the bytes that follow it' % (ln_[:80], pl[:80]))
    ext = 'iggy::models::messages::PolledMessage::extend'
    if ctx.has(ext):
        nw = wire.named_writer(ctx, ext, helpers)
        okx = [x for x in nw if x in ('length', 'payload')] [-2:] == ['length', 'payload']
        rep.ob('R13.h', ext, 'length written in front of the payload', okx, None, ' '.join(nw) if okx else 'PolledMessage::extend emits %s' % nw)

    rep.rule('R13.i', 'HTTP paths: every complete path template the SDK formats (first segment is a resource the server routes) matches a registered server route segment by segment (literal = literal, argument = path parameter)', floor=6, analysis='A11 tables')
    sdk_t, srv_r = wire.http_templates(ctx)
    routes = sorted({r for v in srv_r.values() for r in v})
    roots = {wire._segs(r)[0] for r in routes if wire._segs(r)}
    nt = 0
    for fn, ts in sorted(sdk_t.items()):
        for t in ts:
            sg = wire._segs(t)
            if not sg or sg[0] not in roots:
                continue   # a fragment ("{}/{}") that is appended to a base path elsewhere
            nt += 1
            okm = wire.template_matches(t, routes)
            rep.ob('R13.i', fn, 'path ' + t, okm, None, 'matches a server route' if okm else
                   'the SDK requests `%s` but no server route has this shape (routes of this resource: %s): the request can only be answered 404/400' % (t, [r for r in routes if wire._segs(r)[:1] == sg[:1] and len(wire._segs(r)) == len(sg)][:4]))
    rep.ob('R13.i', 'server::http', 'routes enumerated', len(routes) >= 25, None, '%d routes, %d complete SDK templates' % (len(routes), nt))

    rep.rule('R13.j', 'HTTP handlers act on the stream and topic named in the request path: every Identifier handed to a System operation as stream_id / topic_id is built from a path parameter (directly, or through the request field the handler fills from it), never left at the serde-skipped default', floor=30, analysis='A9 provenance')
    SYSP = 'server::streaming::systems::system::System::'
    CONV = ('from_str_value', 'try_into', 'try_from', 'from_str', 'numeric', 'named')
    for df in sorted(ctx.facts.body_defs()):
        if not df.startswith('server::http::') or df.startswith('server::http::jwt') or '::{closure' not in df:
            continue
        hb = ctx.body(df)
        hfn = ctx.user_fn_of(df)
        for c in hb.calls:
            if not c.name.startswith(SYSP) or not is_user_call(c):
                continue
            rec = ctx.fn_record(c.name)
            if not rec:
                continue
            for i, pn in enumerate(rec['pnames']):
                if pn == 'self' or i >= len(c.args) or not rec['params'][i].endswith('Identifier'):
                    continue
                e = hb.expr_operand(c.args[i])
                ok = any(x[0] == 'call' and x[1].split('::')[-1] in CONV for x in walk(e))
                if not ok:
                    fe = strip_adaptors(e)
                    if fe[0] == 'field':
                        for blk in sorted(hb.reach):
                            for st in hb.stmts(blk):
                                lhs = st.get('lhs')
                                if lhs and len(lhs) > 1 and place_fields(lhs) and place_fields(lhs)[-1][1] == fe[2] and hb.dominates(blk, c.bb):
                                    r = hb._expr_rvalue(st['rv'], 0, frozenset())
                                    if any(x[0] == 'call' and x[1].split('::')[-1] in CONV for x in walk(r)):
                                        ok = True
                rep.ob('R13.j', hfn, '%s(%s) from the path' % (short(c.name), pn), ok, c.where(), None if ok else
                       '%s receives `%s` as %s: the field is #[serde(skip)] and the handler never fills it from the path, so the operation always addresses the default identifier (numeric 1), whatever stream/topic the request names' % (short(c.name), render(e)[:60], pn))

    rep.rule('R13.k', 'frames are read completely: a primitive that may return fewer bytes than asked for (AsyncReadExt::read, RecvStream::read) fills a frame buffer only inside a loop that consumes its count; the transport readers use read_exact (sibling transports agree)', floor=2, analysis='A14 read-all discipline')
    SHORT = ('tokio::io::AsyncReadExt::read', 'std::io::Read::read', 'tokio::io::AsyncReadExt::read_buf', 'quinn::RecvStream::read')
    DEAD = {'<server::quic::quic_sender::QuicSender as server::binary::sender::Sender>::read':
            'never called: QUIC requests are read with RecvStream::read_to_end in the listener; only the TCP connection handler calls Sender::read, on TCP / TCP-TLS senders'}
    nshort = 0
    for df in sorted(ctx.facts.body_defs()):
        if not (in_crate(df, 'server::') or in_crate(df, 'iggy::')) or '::tests' in df:
            continue
        raw = ctx.facts.raw_body(df)
        if not any((bl.get('term') or {}).get('fn', '') in SHORT for bl in raw['blocks']):
            continue
        rb = ctx.body(df)
        for c in rb.calls:
            if c.fn not in SHORT or not is_user_call(c):
                continue
            nshort += 1
            fn_ = ctx.user_fn_of(df)
            loops = [bl for h, bl in natural_loops(rb) if c.bb in bl]
            if fn_ in DEAD:
                rep.ob('R13.k', fn_, short(c.fn) + ' fills the whole buffer', True, c.where(), 'listed: ' + DEAD[fn_])
                continue
            rep.ob('R13.k', fn_, short(c.fn) + ' fills the whole buffer', bool(loops), c.where(), 'count consumed in a loop' if loops else
                   '`%s` may return after a part of the buffer (one TLS record, one QUIC chunk); the caller sized the buffer from the frame length and treats it as filled: a response longer than one record is decoded from a partly filled buffer and the rest desynchronises the connection (the plain TCP sibling uses read_exact)' % short(c.fn))
    siblings = {}
    for df in sorted(ctx.facts.body_defs()):
        m = re.match(r'^<(iggy::tcp::client::\w+) as iggy::tcp::client::ConnectionStream>::read', df)
        if m and '__CALLSITE' not in df:
            rb = ctx.body(df)
            siblings.setdefault(df.split('::{')[0], set()).update(c.fn.split('::')[-1] for c in rb.calls if is_user_call(c) and (c.fn or '').split('::')[-1] in ('read', 'read_exact'))
    for fn_, prims in sorted(siblings.items()):
        rep.ob('R13.k', fn_, 'transport reader uses read_exact', prims == {'read_exact'}, None, 'reads with %s' % sorted(prims))
    rep.ob('R13.k', 'iggy::tcp::client', 'transport readers enumerated', len(siblings) >= 2, None, '%d ConnectionStream::read implementations, %d short-read call sites' % (len(siblings), nshort))

    rep.rule('R13.l', 'a frame length taken from the wire is bounded before it sizes a buffer, in every transport (QUIC: read_to_end(limit); TCP: comparison with a limit dominating the allocation): a bad frame must not cost the other connections their memory', floor=2, analysis='A3+A9')
    for fn in ('server::tcp::connection_handler::handle_connection', 'server::quic::listener::handle_stream'):
        if not ctx.has(fn):
            rep.anchor_lost('R13.l', fn)
            continue
        hb = ctx.fn_body(fn)
        sized = [c for c in hb.calls if is_user_call(c) and c.name.split('::')[-1] in ('with_capacity', 'put_bytes', 'resize', 'read_to_end', 'reserve')]
        if not sized:
            rep.anchor_lost('R13.l', 'buffer sized from the frame length in ' + fn)
        for c in sized:
            last = c.name.split('::')[-1]
            szarg = c.args[-1] if last in ('put_bytes', 'read_to_end', 'resize') else c.args[0]
            se = hb.pexpr_operand(szarg)
            if se[0] == 'const' or se[0] == 'constitem':
                rep.ob('R13.l', fn, '%s bounded' % last, True, c.where(), 'constant limit %s' % canon(se, 0, 1))
                continue
            fromwire = any(x[0] == 'call' and x[1].split('::')[-1] in ('from_le_bytes', 'get_u32_le', 'read_u32_le') for x in walk(se))
            if not fromwire:
                continue
            sform = canon(se, 0, 3)
            guarded = False
            for e, truth, _ in bool_literals_at(hb, c.bb):
                if e[0] == 'bin' and e[1] in ('Le', 'Lt', 'Ge', 'Gt'):
                    sides = [canon(hb_e, 0, 3) for hb_e in (e[2], e[3])]
                    if any('from_le_bytes' in x for x in sides) and any(('MAX' in x.upper() or x.isdigit() or 'max' in x or 'size' in x) for x in sides):
                        guarded = True
            rep.ob('R13.l', fn, '%s bounded' % last, guarded, c.where(), 'dominated by a comparison of the announced length with a limit' if guarded else
                   'a buffer is sized by `%s`, the length announced by the client, with no dominating upper bound: four bytes from an unauthenticated connection make the server commit up to 4 GiB' % sform[:60])

    rep.rule('R13.m', 'the SDK connects to the server it is configured for: every TcpStream::connect in the TCP client receives the configured server address (the TLS handshake runs on that socket, not on a second connection)', floor=1, analysis='A9 provenance')
    ncon = 0
    for df in sorted(ctx.facts.body_defs()):
        if not (df.startswith('iggy::tcp::client::') or df.startswith('<iggy::tcp::client::')):
            continue
        kb = ctx.body(df)
        for c in kb.calls:
            if c.name.endswith('TcpStream::connect') and is_user_call(c):
                ncon += 1
                f_ = canon(kb.pexpr_operand(c.args[0], 0, frozenset(), (c.bb, "t")), 0, 3)
                ok = f_ == 'self.config.server_address'
                rep.ob('R13.m', ctx.user_fn_of(df), 'connect(%s)' % f_[:60], ok, c.where(), None if ok else
                       'a connection is opened to `%s`, not to the configured server address: the TLS session is attempted on a socket to the client\'s own local address and can never be established' % f_[:90])
    if ncon == 0:
        rep.anchor_lost('R13.m', 'TcpStream::connect in iggy::tcp::client')

    rep.rule('R13.n', 'one bad connection does not take the listener down: inside the accept loop of a listener no may-panic site depends on what the connecting peer does (start-up panics before the loop are configuration errors)', floor=2, analysis='A7')
    for fn in ('server::tcp::tcp_listener::start', 'server::tcp::tcp_tls_listener::start', 'server::quic::listener::start'):
        if not ctx.has(fn):
            rep.anchor_lost('R13.n', fn)
            continue
        nloop = 0
        for site in may_panic_sites(ctx, fn):
            kind, key, where, kb, bb = site
            if kind.startswith('assert_overflow'):
                continue
            acc = [c for c in kb.calls if c.name.split('::')[-1] == 'accept']
            inacc = any(bb in bl and any(c.bb in bl for c in acc) for h, bl in natural_loops(kb))
            if not inacc:
                continue
            nloop += 1
            g = panic_guarded(site)
            rep.ob('R13.n', fn, key[:100], bool(g), where, g if g else
                   'inside the accept loop `%s` panics when the peer misbehaves (e.g. a failed TLS handshake): the listener task dies and no further connection of this transport is accepted' % key[:80])
        acc_any = any(c.name.split('::')[-1] == 'accept' for d_ in ctx.facts.body_defs() if d_ == fn or d_.startswith(fn + '::{closure') for c in ctx.body(d_).calls)
        rep.ob('R13.n', fn, 'accept loop found', acc_any, None, '%d may-panic sites inside the loop' % nloop)

    rep.rule('R13.o', 'hand-written JSON key codec: the statistics map key is written as "{stream}-{topic}-{partition}" and parsed back into the same fields (field order of to_string_key = index each field is parsed from)', floor=3, analysis='A11 tables')
    KEY = 'iggy::models::stats::CacheMetricsKey'
    if not ctx.has(KEY + '::to_string_key') or not ctx.has('iggy::models::stats::cache_metrics_serializer::deserialize'):
        rep.anchor_lost('R13.o', 'CacheMetricsKey::to_string_key / cache_metrics_serializer::deserialize')
    else:
        kb = ctx.fn_body(KEY + '::to_string_key')
        order = []
        for blk in sorted(kb.reach):
            for st in kb.stmts(blk):
                rv = st.get('rv') or {}
                if rv.get('r') == 'agg' and rv.get('kind') == 'tuple' and len(rv['ops']) >= 2:
                    order = [canon(kb.pexpr_operand(o), 0, 2).split('.')[-1] for o in rv['ops']]
        ag = forms_.aggregate_forms(ctx, 'iggy::models::stats::cache_metrics_serializer::deserialize', KEY)
        if not order or not ag:
            rep.anchor_lost('R13.o', 'format arguments / CacheMetricsKey aggregate')
        else:
            fields = ag[0][0]
            for i, fname in enumerate(order):
                m = re.search(r', (\d+)\)\)$', fields.get(fname, ''))
                ok = bool(m) and int(m.group(1)) == i
                rep.ob('R13.o', KEY, '%s is part %d of the key' % (fname, i), ok, ag[0][1], None if ok else
                       'to_string_key writes `%s` as part %d of the key but the deserializer fills it from `%s`: over HTTP/JSON the metrics are attributed to another topic / partition' % (fname, i, fields.get(fname)))

    rep.rule('R13.q', 'hand-written JSON adapters of the scalar wrapper types write and read the same unit: the serializer emits as_micros / as_bytes_u64 as u64 and the visitor rebuilds the value from the same unit (frozen operation table per impl)', floor=10, analysis='A6 operation tables')
    ADAPTERS = {
        '<iggy::utils::duration::IggyDuration as Serialize>::serialize': ['IggyDuration::as_micros', 'Serializer::serialize_u64'],
        '<iggy::utils::duration::IggyDuration as Deserialize>::deserialize': ['Deserializer::deserialize_u64'],
        '<iggy::utils::duration::IggyDurationVisitor as de::Visitor>::visit_u64': ['Duration::from_micros', 'IggyDuration::new'],
        '<iggy::utils::expiry::IggyExpiry as Serialize>::serialize': ['IggyDuration::as_micros', 'Serializer::serialize_u64'],
        '<iggy::utils::expiry::IggyExpiry as Deserialize>::deserialize': ['Deserializer::deserialize_u64'],
        '<iggy::utils::expiry::IggyExpiryVisitor as de::Visitor>::visit_u64': ['::from'],
        '<iggy::utils::timestamp::IggyTimestamp as Serialize>::serialize': ['IggyTimestamp::as_micros', 'Serializer::serialize_u64'],
        '<iggy::utils::timestamp::IggyTimestamp as Deserialize>::deserialize': ['Deserializer::deserialize_u64'],
        '<iggy::utils::timestamp::IggyTimestampVisitor as de::Visitor>::visit_u64': ['::from'],
        '<iggy::utils::topic_size::MaxTopicSize as Serialize>::serialize': ['IggyByteSize::as_bytes_u64', 'Serializer::serialize_u64'],
        '<iggy::utils::topic_size::MaxTopicSize as Deserialize>::deserialize': ['Deserializer::deserialize_u64'],
        '<iggy::utils::topic_size::MaxTopicSizeVisitor as de::Visitor>::visit_u64': ['::from'],
        '<iggy::compression::compression_algorithm::CompressionAlgorithm as Serialize>::serialize': ['Serializer::serialize_str'],
        '<iggy::compression::compression_algorithm::CompressionAlgorithm as Deserialize>::deserialize': ['Deserializer::deserialize_str'],
    }
    byname = {}
    for f in ctx.facts.body_defs():
        if '::{' in f or not f.startswith('<iggy::'):
            continue
        k = re.sub(r'iggy::args::_::_serde::', '', f)
        if k in ADAPTERS:
            byname[k] = f
    for k, want in sorted(ADAPTERS.items()):
        f = byname.get(k)
        if f is None:
            rep.ob('R13.q', k, 'adapter exists', False, None, 'hand-written serde impl %s is gone' % k)
            continue
        ops = sorted({short(c.name) for d_ in ctx.facts.body_defs() if d_ == f or d_.startswith(f + '::{closure') for c in ctx.body(d_).calls
                      if is_user_call(c) and (not c.name.startswith(('serde', '<serde', 'std::', 'core::', '<std', '<core', 'alloc', '<alloc')) or 'Duration::from_' in c.name)})
        ok = ops == sorted(want)
        rep.ob('R13.q', k, 'operations', ok, None, ' '.join(ops) if ok else 'the adapter now uses %s (confirmed: %s): the unit written to JSON and the unit read back may differ' % (ops, sorted(want)))

    from props.c05 import journalled_decoders_do_not_validate
    journalled_decoders_do_not_validate(ctx, rep, 'R13.p')

    rep.rule('R13.b2', 'the count written in front of an element loop is the length of the collection the loop writes', floor=7, analysis='A9')
    for fn, ref in sorted(frozen['count_prefixes'].items()):
        if not ctx.has(fn):
            rep.ob('R13.b2', fn, 'exists', False, None, 'writer no longer exists')
            continue
        got = wire.count_prefixes(ctx, fn)
        ok = [list(x) for x in got] == [list(x) for x in ref]
        rep.ob('R13.b2', fn, 'count prefixes', ok, None, str(got)[:140] if ok else 'element loops and their count prefixes changed: now %s, pinned %s — the reader takes the count from the prefix' % (got, ref))

    rep.rule('R13.c', 'every validate() keeps its confirmed comparisons (byte lengths and ranges that bound what is cast on the wire)', floor=30, analysis='A10')
    for fn, ref in sorted(frozen['validate'].items()):
        if not ctx.has(fn):
            rep.ob('R13.c', fn, 'exists', False, None, 'validator no longer exists')
            continue
        check_comparisons(ctx, rep, 'R13.c', {fn: ref})

    # ------------------------------------------------------------ R13.e bad frames never reach a handler
    rep.rule('R13.e', 'a frame reaches command::handle only after ServerCommand::from_bytes and validate() succeeded; failures are answered with an error response', floor=4, analysis='A2')
    for fn in ('server::tcp::connection_handler::handle_connection', 'server::quic::listener::handle_stream'):
        if not ctx.has(fn):
            rep.anchor_lost('R13.e', fn)
            continue
        b = ctx.fn_body(fn)
        h = [c for c in b.calls if c.name == 'server::binary::command::handle']
        dec = [c for c in b.calls if c.name == '<%s as %s>::from_bytes' % (SC, BS) or c.name.endswith('ServerCommand::from_bytes')]
        val = [c for c in b.calls if c.name.endswith('::validate') and is_user_call(c)]
        if not h or not dec or not val:
            rep.ob('R13.e', fn, 'decode+validate before dispatch', False, None, 'handle=%d decode=%d validate=%d call sites' % (len(h), len(dec), len(val)))
            continue
        ok = success_dominates(b, dec[0], h[0].bb) and any(success_dominates(b, v, h[0].bb) for v in val)
        rep.ob('R13.e', fn, 'decode+validate before dispatch', ok, h[0].where(), None if ok else 'a frame can reach the handlers without having been decoded and validated successfully')
        errs = [c for c in b.calls if c.name.endswith('send_error_response')]
        heads = {c.bb for c in b.calls if c.name.endswith('::read') and is_user_call(c)}
        def answered_(call):
            errexits = {eb for eb, _ in err_exit_sites(b)}
            return any(any(c.bb in b.reachable(x, avoid_blocks=heads) for c in errs) or bool(errexits & b.reachable(x, avoid_blocks=heads)) for x in failure_edge_blocks(b, call))
        answered = answered_(dec[0]) and any(answered_(v) for v in val)
        rep.ob('R13.e', fn, 'failures answered with an error or a closed stream', answered, errs[0].where() if errs else None, None if answered else 'a decode/validation failure is neither answered with an error response nor ends the stream with an error')

    # ------------------------------------------------------------ R13.r a handler consumes the whole request
    handler_consumes_request(ctx, rep, 'R13.r')


# request fields a handler legitimately ignores (confirmed by reading)
REQUEST_UNUSED = {
    ('login_user', 'LoginUser', 'version'): 'informational: the client SDK version, not used by the server',
    ('login_user', 'LoginUser', 'context'): 'informational: free-form client context, not used by the server',
    ('http:login_user', 'LoginUser', 'version'): 'informational, as over the binary transports',
    ('http:login_user', 'LoginUser', 'context'): 'informational, as over the binary transports',
    ('http:delete_consumer_offset', 'DeleteConsumerOffset', 'consumer'): 'over HTTP the consumer is the authenticated user (same as the other HTTP offset handlers, which overwrite the field)',
}


def handler_consumes_request(ctx, rep, rid, only=None):
    """Every field of the decoded request type is read by its handler, in both transports (a field the SDK sends and the
    server drops is a setting that silently has no effect).  only: set of request type names (last segment)."""
    import re as _re
    rep.rule(rid, 'a handler consumes the whole request: every field of the decoded command / query / body type is read in the binary and in the HTTP handler of the command (a field the client sends and the server never looks at has no effect, whatever both sides encode)', floor=170 if only is None else 10, analysis='A6')

    def used_fields(d, pay):
        used = set()
        for x in ctx.facts.body_defs():
            if (x == d or x.startswith(d + '::{closure')) and '__CALLSITE' not in x:
                b = ctx.body(x)
                for bb in b.reach:
                    for adt, f, ln in block_field_accesses(b, bb, reads_only=True):
                        if adt == pay:
                            used.add(f)
        return used
    todo = [(n, d, [p for p in ctx.facts.fns[d]['params'] if p.startswith('iggy::')]) for n, d in sorted(binary_handlers(ctx).items())]
    for n, d in sorted(http_handlers(ctx).items()):
        todo.append(('http:' + n, d, sorted(set(_re.findall(r'iggy::[\w:]+', ' '.join(ctx.facts.fns[d]['params']))))))
    for n, d, pays in todo:
        for pay in pays:
            rec = ctx.facts.adts.get(pay)
            if not rec or rec['kind'] != 'Struct':
                continue
            short_ = pay.split('::')[-1]
            if only is not None and short_ not in only:
                continue
            u = used_fields(d, pay)
            for f, _t, _p in rec['variants'][0]['fields']:
                if (n, short_, f) in REQUEST_UNUSED:
                    continue
                ok = f in u
                rep.ob(rid, d, '%s.%s consumed' % (short_, f), ok, None, None if ok else
                       'the handler never reads `%s` of the %s it received: the value the client sent has no effect' % (f, short_))

    # ------------------------------------------------------------ R13.s the permissions encoder restarts the topic counter for every stream
    rep.rule('R13.s', 'Permissions::to_bytes writes "one more follows" flags from two counters: the stream counter starts at 1 once, the topic counter starts at 1 again for every stream (initialised inside the stream loop); the decoder reads the flags per stream', floor=2, analysis='A2 loop structure')
    PTB = '<iggy::models::permissions::Permissions as iggy::bytes_serializable::BytesSerializable>::to_bytes'
    if not ctx.has(PTB):
        rep.anchor_lost('R13.s', PTB)
    else:
        pb_ = ctx.fn_body(PTB)
        lps = [bl for _, bl in natural_loops(pb_) if len(bl) > 6]
        depth = {}
        for bb_ in sorted(pb_.reach):
            for s_ in pb_.stmts(bb_):
                lhs_ = s_.get('lhs')
                if lhs_ and len(lhs_) == 1 and pb_.local_name(lhs_[0]) in ('current_topic', 'current_stream') and s_.get('rv', {}).get('r') == 'use' and 'k' in s_['rv'].get('a', {}):
                    depth[pb_.local_name(lhs_[0])] = sum(1 for bl in lps if bb_ in bl)
        for name_, want_ in (('current_stream', 0), ('current_topic', 1)):
            ok_ = depth.get(name_) == want_
            rep.ob('R13.s', PTB, '%s starts at 1 %s' % (name_, 'once' if want_ == 0 else 'for every stream'), ok_, None, None if ok_ else
                   '`%s` is initialised at loop depth %s (confirmed: %d): the "one more topic follows" flags of the second stream continue the count of the first, and the decoder reads past the end' % (name_, depth.get(name_), want_))

    # ------------------------------------------------------------ R13.t the consumer kind survives decoding
    rep.rule('R13.t', 'the four request decoders that carry a consumer (poll, store / get / delete offset) rebuild it with the kind decoded from the wire: a Consumer with kind = ConsumerKind::from_code(first byte), or one constructor per kind', floor=4, analysis='A6 sibling forms')
    import forms as forms_t
    for dfn in sorted(d_ for d_ in ctx.facts.fns if d_.endswith('BytesSerializable>::from_bytes') and d_.startswith(('<iggy::consumer_offsets::', '<iggy::messages::poll_messages::PollMessages'))):
        ags = [a for a, _ in forms_t.aggregate_forms(ctx, dfn, 'iggy::consumer::Consumer')]
        fb_ = ctx.fn_body(dfn)
        ctors = {c.name.split('::')[-1] for c in fb_.calls if c.name.startswith('iggy::consumer::Consumer::') and is_user_call(c)}
        ok_ = any(a.get('kind', '').startswith('ConsumerKind::from_code(') for a in ags) or {'new', 'group'} <= ctors
        rep.ob('R13.t', dfn, 'consumer kind from the wire', ok_, None, None if ok_ else
               'the decoder no longer rebuilds the consumer with the kind it read (aggregates: %s, constructors: %s): a request of a consumer group is executed for the consumer with the same id' % (ags, sorted(ctors)))
