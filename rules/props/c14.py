"""C14 — retention removes only expired, closed segments and never rewinds offsets (structural clauses)."""
from lib import *
from mir import render, walk, short, canon
from engine import AnchorLost
import forms
from props import storage_forms as sf

TECHNIQUE = 'who-may-call layering of deletion, guard literals and normal form of the expiry decision, candidate guards, provenance of the replacement segment start, loop coverage of expiry updates (A1, A2, A3, A9, A10)'
EXPLANATION = ('Decides on the MIR of the current tree: segments are deleted only through Partition::{delete,purge,delete_segment}, delete_segment only from the maintenance command, which deletes only from its '
               'expired / oldest handlers; is_expired can return true only for a closed segment with a duration expiry whose NEWEST message (offset current_offset) satisfies timestamp + expiry <= now; candidates are '
               'collected only on the is_expired==true edge and only for duration-expiry topics; deletion of expired segments is under clean==true; the oldest-segment candidate is the first segment and must be '
               'closed; deletion never writes the append position and a replacement segment starts at last deleted end_offset + 1; polls below the earliest retained offset fall back to the first segment; '
               'expiry updates reach the topic, every partition and every segment. Not decided: timing against real clocks; that survivors are served exactly as before.')
ASSUMPTIONS = ['forms below are the pinned representation']

S = sf.SEG
P = sf.PART
MM = 'server::channels::commands::maintain_messages::'
TOPIC = 'server::streaming::topics::topic::Topic'


def callers_within(ctx, rep, rid, callee, allowed, what):
    sites = callers_of(ctx, callee)
    if not sites:
        rep.ob(rid, callee, 'has callers', False, None, '%s has no production caller any more' % short(callee))
    for d, c in sites:
        fn = ctx.user_fn_of(d)
        ok = fn in allowed
        rep.ob(rid, fn, 'calls ' + short(callee), ok, c.where(), None if ok else '%s is called from %s; %s may only be called from %s' % (short(callee), short(fn), what, sorted(short(a) for a in allowed)))


def run(ctx, rep):
    rep.rule('R14.a', 'who may delete: Segment::delete ← Partition::{delete,purge,delete_segment}; delete_segment ← maintenance delete_segments ← expired / oldest handlers', floor=6, analysis='A1')
    callers_within(ctx, rep, 'R14.a', S + '::delete', {P + '::delete', P + '::purge', P + '::delete_segment'}, 'segment deletion')
    callers_within(ctx, rep, 'R14.a', P + '::delete_segment', {MM + 'delete_segments'}, 'retention deletion')
    callers_within(ctx, rep, 'R14.a', MM + 'delete_segments', {MM + 'handle_expired_segments', MM + 'handle_oldest_segments'}, 'maintenance deletion')

    rep.rule('R14.b', 'the expiry decision: true only for a closed segment with a duration expiry whose newest message has timestamp + expiry <= now; candidates only on the is_expired==true edge; deletion only under clean', floor=7, analysis='A3+A10')
    check_comparisons(ctx, rep, 'R14.b', {S + '::is_expired': ['((::index(Segment::get_messages_by_offset(…), 0).timestamp + IggyDuration::as_micros((self.message_expiry as ExpireDuration).0)) <= IggyTimestamp::as_micros(now))']})
    forms.check_call_args(ctx, rep, 'R14.b', {S + '::is_expired': {'Segment::get_messages_by_offset': ['self.current_offset, 1']}})   # the NEWEST message decides
    eb = ctx.fn_body(S + '::is_expired')
    # every block that can return something other than the constant false lies behind: is_closed, ExpireDuration, Ok, non-empty
    for blk in sorted(eb.reach):
        for s in eb.stmts(blk):
            if s.get('lhs') == [0] and not s.get('x'):
                rv = s['rv']
                e = eb._expr_rvalue(rv, 0, frozenset())
                if e[0] == 'const' and e[1] in ('false', '0'):
                    continue
                bl = bool_literals_at(eb, blk)
                dl = discr_literals_at(eb, blk)
                closed = any(x[0] == 'field' and x[2] == 'is_closed' and t for x, t, _ in bl)
                dur = any(x[0] == 'field' and x[2] == 'message_expiry' for x, vals, lit in dl)
                okr = any(x[0] == 'call' and x[1].split('::')[-1] == 'is_err' and not t for x, t, _ in bl)
                nonempty = any(x[0] == 'call' and x[1].split('::')[-1] == 'is_empty' and not t for x, t, _ in bl)
                rep.ob('R14.b', S + '::is_expired', 'non-false result guarded', closed and dur and okr and nonempty, '%s:%s' % (eb.file, s.get('ln')),
                       'behind is_closed, ExpireDuration, Ok and non-empty' if closed and dur and okr and nonempty else
                       'is_expired can return true without: %s' % [n for n, v in (('is_closed', closed), ('ExpireDuration arm', dur), ('read succeeded', okr), ('non-empty', nonempty)) if not v])
    gb = ctx.fn_body(P + '::get_expired_segments_start_offsets')
    pu = [c for c in gb.calls if c.matches('std::vec::Vec::push') and is_user_call(c)]
    if not pu:
        rep.anchor_lost('R14.b', 'push in get_expired_segments_start_offsets')
    else:
        ok = any(expr_has_call(e, S + '::is_expired') and t for e, t, _ in bool_literals_at(gb, pu[0].bb))
        rep.ob('R14.b', P + '::get_expired_segments_start_offsets', 'candidate only if expired', ok, pu[0].where(), None if ok else 'a segment becomes a deletion candidate without is_expired()==true')
        arg = canon(gb.pexpr_operand(pu[0].args[1]), 0, 1)
        rep.ob('R14.b', P + '::get_expired_segments_start_offsets', 'candidate = that segment', arg.endswith('.start_offset'), pu[0].where(), 'pushes ' + arg)
    tb = ctx.fn_body(TOPIC + '::get_expired_segments_start_offsets_per_partition')
    ce = [c for c in tb.calls if c.name == P + '::get_expired_segments_start_offsets']
    if not ce:
        rep.anchor_lost('R14.b', 'per-partition collection in Topic')
    else:
        ok = any(render(e).endswith('message_expiry') for e, vals, lit in discr_literals_at(tb, ce[0].bb))
        rep.ob('R14.b', TOPIC + '::get_expired_segments_start_offsets_per_partition', 'only for duration-expiry topics', ok, ce[0].where(), None if ok else 'expired segments are collected for topics that never expire')
    hb = ctx.fn_body(MM + 'handle_expired_segments')
    ds = [c for c in hb.calls if c.name == MM + 'delete_segments']
    if not ds:
        rep.anchor_lost('R14.b', 'delete_segments in handle_expired_segments')
    else:
        ok = any(e in (('param', 'clean'), ('upvar', 'clean')) and t for e, t, _ in bool_literals_at(hb, ds[0].bb))
        rep.ob('R14.b', MM + 'handle_expired_segments', 'deletion under clean==true', ok, ds[0].where(), None if ok else 'expired segments are deleted although cleaning is disabled')

    rep.rule('R14.c', 'the segment being written is never a candidate: oldest-segment candidates are closed and only the first segment of a partition', floor=2, analysis='A3')
    ob = ctx.fn_body(MM + 'get_oldest_segments')
    pu = [c for c in ob.calls if c.matches('std::vec::Vec::push') and is_user_call(c)]
    if not pu:
        rep.anchor_lost('R14.c', 'push in get_oldest_segments')
    else:
        ok = any(e[0] == 'field' and e[2] == 'is_closed' and t for e, t, _ in bool_literals_at(ob, pu[0].bb))
        rep.ob('R14.c', MM + 'get_oldest_segments', 'closed only', ok, pu[0].where(), None if ok else 'an open segment (the one being written) can be deleted to make room')
        first = any(c.name.split('::')[-1] == 'first' for c in ob.calls if is_user_call(c))
        rep.ob('R14.c', MM + 'get_oldest_segments', 'first segment only', first, pu[0].where(), None if first else 'the candidate is no longer the first (oldest) segment')

    rep.rule('R14.d', 'deletion does not touch the append position; a replacement segment starts at the last deleted end offset + 1; polls below the earliest retained offset fall back to the first segment', floor=5, analysis='A1+A10')
    sf.check(ctx, rep, 'R14.d', part_fields=('current_offset', 'should_increment_offset'), seg_fields=())
    db = ctx.fn_body(MM + 'delete_segments')
    aps = [c for c in db.calls if c.name.endswith('Partition::add_persisted_segment') and is_user_call(c)]
    if not aps:
        rep.anchor_lost('R14.d', 'add_persisted_segment in delete_segments')
    else:
        pe = db.pexpr_operand(aps[0].args[1])
        inner = is_plus_one(pe)
        ok = inner is not None and any(y[0] == 'field' and y[2] == 'end_offset' for y in walk(inner))
        emp = any(e[0] == 'call' and e[1].split('::')[-1] == 'is_empty' and t for e, t, _ in bool_literals_at(db, aps[0].bb))
        rep.ob('R14.d', MM + 'delete_segments', 'replacement start', ok and emp, aps[0].where(), 'new segment at deleted.end_offset + 1 when no segment is left' if ok and emp else 'replacement segment start is `%s` (only-if-empty guard: %s)' % (canon(pe, 0, 1), emp))
    sb = ctx.fn_body(P + '::delete_segment')
    forms.check_call_args(ctx, rep, 'R14.d', {P + '::delete_segment': {'Partition::get_segment_mut': ['start_offset']},
                                              P + '::filter_segments_by_offsets': {'Option::unwrap_or': ['0']}})    # nothing at or below the requested offset ⇒ start from the first segment
    check_comparisons(ctx, rep, 'R14.d', {P + '::delete_segment': ['(s.start_offset != start_offset)']})
    forms.check_aggregates(ctx, rep, 'R14.d', {P + '::delete_segment': {'server::streaming::partitions::segments::DeletedSegment': {
        'end_offset': 'Partition::get_segment(self, start_offset).end_offset', 'messages_count': 'Segment::get_messages_count(Partition::get_segment(self, start_offset))'}}})    # reported end offset / count are those of the deleted segment

    rep.rule('R14.e', 'expiry updates reach the topic, every partition and every segment', floor=3, analysis='A2 loop coverage')
    ST = 'server::streaming::streams::stream::Stream::update_topic'
    want = 'Topic::get_message_expiry(message_expiry, self.config)'
    for adt, label in ((TOPIC, 'topic'), (P, 'partition'), (S, 'segment')):
        sites = [(b_, bb, ln, form) for fn, b_, bb, ln, form in forms.field_assignments(ctx, adt, 'message_expiry') if fn == ST]
        ok = bool(sites) and all(f == want for _, _, _, f in sites)
        inloop = True
        if ok and label != 'topic':
            b_, bb, ln, form = sites[0]
            inloop = any(bb in bl for h, bl in natural_loops(b_))
        rep.ob('R14.e', ST, '%s.message_expiry updated' % label, ok and inloop, '%s:%s' % (sites[0][0].file, sites[0][2]) if sites else None,
               'resolved expiry stored%s' % ('' if label == 'topic' else ' for every ' + label) if ok and inloop else 'an expiry update does not reach the %s%s' % (label, '' if ok else ' (or stores a different value)'))

    # ------------------------------------------------------------ R14.g the expiry reaches every level unchanged
    rep.rule('R14.g', 'constructors: the message expiry a topic resolved is the one its partitions and segments store', floor=5, analysis='A9')
    from props import storage_forms as sf_
    sf_.check_constructors(ctx, rep, 'R14.g', {'Topic': ('message_expiry',), 'Partition': ('message_expiry',), 'Segment': ('message_expiry', 'is_closed', 'end_offset')})

    # ------------------------------------------------------------ R14.h the topic's expiry, not the server default, goes down the hierarchy
    rep.rule('R14.h', 'the message expiry handed down a call chain (handler, System, Stream, Topic, Partition, Segment, loaders) is at every hop the caller\'s own expiry: the parameter or the field of that name of the entity at hand, or that value resolved by Topic::get_message_expiry; the server-wide default enters only inside the resolver', floor=13, analysis='A9')
    sf_.settings_passthrough(ctx, rep, 'R14.h', ('message_expiry',))

    # ------------------------------------------------------------ R14.i a deleted segment leaves no file behind
    rep.rule('R14.i', 'Segment::delete removes the log file and the index file of the segment, each exactly once: purge re-creates segment 0 at the same paths and the index writer appends, so a surviving index file puts stale entries in front of the new ones (wrong or empty poll slices, also after a restart)', floor=2, analysis='A9 call-argument forms')
    from props import storage_forms as sfd_
    sfd_.segment_delete_files(ctx, rep, 'R14.i')

    # ------------------------------------------------------------ R14.j an updated expiry survives a restart
    from props.c05 import replay_consumes_payload
    replay_consumes_payload(ctx, rep, 'R14.j')

    # ------------------------------------------------------------ R14.k the cleaner follows the flags of its own name
    rep.rule('R14.k', 'a configuration flag read straight from the config and handed to a boolean parameter goes to the parameter of its own name (archive_expired to the expiry pass, delete_oldest_segments to the size pass)', floor=1, analysis='A9')
    from props import storage_forms as sfk_
    sfk_.config_flags_by_name(ctx, rep, 'R14.k')

