"""C15 — a topic's size limit is enforced as configured (structural clauses)."""
from lib import *
from mir import render, walk, short, canon
from engine import AnchorLost
import forms

TECHNIQUE = 'guard literals with polarity at the topic-full gate, normal forms of the fullness predicates and of the limit validation, control dependence of the cleaner (A2, A3, A10)'
EXPLANATION = ('Decides on the MIR of the current tree: Topic::append_messages returns TopicFull exactly under is_full() and !delete_oldest_segments, before anything is appended; is_full / is_almost_full '
               'compare the running size with the custom limit (0.9 of it) and are false for unlimited / default; get_max_topic_size rejects custom limits below the segment size and create/update reach it '
               'before any catalogue write; the cleaner deletes oldest segments only under !is_unlimited, delete_oldest_segments and is_almost_full, from closed first segments. '
               'Not decided: exactness of the running size (C16); behaviour over histories of limit updates.')
ASSUMPTIONS = ['forms below are the pinned representation']

TOPIC = 'server::streaming::topics::topic::Topic'
MM = 'server::channels::commands::maintain_messages::'
STREAM = 'server::streaming::streams::stream::Stream'


def run(ctx, rep):
    rep.rule('R15.a', 'the topic-full gate: TopicFull is returned exactly under is_full() and !delete_oldest_segments, and dominates the partition append', floor=3, analysis='A3+A2')
    b = ctx.fn_body(TOPIC + '::append_messages')
    errs = []
    for blk in sorted(b.reach):
        for s in b.stmts(blk):
            rv = s.get('rv')
            if rv and rv['r'] == 'agg' and rv.get('adt') == 'iggy::error::IggyError' and rv['variant'] == 'TopicFull':
                errs.append(blk)
    if not errs:
        rep.ob('R15.a', TOPIC + '::append_messages', 'gate present', False, None, 'sends to a full topic are no longer refused (no TopicFull return)')
    for blk in errs:
        lits = bool_literals_at(b, blk)
        full = [t for e, t, _ in lits if e[0] == 'call' and e[1] == TOPIC + '::is_full']
        dele = [t for e, t, _ in lits if e[0] == 'field' and e[2] == 'delete_oldest_segments']
        ok = full == [True] and dele == [False]
        rep.ob('R15.a', TOPIC + '::append_messages', 'TopicFull ⇔ is_full ∧ ¬delete_oldest_segments', ok, b.where(blk),
               'refused under is_full()==true and delete_oldest_segments==false' if ok else 'TopicFull is returned under is_full=%s, delete_oldest_segments=%s (expected true / false)' % (full, dele))
    ap = [c for c in b.calls if c.name == TOPIC + '::append_messages_to_partition']
    gate = None
    for bb, t, e in switch_exprs(b):
        if e[0] == 'call' and e[1] == TOPIC + '::is_full':
            gate = bb
    if not ap or gate is None:
        rep.anchor_lost('R15.a', 'is_full test / partition append in Topic::append_messages')
    else:
        ok = all(b.dominates(gate, c.bb) for c in ap)
        rep.ob('R15.a', TOPIC + '::append_messages', 'gate before append', ok, b.where(gate), None if ok else 'messages can be appended before the size gate was evaluated')
        # accepted paths exist: the append is reachable from both !is_full and (is_full ∧ delete_oldest)
        rep.ob('R15.a', TOPIC + '::append_messages', 'one append per send', len(ap) >= 1 and all(not any(c.bb in bl for h, bl in natural_loops(b)) for c in ap), ap[0].where(), '%d append call(s), none in a loop' % len(ap))

    rep.rule('R15.b', 'what "full" means: size >= custom limit (0.9·limit for almost full); unlimited / default never full', floor=6, analysis='A3+A10')
    check_comparisons(ctx, rep, 'R15.b', {
        TOPIC + '::is_full': ['((self.max_topic_size as Custom).0 <= Atomic::load(self.size_bytes, Ordering::SeqCst{}))'],
        TOPIC + '::is_almost_full': ['(((self.max_topic_size as Custom).0 * ALMOST_FULL_THRESHOLD) <= Atomic::load(self.size_bytes, Ordering::SeqCst{}))'],
    })
    thr = ctx.facts.consts.get('server::streaming::topics::topic::ALMOST_FULL_THRESHOLD')
    for fn in ('is_full', 'is_almost_full'):
        fb = ctx.fn_body(TOPIC + '::' + fn)
        for blk in sorted(fb.reach):
            for s in fb.stmts(blk):
                if s.get('lhs') == [0]:
                    e = fb._expr_rvalue(s['rv'], 0, frozenset())
                    if e[0] == 'const':
                        arms = [vals for x, vals, lit in discr_literals_at(fb, blk) if render(x).endswith('max_topic_size')]
                        rep.ob('R15.b', TOPIC + '::' + fn, 'constant %s on a non-custom arm' % e[1], e[1] in ('false', '0'), '%s:%s' % (fb.file, s.get('ln')),
                               None if e[1] in ('false', '0') else 'an unlimited / default topic is reported as full')

    rep.rule('R15.c', 'limits smaller than a segment are rejected, before any catalogue write', floor=4, analysis='A3+A2')
    check_comparisons(ctx, rep, 'R15.c', {TOPIC + '::get_max_topic_size': ['(config.segment.size <= max_topic_size)']})
    gb = ctx.fn_body(TOPIC + '::get_max_topic_size')
    for blk in sorted(gb.reach):
        for s in gb.stmts(blk):
            rv = s.get('rv')
            if rv and rv['r'] == 'agg' and rv.get('adt') == 'iggy::error::IggyError' and rv['variant'] == 'InvalidTopicSize':
                lits = bool_literals_at(gb, blk)
                ok = any(e[0] == 'bin' and e[1] in ('Ge', 'Le', 'Lt', 'Gt') and not t for e, t, _ in lits) or any(e[0] == 'bin' for e, t, _ in lits)
                pol = [(canon(e, 0, 1), t) for e, t, _ in lits if e[0] == 'bin']
                good = pol == [('(config.segment.size <= max_topic_size)', False)] or any(f == '(config.segment.size <= max_topic_size)' and not t for f, t in pol)
                rep.ob('R15.c', TOPIC + '::get_max_topic_size', 'InvalidTopicSize ⇔ limit < segment size', good, '%s:%s' % (gb.file, s.get('ln')), str(pol))
    for fn in (STREAM + '::create_topic', STREAM + '::update_topic'):
        cb = ctx.fn_body(fn)
        g = [c for c in cb.calls if c.name == TOPIC + '::get_max_topic_size']
        writes = [c for c in cb.calls if is_user_call(c) and c.name.split('::')[-1] in ('insert', 'remove') and cb.expr_operand(c.args[0])[0] == 'field' and cb.expr_operand(c.args[0])[2] in ('topics', 'topics_ids')]
        ok = bool(g) and all(success_dominates(cb, g[0], w.bb) for w in writes)
        rep.ob('R15.c', fn, 'validated before the catalogue changes', ok, g[0].where() if g else None, None if ok else 'the topic map / name index can be written before the size limit was validated')

    rep.rule('R15.d', 'the cleaner makes room only when told to: deletion of oldest segments is under !is_unlimited ∧ delete_oldest_segments ∧ is_almost_full', floor=3, analysis='A3')
    hb = ctx.fn_body(MM + 'handle_oldest_segments')
    ds = [c for c in hb.calls if c.name == MM + 'delete_segments']
    if not ds:
        rep.anchor_lost('R15.d', 'delete_segments in handle_oldest_segments')
    else:
        lits = bool_literals_at(hb, ds[0].bb)
        unl = any(e[0] == 'call' and e[1] == TOPIC + '::is_unlimited' and not t for e, t, _ in lits)
        dele = any(e in (('param', 'delete_oldest_segments'), ('upvar', 'delete_oldest_segments')) and t for e, t, _ in lits)
        alm = any(e[0] == 'call' and e[1] == TOPIC + '::is_almost_full' and t for e, t, _ in lits)
        rep.ob('R15.d', MM + 'handle_oldest_segments', 'guards', unl and dele and alm, ds[0].where(),
               'under !is_unlimited, delete_oldest_segments and is_almost_full' if unl and dele and alm else
               'oldest segments are deleted without: %s' % [n for n, v in (('!is_unlimited', unl), ('delete_oldest_segments', dele), ('is_almost_full', alm)) if not v])
        # candidates are closed first segments only (never the newest data) — same clause as C14 R14.c
        ob = ctx.fn_body(MM + 'get_oldest_segments')
        pu = [c for c in ob.calls if c.matches('std::vec::Vec::push') and is_user_call(c)]
        if not pu:
            rep.anchor_lost('R15.d', 'push in get_oldest_segments')
        else:
            okc = any(e[0] == 'field' and e[2] == 'is_closed' and t for e, t, _ in bool_literals_at(ob, pu[0].bb))
            rep.ob('R15.d', MM + 'get_oldest_segments', 'closed only', okc, pu[0].where(), None if okc else 'an open segment (the newest data of a partition) can be deleted to make room')
            first = any(c.name.split('::')[-1] == 'first' for c in ob.calls if is_user_call(c))
            rep.ob('R15.d', MM + 'get_oldest_segments', 'first segment only', first, pu[0].where(), None if first else 'the candidate is no longer the first (oldest) segment')
        src = canon(hb.pexpr_operand(ds[0].args[1]), 0, 1)
        rep.ob('R15.d', MM + 'handle_oldest_segments', 'candidates from get_oldest_segments', 'get_oldest_segments' in src, ds[0].where(), 'delete_segments(topic, %s)' % src[:80])

    # ------------------------------------------------------------ R15.e the limit that is enforced is the resolved one
    rep.rule('R15.e', 'the limit a topic stores is the resolved one (ServerDefault replaced by the configured default, too-small limits rejected) at every site that writes it: create, update and load', floor=3, analysis='A9 provenance forms')
    resolved_limit_forms(ctx, rep, 'R15.e')

    # ------------------------------------------------------------ R15.f the size the limit is compared with is exact
    rep.rule('R15.f', 'the topic size the limit is compared with is exact: the stream / topic / partition size counters move together and a segment subtracts at delete what it added over its life (bytes left behind by a purge fill the topic for good)', floor=8, analysis='A6/A9')
    from props.c16 import counter_symmetry
    counter_symmetry(ctx, rep, 'R15.f', 'R15.f', labels=('size',))

    # ------------------------------------------------------------ R15.g the limit survives a restart
    from props.c05 import replay_consumes_payload
    replay_consumes_payload(ctx, rep, 'R15.g')

    # ------------------------------------------------------------ R15.h the configured limit reaches the server
    from props.c13 import handler_consumes_request
    handler_consumes_request(ctx, rep, 'R15.h', only={'CreateTopic', 'UpdateTopic'})

    # ------------------------------------------------------------ R15.i the topic's own limit goes down the call chain
    rep.rule('R15.i', 'the size limit handed down a call chain (handler, System, Stream, Topic, loader) is at every hop the caller\'s own limit: the parameter or the field of that name of the entity at hand, or that value resolved by Topic::get_max_topic_size', floor=12, analysis='A9')
    from props import storage_forms as sf_
    sf_.settings_passthrough(ctx, rep, 'R15.i', ('max_topic_size',))

    # ------------------------------------------------------------ R15.k the cleaner follows the flag that the send path follows
    rep.rule('R15.k', 'a configuration flag read straight from the config and handed to a boolean parameter goes to the parameter of its own name: the maintenance job trims a full topic under topic.delete_oldest_segments, the flag Topic::append_messages tests before refusing a send', floor=1, analysis='A9')
    from props import storage_forms as sfk_
    sfk_.config_flags_by_name(ctx, rep, 'R15.k')

    # ------------------------------------------------------------ R15.j what the cleaner leaves behind loads as it was
    rep.rule('R15.j', 'a partition whose segments were all removed by the cleaner restarts where it stood: the loader restores the offset state with its confirmed forms (an empty last segment that does not start at 0 keeps the increment flag)', floor=4, analysis='A9/A10')
    sfk_.check(ctx, rep, 'R15.j', part_fields=('current_offset', 'should_increment_offset'), seg_fields=())


def resolved_limit_forms(ctx, rep, rid):
    """shared with C05: create, update and load store the limit resolved by the same function (what the runtime accepts, the loader accepts)"""
    import forms as forms_
    T = 'server::streaming::topics::topic::Topic'
    want = {'<server::streaming::topics::storage::FileTopicStorage as server::streaming::storage::TopicStorage>::load': 'Topic::get_max_topic_size(state.max_topic_size, topic.config)',
            'server::streaming::streams::stream::Stream::update_topic': 'Topic::get_max_topic_size(max_topic_size, self.config)'}
    seen = set()
    for fn, b_, bb_, ln, form in forms_.field_assignments(ctx, T, 'max_topic_size'):
        seen.add(fn)
        exp = want.get(fn)
        ok = exp is not None and form == exp
        rep.ob(rid, fn, 'max_topic_size = resolved limit', ok, '%s:%s' % (b_.file, ln), None if ok else
               ('Topic.max_topic_size is assigned `%s`; the resolved limit is `%s` (an unresolved ServerDefault is never full, so the configured default limit stops being enforced)' % (form, exp) if exp else
                'Topic.max_topic_size is written by an unconfirmed function (`%s`)' % form))
    for fn in want:
        if fn not in seen:
            rep.ob(rid, fn, 'max_topic_size = resolved limit', False, None, 'the assignment of the resolved limit expected in this function is missing')
    forms_.check_aggregates(ctx, rep, rid, {T + '::create': {T: {'max_topic_size': 're:^(Topic::get_max_topic_size\\(max_topic_size, config\\)|max_topic_size)$'}}})
    # create receives the resolved value from Stream::create_topic
    forms_.check_call_args(ctx, rep, rid, {'server::streaming::streams::stream::Stream::create_topic': {'Topic::create': ['re:.*, Topic::get_max_topic_size\\(max_topic_size, self\\.config\\), replication_factor$']}}, skip_self=False, cd=1)
