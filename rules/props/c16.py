"""C16 — reported sizes and counts always equal what is stored (structural clauses)."""
import re
from lib import *
from mir import render, walk, short, canon
from engine import AnchorLost
import forms
from props import storage_forms as sf

TECHNIQUE = 'group agreement of the counter triples (same operation, same operand), single-owner layering, add/subtract operand symmetry, pairing of the segment counter with the segment list, source-name agreement of statistics and metrics (A1, A2, A6, A9)'
EXPLANATION = ('Decides on the MIR of the current tree: wherever one of the stream/topic/partition size or message counters is changed, the other two are changed by the same operation with the same operand; the counters '
               'are modified only inside Segment / Partition / partition load; what a segment adds over its life (batch size at append, header length at persist, log size at load; message counts) is what it subtracts '
               'at delete (its accumulated size_bytes, its message count); every push to / removal from a partition\'s segment list is paired with +1 / -1 on the segment counter; each reported statistic and each metric '
               'is fed from the like-named source (messages from messages, segments from segments, the deleted amounts from the deletion result). Not decided: numerical equality with stored content for every history.')
ASSUMPTIONS = ['table of metric ↔ source names below']

S = sf.SEG
P = sf.PART
TRIPLES = [('size', ('size_of_parent_stream', 'size_of_parent_topic', 'size_of_parent_partition')),
           ('messages', ('messages_count_of_parent_stream', 'messages_count_of_parent_topic', 'messages_count_of_parent_partition'))]
OWNERS = {S + '::append_batch', S + '::persist_messages', S + '::load_from_disk', S + '::delete'}
EXPECTED_OPERANDS = {   # (fn, group) -> (op, operand): confirmed by reading
    (S + '::append_batch', 'size'): ('fetch_add', 'batch_size'), (S + '::append_batch', 'messages'): ('fetch_add', 'messages_count'),
    (S + '::persist_messages', 'size'): ('fetch_add', '24'),     # RETAINED_BATCH_HEADER_LEN
    (S + '::load_from_disk', 'size'): ('fetch_add', 'phi{Atomic::load(self.log_size_bytes, Ordering::Acquire{}) | Option::filter(phi{0 | Option::None{} | SegmentLogReader::batch_end_position(…)}, closure)}'), (S + '::load_from_disk', 'messages'): ('fetch_add', 'Segment::get_messages_count(self)'),
    (S + '::delete', 'size'): ('fetch_sub', 'self.size_bytes'), (S + '::delete', 'messages'): ('fetch_sub', 'Segment::get_messages_count(self)'),
}
METRIC_SOURCES = {'streams': ('streams', '1'), 'topics': ('topics_count', 'topics', '1'), 'partitions': ('partitions_count', 'partitions'),
                  'segments': ('segments_count', 'partitions_count'),     # a new partition starts with one segment
                  'messages': ('messages_count', 'len(messages)', 'Vec::len(messages)'), 'users': ('users', '1'), 'clients': ('1',), 'http_requests': ('',)}
STATS_SOURCES = {'streams_count': ('+ 1',), 'topics_count': ('.topics',), 'partitions_count': ('Iterator::sum', '.topics'), 'segments_count': ('get_segments_count',),
                 'messages_count': ('get_messages_count',), 'consumer_groups_count': ('Iterator::sum', '.topics')}


def atomic_ops(ctx):
    out = []
    names = {n for _, t in TRIPLES for n in t} | {'segments_count_of_parent_stream'}
    for df in sorted(ctx.facts.body_defs()):
        if not in_crate(df):
            continue
        raw = ctx.facts.raw_body(df)
        if not any(bl.get('term', {}).get('fn', '').startswith('std::sync::atomic::Atomic::') for bl in raw['blocks']):
            continue
        b = ctx.body(df)
        for c in b.calls:
            if not (c.fn or '').startswith('std::sync::atomic::Atomic::') or not is_user_call(c):
                continue
            op = c.fn.split('::')[-1]
            if op in ('load', 'new'):
                continue
            e = b.pexpr_operand(c.args[0], 0, frozenset(), (c.bb, "t"))
            if e[0] == 'field' and e[2] in names:
                out.append((ctx.user_fn_of(df), e[2], op, canon(b.pexpr_operand(c.args[1], 0, frozenset(), (c.bb, "t")), 0, 1) if len(c.args) > 1 else '', c, b))
    return out


def counter_symmetry(ctx, rep, ra, rc, ops=None, labels=None):
    """the stream / topic / partition counters move together and what a segment adds is what it later subtracts"""
    ops = atomic_ops(ctx) if ops is None else ops
    for label, members in TRIPLES:
        if labels is not None and label not in labels:
            continue
        fns = sorted({fn for fn, f, op, arg, c, b in ops if f in members})
        for fn in fns:
            per = {m: sorted((op, arg) for f2, f, op, arg, c, b in ops if f2 == fn and f == m) for m in members}
            vals = list(per.values())
            same = vals[0] == vals[1] == vals[2] and bool(vals[0])
            site = [c for f2, f, op, arg, c, b in ops if f2 == fn and f in members][0]
            rep.ob(ra, fn, label + ' triple', same, site.where(),
                   '%s on all three' % vals[0] if same else 'the three %s counters diverge here: %s' % (label, {m.split('_')[-1]: v for m, v in per.items()}))
            exp = EXPECTED_OPERANDS.get((fn, label))
            if exp is None:
                rep.ob(rc, fn, label + ' operand', False, site.where(), 'a %s counter is changed in a function without a confirmed operand (%s)' % (label, vals[0]))
            else:
                ok = same and vals[0] == [exp]
                rep.ob(rc, fn, label + ' operand', ok, site.where(), '%s(%s)' % exp if ok else 'counter changed by %s, confirmed operand is %s(%s)' % (vals[0], exp[0], exp[1]))


def run(ctx, rep):
    from props import accessors as _acc
    _acc.check(ctx, rep, 'C16', 'R16.acc')
    ops = atomic_ops(ctx)
    rep.rule('R16.a', 'the counter triples move together: same operation, same operand on stream, topic and partition counter in every function that touches one', floor=7, analysis='A6')
    rep.rule('R16.b', 'the counters have one owner: modified only inside Segment / Partition / partition load', floor=26, analysis='A1')
    rep.rule('R16.c', 'what a segment adds is what it later subtracts: operands confirmed per site', floor=7, analysis='A9')
    counter_symmetry(ctx, rep, 'R16.a', 'R16.c', ops)
    for fn, f, op, arg, c, b in ops:
        if f == 'segments_count_of_parent_stream':
            ok = fn.startswith(P + '::') or fn == sf.LOAD
        else:
            ok = fn in OWNERS
        rep.ob('R16.b', fn, '%s %s' % (op, f), ok, c.where(), None if ok else 'counter `%s` is modified outside its owner' % f)
    # size_bytes of the segment accumulates the same operands it adds to the parents
    for fn, want in ((S + '::append_batch', 'batch_size'), (S + '::persist_messages', '24')):
        b = ctx.fn_body(fn)
        aa = [c for c in b.calls if c.name.endswith('AddAssign>::add_assign') and is_user_call(c) and render(b.expr_operand(c.args[0])).endswith('.size_bytes')]
        ok = bool(aa) and want in canon(b.pexpr_operand(aa[0].args[1]), 0, 2)
        rep.ob('R16.c', fn, 'Segment.size_bytes += same operand', ok, aa[0].where() if aa else None, 'size_bytes += %s' % (canon(b.pexpr_operand(aa[0].args[1]), 0, 2) if aa else '?'))

    rep.rule('R16.d', 'the segment counter pairs with the segment list: push ↔ +1, removal ↔ -1 per removed segment', floor=5, analysis='A2 pairing')
    seg_ops = field_method_ops(ctx, P, 'segments')
    for fn in sorted({fn for fn, f, op, arg, c, b in ops if f == 'segments_count_of_parent_stream'} | {f for f, v in seg_ops.items() if set(v) & {'push', 'retain', 'clear', 'remove', 'pop', 'drain', 'truncate'}}):
        mine = [(op, arg, c, b) for f2, f, op, arg, c, b in ops if f2 == fn and f == 'segments_count_of_parent_stream']
        lo = set(seg_ops.get(fn, []))
        adds = [x for x in mine if x[0] == 'fetch_add']
        subs = [x for x in mine if x[0] == 'fetch_sub']
        if fn.startswith('<server::streaming::topics::storage::'):
            continue   # topic load clears the freshly created partition before loading it: counter untouched by design (partition was not counted yet)
        if 'push' in lo or adds:
            ok = 'push' in lo and len(adds) == 1 and adds[0][1] == '1'
            if ok:
                b = adds[0][3]
                pc = [c for c in b.calls if c.matches('std::vec::Vec::push') and 'segment::Segment' in c.gen]
                ok = bool(pc) and (b.dominates(adds[0][2].bb, pc[0].bb) or b.dominates(pc[0].bb, adds[0][2].bb))
            rep.ob('R16.d', fn, 'push ↔ +1', ok, adds[0][2].where() if adds else None, None if ok else 'a segment is added without exactly one +1 on the segment counter (or vice versa)')
        if lo & {'retain', 'clear', 'remove', 'pop', 'drain', 'truncate'} or subs or 'into_iter' in lo and fn.endswith(('::delete', '::purge')):
            ok = len(subs) == 1 and subs[0][1] == '1'
            if ok and fn.endswith(('::delete', '::purge')):
                # one decrement per segment: inside the loop over the segments
                b = subs[0][3]
                ok = any(subs[0][2].bb in bl for h, bl in natural_loops(b))
            rep.ob('R16.d', fn, 'removal ↔ -1', ok, subs[0][2].where() if subs else None, None if ok else 'segments are removed without one -1 per removed segment')

    rep.rule('R16.e', 'statistics read the right sources (like-named getters, summed over all streams)', floor=6, analysis='A9')
    GS = SYS + '::get_stats'
    for f, toks in STATS_SOURCES.items():
        sites = [(b_, bb, ln, form) for fn, b_, bb, ln, form in forms.field_assignments(ctx, 'iggy::models::stats::Stats', f) if fn == GS]
        ok = bool(sites) and all(all(t in form for t in toks) and form.startswith('($Stats.%s + ' % f) for _, _, _, form in sites)
        inloop = bool(sites) and any(sites[0][1] in bl for h, bl in natural_loops(sites[0][0]))
        rep.ob('R16.e', GS, 'Stats.' + f, ok and inloop, '%s:%s' % (sites[0][0].file, sites[0][2]) if sites else None,
               'accumulated over all streams from %s' % (toks,) if ok and inloop else 'Stats.%s is not accumulated from its like-named source over all streams (%s)' % (f, [s[3][:80] for s in sites]))

    rep.rule('R16.f', 'metrics are fed the like-named amounts (messages from messages, segments from segments, deleted amounts from the deletion result)', floor=25, analysis='A9')
    for d, c in callers_of(ctx, re.compile(r'^server::streaming::diagnostics::metrics::Metrics::(increment|decrement)_\w+$')):
        b = ctx.body(d)
        m = re.match(r'.*::(increment|decrement)_(\w+)$', c.name)
        what = m.group(2)
        arg = canon(b.pexpr_operand(c.args[1], 0, frozenset(), (c.bb, "t")), 0, 2) if len(c.args) > 1 else ''
        toks = METRIC_SOURCES.get(what)
        if toks is None:
            rep.ob('R16.f', ctx.user_fn_of(d), c.name.split('::')[-1], False, c.where(), 'metric `%s` has no confirmed source names' % what)
            continue
        pe = b.pexpr_operand(c.args[1], 0, frozenset(), (c.bb, "t")) if len(c.args) > 1 else None
        terms = set()

        def spine(x):
            x = strip_adaptors(x)
            k = x[0]
            if k == 'field':
                terms.add(x[2])
            elif k == 'call':
                last = x[1].split('::')[-1]
                if last.startswith('get_') and last.endswith('_count'):
                    terms.add(last[4:])
                elif last == 'len' and x[2]:
                    inner = strip_adaptors(x[2][0])
                    nm = inner[2] if inner[0] == 'field' else (inner[1] if inner[0] in ('param', 'upvar') else None)
                    terms.add(nm or 'len(?)')
                elif last in ('unwrap', 'expect', 'into', 'from', 'clone') and x[2]:
                    spine(x[2][0])
                else:
                    terms.add(last + '()')
            elif k == 'bin' and x[1] in ('Add',):
                spine(x[2]); spine(x[3])
            elif k in ('param', 'upvar'):
                terms.add(x[1])
            elif k == 'const':
                terms.add(x[1])
            elif k == 'phi':
                for y in x[1]:
                    spine(y)
            else:
                terms.add(k)
        if pe is not None:
            spine(pe)
        norm = {t.replace('messages', 'messages_count') if t == 'messages' else t for t in terms}
        allowed = set(toks) | {'messages_count'} if what == 'messages' else set(toks)
        ok = toks == ('',) or (bool(terms) and all(t in allowed or t.replace('_count', '') in allowed for t in norm))
        if ctx.user_fn_of(d) == SYS + '::delete_partitions' and pe is not None:
            # the amounts actually removed come from the deletion result, not from the request
            ok = ok and expr_has_call(pe, 'server::streaming::topics::topic::Topic::delete_persisted_partitions')
        rep.ob('R16.f', ctx.user_fn_of(d), '%s(%s)' % (c.name.split('::')[-1], arg[-60:]), ok, c.where(), None if ok else 'metric `%s` is fed `%s`, which is not one of its sources %s' % (what, arg[-80:], toks))

    rep.rule('R16.g', 'the batch size that is accounted is computed from what is stored: with encryption it accumulates the sizes of the encrypted messages inside the encryption loop', floor=2, analysis='A9+A10')
    forms.check_call_args(ctx, rep, 'R16.g', {SYS + '::append_messages': {'Topic::append_messages': ['phi{::default() | Iterator::sum(Iterator::map(…))}, partitioning, messages, confirmation']}})
    ab = ctx.fn_body(SYS + '::append_messages')
    enc = [c for c in ab.calls if c.name == 'iggy::utils::crypto::EncryptorKind::encrypt']
    acc = [c for c in ab.calls if c.name.endswith('AddAssign>::add_assign') and is_user_call(c) and 'get_size_bytes' in canon(ab.pexpr_operand(c.args[1], 0, frozenset(), (c.bb, "t")), 0, 2)]
    if not enc or not acc:
        rep.ob('R16.g', SYS + '::append_messages', 'size accumulated after encryption', False, None, 'with encryption on, the accounted batch size is no longer accumulated from the encrypted messages')
    else:
        pay = None
        for blk in sorted(ab.reach):
            for st in ab.stmts(blk):
                lhs = st.get('lhs')
                if lhs and len(lhs) > 1 and place_fields(lhs) and place_fields(lhs)[-1][1] == 'payload' and not st.get('x'):
                    pay = blk
        ok = pay is not None and success_dominates(ab, enc[0], acc[0].bb) and (ab.dominates(pay, acc[0].bb))
        rep.ob('R16.g', SYS + '::append_messages', 'size accumulated after encryption', ok, acc[0].where(), 'batch_size += message.get_size_bytes() after the payload was replaced by its ciphertext' if ok else 'the size of a message is accounted before its payload is replaced by the (longer) ciphertext')

    # ------------------------------------------------------------ R16.h the shared counters go down the hierarchy to the level they belong to
    rep.rule('R16.h', 'the shared size / message / segment counters handed to Topic::create, Partition::create and Segment::create reach the parameter of their own kind and level, at run time and at load (a counter passed in a sibling slot adds every loaded segment to the wrong level or twice to one level)', floor=40, analysis='A13')
    import idkinds as idk_
    idk_.check_counter_kinds(ctx, rep, 'R16.h', ['server::streaming::'])

    # ------------------------------------------------------------ R16.i every counter starts at zero and every parent counter sits in its own slot
    rep.rule('R16.i', 'constructors: own counters start at 0 and the shared counters of the parents are stored in the field of their own kind and level (a loaded entity keeps these, the loader only adds to them)', floor=24, analysis='A9')
    from props import storage_forms as sf_
    CNT = ('size_bytes', 'messages_count', 'segments_count', 'size_of_parent_stream', 'size_of_parent_topic', 'size_of_parent_partition',
           'messages_count_of_parent_stream', 'messages_count_of_parent_topic', 'messages_count_of_parent_partition', 'segments_count_of_parent_stream',
           'log_size_bytes', 'index_size_bytes')
    sf_.check_constructors(ctx, rep, 'R16.i', {k: CNT for k in ('Segment', 'Partition', 'Topic', 'Stream')})

    # ------------------------------------------------------------ R16.j a rejected create request does not move the counters
    from props.c06 import rejections_precede_construction
    rejections_precede_construction(ctx, rep, 'R16.j')

    # ------------------------------------------------------------ R16.k the amount a segment will subtract has its confirmed writers
    rep.rule('R16.k', 'Segment.size_bytes (what delete subtracts from the three size counters and what get_messages_count tests for zero) is assigned only by the loader, with its confirmed form; everywhere else it only accumulates what was added to the parents (R16.c)', floor=1, analysis='A1/A9')
    sf.check(ctx, rep, 'R16.k', part_fields=(), seg_fields=('size_bytes',))

