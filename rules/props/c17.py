"""C17 — partition selection is deterministic and lands on an existing partition (structural clauses)."""
from lib import *
from mir import render, walk, short, canon
from engine import AnchorLost
import forms

TECHNIQUE = 'variant↔producer agreement of the partitioning kind dispatch, symbolic range of the returned id from its normal form, guard of the modulo by has_partitions at every caller, lookup-before-append dominance (A2, A3, A5, A9, A10)'
EXPLANATION = ('Decides on the MIR of the current tree: the three partitioning kinds produce the partition id from, respectively, the rotation cursor, the little-endian value of the request and the key hash; '
               'the key-hash result has the form (hash32(key) mod n) with 0 replaced by n, so it lies in [1,n], depends on nothing but the key and n, and the modulo is guarded by has_partitions at the call site; '
               'the rotation returns the fetched cursor when it is <= n and otherwise 1 with the cursor reset to 2; the append reaches a partition only through the Some edge of partitions.get(id) and otherwise returns '
               'PartitionNotFound without any write; one send produces exactly one partition append with the whole message vector. Not decided: even spread under concurrent senders.')
ASSUMPTIONS = ['hash::calculate_32 is a pure function of its argument (library contract)']

T = 'server::streaming::topics::topic::Topic'
PK = 'iggy::messages::send_messages::PartitioningKind'


def run(ctx, rep):
    b = ctx.fn_body(T + '::append_messages')
    rep.rule('R17.a', 'kind dispatch: Balanced → rotation cursor, PartitionId → little-endian value of the request, MessagesKey → hash of the key', floor=3, analysis='A5+A9')
    want = {'Balanced': lambda e: e[0] == 'call' and e[1] == T + '::get_next_partition_id',
            'PartitionId': lambda e: has_call_last(e, 'from_le_bytes') and any(x[0] == 'field' and x[2] == 'value' for x in walk(e)),
            'MessagesKey': lambda e: e[0] == 'call' and e[1] == T + '::calculate_partition_id_by_messages_key_hash' and any(x[0] == 'field' and x[2] == 'value' for x in walk(e))}
    sw = enum_switches(b, {PK})
    if not sw:
        rep.anchor_lost('R17.a', 'match on PartitioningKind in Topic::append_messages')
    else:
        bb, t, ty = sw[0]
        regions = arm_regions(b, bb)
        # the partition id variable: destination of the producers
        for v, blocks in regions.items():
            vn = variant_name(ctx, ty, v) if v != 'else' else None
            if vn is None:
                names = enum_variant_names(ctx, ty)
                taken = {variant_name(ctx, ty, x) for x, _ in t['arms']}
                rest = [n for n in names if n not in taken]
                vn = rest[0] if len(rest) == 1 else None
            if vn is None or vn not in want:
                continue
            prods = []
            for x in sorted(blocks):
                tt = b.term(x)
                if tt.get('t') == 'call' and not tt.get('x', '').startswith('m:'):
                    e = b._expr_call(x, tt, 0, frozenset())
                    prods.append(e)
                    # from_le_bytes may be wrapped
            ok = any(want[vn](e) for e in prods)
            other = [k for k in want if k != vn and any(want[k](e) for e in prods) and not (k == 'PartitionId')]
            rep.ob('R17.a', T + '::append_messages', vn + ' arm', ok and not other, b.where(bb),
                   'arm computes the id the way its kind demands' if ok and not other else 'the %s arm does not take the partition id from %s%s' % (vn, {'Balanced': 'get_next_partition_id', 'PartitionId': 'the request value', 'MessagesKey': 'the key hash'}[vn], ' (uses %s instead)' % other if other else ''))

    # the id handed to the partition append is one of the three, nothing else (no fourth source, no short cut in front of the dispatch)
    import forms as forms_
    ID_FORM = 'phi{Topic::calculate_partition_id_by_messages_key_hash(self, partitioning.value) | Topic::get_next_partition_id(self) | u32::from_le_bytes(::index(partitioning.value, RangeTo::RangeTo{end: partitioning.length}))}'
    ABI = 'server::streaming::batching::appendable_batch_info::AppendableBatchInfo'
    lit = [a for a, _ in forms_.aggregate_forms(ctx, T + '::append_messages', ABI)]
    if lit and not forms_.call_arg_forms(ctx, T + '::append_messages', 'AppendableBatchInfo::new', skip_self=False, cd=2):
        # the same value built with a struct literal instead of the constructor (which stores its parameters in the fields of their names)
        okl = forms_._match(lit[0].get('partition_id', ''), [ID_FORM]) is not None
        rep.ob('R17.a', T + '::append_messages', 'AppendableBatchInfo{partition_id}', okl, None, None if okl else 'the partition id handed to the append is `%s` (confirmed: `%s`)' % (lit[0].get('partition_id'), ID_FORM))
    else:
        forms_.check_call_args(ctx, rep, 'R17.a', {T + '::append_messages': {'AppendableBatchInfo::new': ['batch_size, ' + ID_FORM]}}, skip_self=False, cd=2)

    rep.rule('R17.b', 'the key hash lands in [1, n]: (hash32(key) mod n) with 0 mapped to n; depends only on key and n; modulo guarded by has_partitions', floor=4, analysis='A10 range')
    H = T + '::calculate_partition_id_by_messages_key_hash'
    hb = ctx.fn_body(H)
    ret = canon(hb.pexpr_local(0), 0, 2)
    ok = ret == 'phi{(hash::calculate_32(messages_key) % Topic::get_partitions_count(self)) | Topic::get_partitions_count(self)}'
    rep.ob('R17.b', H, 'result form', ok, None, 'returns %s' % ret if ok else 'the result `%s` is not (hash(key) mod n | n)' % ret)
    check_comparisons(ctx, rep, 'R17.b', {H: ['((hash::calculate_32(messages_key) % Topic::get_partitions_count(self)) == 0)']})   # 0 is replaced by n
    # the replacement value n is stored on the ==0 edge
    repl = False
    for blk in sorted(hb.reach):
        for s in hb.stmts(blk):
            lhs = s.get('lhs')
            if lhs and len(lhs) == 1 and hb.local_name(lhs[0]) and s['rv']['r'] == 'use' and not s.get('x'):
                e = hb._pexpr_rvalue(s['rv'], 0, frozenset())
                if canon(e, 0, 1) == 'Topic::get_partitions_count(self)':
                    lits = bool_literals_at(hb, blk)
                    if any(x[0] == 'bin' and x[1] == 'Eq' and is_const(x[3], 0) and t for x, t, _ in lits):
                        repl = True
    rep.ob('R17.b', H, '0 ↦ n on the ==0 edge', repl, None, None if repl else 'a zero remainder is not replaced by the partition count: id 0 does not exist')
    # modulo guarded by has_partitions at every caller
    rems = [bb for bb in hb.reach if hb.term(bb).get('t') == 'assert' and hb.term(bb).get('kind') == 'rem0']
    for bb in rems:
        ok, how = guarded_interproc(ctx, H, hb, bb, lambda e, t: (e[0] == 'call' and e[1] == T + '::has_partitions' and t) or (e[0] == 'bin' and e[1] in ('Eq',) and is_const(e[3], 0) and not t), depth=1)
        rep.ob('R17.b', H, 'modulo by a non-zero count', ok, hb.where(bb), how if ok else 'the partition count can be zero at the modulo: ' + how)
    # count derives from partitions.len()
    cb = ctx.fn_body(T + '::get_partitions_count')
    cret = canon(cb.pexpr_local(0), 0, 2)
    rep.ob('R17.b', T + '::get_partitions_count', 'n = number of partitions', 'len(self.partitions)' in cret or 'HashMap::len(self.partitions)' in cret, None, 'returns ' + cret)

    rep.rule('R17.c', 'the rotation cursor stays in [1, n]: fetched cursor when <= n, else 1 with the cursor reset to 2', floor=3, analysis='A10')
    N = T + '::get_next_partition_id'
    nb = ctx.fn_body(N)
    ret = canon(nb.pexpr_local(0), 0, 2)
    rep.ob('R17.c', N, 'result form', ret == 'phi{1 | Atomic::fetch_add(self.current_partition_id, 1, Ordering::SeqCst{})}', None, 'returns ' + ret)
    check_comparisons(ctx, rep, 'R17.c', {N: ['(HashMap::len(self.partitions) < Atomic::fetch_add(self.current_partition_id, 1, Ordering::SeqCst{}))']})
    forms.check_call_args(ctx, rep, 'R17.c', {N: {'Atomic::swap': ['(1 + 1), Ordering::SeqCst{}'],
                                                  'Atomic::fetch_add': ['1, Ordering::SeqCst{}']}})

    rep.rule('R17.d', 'a non-existent partition stores nothing: the append is reached only through the Some edge of partitions.get(id)', floor=2, analysis='A2')
    A = T + '::append_messages_to_partition'
    ab = ctx.fn_body(A)
    ap = [c for c in ab.calls if c.name.endswith('Partition::append_messages')]
    get = [c for c in ab.calls if c.name.split('::')[-1] == 'get' and is_user_call(c) and any(x[0] == 'field' and x[2] == 'partitions' for x in walk(ab.expr_operand(c.args[0])))]
    if not ap or not get:
        rep.anchor_lost('R17.d', 'partitions.get / Partition::append_messages')
    else:
        key = canon(ab.pexpr_operand(get[0].args[1]), 0, 1)
        rep.ob('R17.d', A, 'lookup by the requested id', key.endswith('.partition_id'), get[0].where(), 'partitions.get(%s)' % key)
        recv = ab.expr_operand(ap[0].args[0])
        ok = any(x[0] == 'call' and x[3] == get[0].bb for x in walk(recv)) and any(x[0] == 'try' for x in walk(recv))
        rep.ob('R17.d', A, 'append on the found partition only', ok, ap[0].where(), 'receiver is the ?-unwrapped result of the lookup' if ok else 'the partition that receives the messages is not the one looked up by id')
        err = [c for c in ab.calls if c.name.split('::')[-1] in ('ok_or', 'ok_or_else')]
        nf = any(x[0] == 'agg' and x[2] == 'PartitionNotFound' for c in err for a in c.args for x in walk(ab.expr_operand(a)))
        rep.ob('R17.d', A, 'absent ⇒ PartitionNotFound', nf, err[0].where() if err else None, None if nf else 'a missing partition is not reported as PartitionNotFound')

    rep.rule('R17.e', 'one send, one partition: exactly one partition append per successful non-empty send, with the whole message vector', floor=2, analysis='A2 pairing')
    ap = [c for c in b.calls if c.name == A]
    rep.ob('R17.e', T + '::append_messages', 'single append', len(ap) == 1 and not any(ap[0].bb in bl for h, bl in natural_loops(b)), ap[0].where() if ap else None, '%d call(s)' % len(ap))
    if ap:
        msgs = b.expr_operand(ap[0].args[2])
        rep.ob('R17.e', T + '::append_messages', 'whole vector', msgs in (('param', 'messages'), ('upvar', 'messages')), ap[0].where(), 'passes ' + render(msgs)[:60])

    rep.rule('R17.f', 'partitions are numbered 1..n without gaps: new partitions get ids n+1..n+count, removed partitions are the highest ids n-count+1..n (count clamped to n)', floor=2, analysis='A10')
    forms.check_call_args(ctx, rep, 'R17.f', {
        T + '::add_partitions': {'RangeInclusive::new': ['(1 + HashMap::len(self.partitions)), (HashMap::len(self.partitions) + count)']},
        T + '::delete_persisted_partitions': {'RangeInclusive::new': ['((HashMap::len(self.partitions) - phi{HashMap::len(self.partitions) | count}) + 1), HashMap::len(self.partitions)']},
    }, skip_self=False)
    forms.check_call_args(ctx, rep, 'R17.f', {T + '::delete_persisted_partitions': {'AHashMap::remove': ['::next(::into_iter(…))']}})   # the key removed is the loop variable itself

    # ------------------------------------------------------------ R17.g the partitions that exist after a restart are the ones that existed before
    from props.c05 import replay_partition_numbering
    replay_partition_numbering(ctx, rep, 'R17.g')

