"""C18 — with deduplication on, a message id is stored at most once per partition (structural clauses)."""
from lib import *
from mir import render, walk, short, canon
from engine import AnchorLost
from props import storage_forms as sf

TECHNIQUE = 'dominance of the try_insert==true edge over offset assignment and push, loop coverage of the id rebuild at load, check-then-insert ordering, configuration tie (A2, A3)'
EXPLANATION = ('Decides on the MIR of the current tree: in the deduplicating branch of Partition::append_messages the offset computation and the push of a message are control-dependent on try_insert(id)==true and '
               'a duplicate goes to the next iteration; the branch is selected by the presence of the deduplicator, which Partition::create ties to message_deduplication.enabled; without a deduplicator every '
               'message is pushed; at load every segment\'s ids are read from the whole log and inserted; try_insert inserts only after exists()==false and callers hold &mut Partition. '
               'Also: the offset of a kept message is base + number of messages kept so far, the counter being incremented once and only on the kept path (a dropped duplicate consumes no offset). Not decided: capacity / TTL eviction semantics of the moka cache.')
ASSUMPTIONS = ['moka Cache::contains_key / insert behave as a set with TTL and capacity (library contract)']

P = sf.PART
D = 'server::streaming::deduplication::message_deduplicator::MessageDeduplicator'


def run(ctx, rep):
    from props import accessors as _acc
    _acc.check(ctx, rep, 'C18', 'R18.acc')
    b = ctx.fn_body(sf.APPEND)
    rep.rule('R18.a', 'the duplicate check precedes offset assignment: RetainedMessage::new and the push are control-dependent on try_insert==true; the branch is selected by the deduplicator being present', floor=3, analysis='A2+A3')
    ti = [c for c in b.calls if c.name == D + '::try_insert']
    news = [c for c in b.calls if c.name.endswith('RetainedMessage::new')]
    pushes = [c for c in b.calls if c.matches('std::vec::Vec::push') and is_user_call(c) and 'RetainedMessage' in c.gen]
    if len(ti) != 1 or len(news) < 2 or len(pushes) < 2:
        rep.anchor_lost('R18.a', 'try_insert / RetainedMessage::new / push in append_messages')
        return
    t = ti[0]
    from mir import expr_wraps_call
    dedup_sites = [c for c in news + pushes if b.dominates(t.bb, c.bb)]
    plain_sites = [c for c in news + pushes if not b.dominates(t.bb, c.bb)]
    for c in dedup_sites:
        ok = any(expr_wraps_call(e, t.bb) and tr for e, tr, _ in bool_literals_at(b, c.bb))
        rep.ob('R18.a', sf.APPEND, short(c.name) + ' only for a new id', ok, c.where(), 'control-dependent on try_insert==true' if ok else 'a message whose id is already known still gets an offset / is stored')
    key = canon(b.pexpr_operand(t.args[1], 0, frozenset(), (t.bb, "t")), 0, 1)
    rep.ob('R18.a', sf.APPEND, 'checked id = message id', key.endswith('.id'), t.where(), 'try_insert(%s)' % key)
    sel = any(render(e).endswith('message_deduplicator') and vals == [1] for e, vals, _ in discr_literals_at(b, t.bb))
    rep.ob('R18.a', sf.APPEND, 'branch selected by Some(deduplicator)', sel, t.where(), None if sel else 'the deduplicating loop is not selected by the presence of the deduplicator')
    # the false edge continues the loop without push
    fe = [e for _, e in err_edges(b, t)]
    for bb_, tm, e in switch_exprs(b):
        if tm.get('ty') == 'bool' and expr_wraps_call(norm_bool(e, True)[0], t.bb):
            tt, tf = bool_targets(tm)
            ee, tr = norm_bool(e, True)
            dup = tf if tr else tt
            heads = {c.bb for c in b.calls if (c.fn or '').endswith('Iterator::next')}
            leak = [c for c in dedup_sites if c.bb in b.reachable(dup, avoid_blocks=heads | {bb_})]
            rep.ob('R18.a', sf.APPEND, 'duplicate edge stores nothing', not leak, b.where(bb_), 'the try_insert==false edge reaches the next iteration without push' if not leak else 'the duplicate edge still reaches %s' % short(leak[0].name))

    rep.rule('R18.e', 'a dropped duplicate consumes no offset: in the deduplicating loop the offset of a kept message is base + (number of messages kept so far), the counter being incremented once, on the kept path only', floor=3, analysis='A10+A2')
    dn = [c for c in news if b.dominates(t.bb, c.bb) and is_user_call(c)]
    for c in dn:
        f = canon(b.pexpr_operand(c.args[0], 0, frozenset(), (c.bb, "t")))
        ok = f == '(phi{($u32 + 1) | 0} + phi{(1 + self.current_offset) | 0})'
        rep.ob('R18.e', sf.APPEND, 'offset of a kept message', ok, c.where(), 'offset = %s' % f if ok else
               'the offset of a kept message is `%s`, not base + count of kept messages: a dropped duplicate can consume an offset' % f)
    incs = []
    for blk in sorted(b.reach):
        for s_ in b.stmts(blk):
            rv = s_.get('rv')
            if rv and rv['r'] == 'bin' and rv['op'].startswith('Add') and 'k' in rv['b'] and rv['b']['k'] == '1' and rv['b'].get('ty') == 'u32' and not s_.get('x'):
                incs.append(blk)
    loops = natural_loops(b)
    inner = [bl for h, bl in loops if t.bb in bl]
    if not inner:
        rep.anchor_lost('R18.e', 'deduplicating loop')
    else:
        body_ = min(inner, key=len)
        here = [blk for blk in incs if blk in body_]
        kept = [blk for blk in here if any(expr_wraps_call(e, t.bb) and tr for e, tr, _ in bool_literals_at(b, blk))]
        rep.ob('R18.e', sf.APPEND, 'counter incremented once, only for a kept message', len(here) == 1 and len(kept) == 1, b.where(here[0]) if here else None,
               'one increment, control-dependent on try_insert==true' if len(here) == 1 and len(kept) == 1 else 'the kept-message counter has %d increments in the deduplicating loop, %d of them on the kept path' % (len(here), len(kept)))
        # the counter feeding the offset is that counter and nothing else advances per iteration (an enumerate index would)
        base_cnt = [c for c in dn if 'enumerate' in canon(b.pexpr_operand(c.args[0], 0, frozenset(), (c.bb, "t")), 0, 3).lower()]
        rep.ob('R18.e', sf.APPEND, 'offset does not use the position in the incoming batch', not base_cnt, base_cnt[0].where() if base_cnt else None,
               None if not base_cnt else 'the offset is derived from the position of the message in the incoming batch, which also counts dropped duplicates')

    rep.rule('R18.b', 'with deduplication off nothing is dropped: in the other loop every iteration pushes', floor=1, analysis='A2')
    pp = [c for c in pushes if c in plain_sites]
    if not pp:
        rep.anchor_lost('R18.b', 'push in the non-deduplicating loop')
    else:
        ok, detail, it = loop_coverage(b, pp[0])
        rep.ob('R18.b', sf.APPEND, 'every message pushed', ok, pp[0].where(), detail)
    cb = ctx.fn_body(P + '::create')
    tie = False
    for blk in sorted(cb.reach):
        for s in cb.stmts(blk):
            rv = s.get('rv')
            if rv and rv['r'] == 'agg' and rv.get('adt') == P:
                e = cb._pexpr_rvalue(rv, 0, frozenset())
                for n, v in e[3]:
                    if n == 'message_deduplicator':
                        f = canon(v, 0, 2)
                        tie = 'MessageDeduplicator::new' in f and 'None' in f
    en = any(render(e).endswith('message_deduplication.enabled') or (e[0] == 'field' and e[2] == 'enabled') for bb_, tm, e in switch_exprs(cb))
    rep.ob('R18.b', P + '::create', 'deduplicator ⇔ message_deduplication.enabled', tie and en, None, 'Some(MessageDeduplicator::new(..)) | None selected by config.message_deduplication.enabled' if tie and en else 'the deduplicator is not tied to the configuration flag')

    rep.rule('R18.c', 'ids are rebuilt from every segment at load: every loaded segment reaches load_message_ids, every id reaches try_insert; the id loader walks the whole log', floor=3, analysis='A2 loop coverage')
    lb = ctx.fn_body(sf.LOAD)
    lm = [c for c in lb.calls if c.name.endswith('Segment::load_message_ids')]
    lt = [c for c in lb.calls if c.name == D + '::try_insert']
    if not lm or not lt:
        rep.ob('R18.c', sf.LOAD, 'ids rebuilt', False, None, 'partition load no longer rebuilds the deduplication ids from the segments')
    else:
        sel = any(render(e).endswith('message_deduplicator') and vals == [1] for e, vals, _ in discr_literals_at(lb, lm[0].bb))
        rep.ob('R18.c', sf.LOAD, 'under Some(deduplicator)', sel, lm[0].where(), None if sel else 'ids are not loaded when a deduplicator is configured')
        # every *.log segment iteration that reaches the push also reaches load_message_ids when dedup is on: the push is after it
        pushes_ = [c for c in lb.calls if c.matches('std::vec::Vec::push') and is_user_call(c) and 'segment::Segment' in c.gen]
        ok = bool(pushes_) and pushes_[0].bb in lb.reachable(lm[0].bb) and lm[0].bb not in lb.reachable(pushes_[0].bb, avoid_blocks={c.bb for c in lb.calls if (c.fn or '').endswith('ReadDir::next_entry')})
        rep.ob('R18.c', sf.LOAD, 'per segment, before it is added', ok, lm[0].where(), None if ok else 'a segment can be added to the partition without its ids having been loaded')
        ok2, detail, it = loop_coverage(lb, lt[0])
        rep.ob('R18.c', sf.LOAD, 'every id inserted', ok2, lt[0].where(), detail)
    from props import read_forms as rf
    check_comparisons(ctx, rep, 'R18.c', {rf.LR + '::load_message_ids_impl': rf.CMP_LOG[rf.LR + '::load_message_ids_impl']})
    ib = ctx.fn_body(rf.LR + '::load_message_ids_impl')
    rn = [c for c in ib.calls if c.name.endswith('read_next_batch')]
    if rn:
        start = canon(ib.pexpr_operand(rn[0].args[1]), 0, 1)
        rep.ob('R18.c', rf.LR + '::load_message_ids_impl', 'scan starts at 0', start.startswith('phi{') and start.endswith('| 0}'), rn[0].where(), 'offset = ' + start[:80])

    rep.rule('R18.d', 'try_insert is check-then-insert: insert only on the exists()==false edge, returning false otherwise', floor=2, analysis='A2')
    tb = ctx.fn_body(D + '::try_insert')
    ins = [c for c in tb.calls if c.name == D + '::insert']
    if not ins:
        rep.anchor_lost('R18.d', 'insert in try_insert')
    else:
        ok = any(e[0] == 'call' and e[1] == D + '::exists' and not tr for e, tr, _ in bool_literals_at(tb, ins[0].bb))
        rep.ob('R18.d', D + '::try_insert', 'insert only if absent', ok, ins[0].where(), None if ok else 'an id is inserted without the exists()==false test')
        # returns: true after insert, false on exists
        rets = []
        for blk in sorted(tb.reach):
            for s in tb.stmts(blk):
                if s.get('lhs') == [0] and not s.get('x'):
                    e = tb._expr_rvalue(s['rv'], 0, frozenset())
                    ex = [tr for x, tr, _ in bool_literals_at(tb, blk) if x[0] == 'call' and x[1] == D + '::exists']
                    rets.append((e[1] if e[0] == 'const' else '?', ex))
        good = sorted(rets, key=str) == sorted([('false', [True]), ('true', [False])], key=str) or sorted(rets, key=str) == sorted([('0', [True]), ('1', [False])], key=str)
        rep.ob('R18.d', D + '::try_insert', 'true ⇔ newly inserted', good, None, str(rets))
    eb = ctx.fn_body(D + '::exists')
    ek = any(c.name.split('::')[-1] == 'contains_key' for c in eb.calls)
    rep.ob('R18.d', D + '::exists', 'membership test on the id set', ek, None, None if ek else 'exists() no longer tests membership')

    # ------------------------------------------------------------ R18.f the id cache is built from the deduplication settings only
    rep.rule('R18.f', 'constructor: a partition builds its id cache from the configured deduplication capacity and expiry (an id is remembered for as long as configured, not for as long as some other setting says)', floor=1, analysis='A9')
    from props import storage_forms as sf_
    sf_.check_constructors(ctx, rep, 'R18.f', {'Partition': ('message_deduplicator',)})

    # ------------------------------------------------------------ R18.g ids are re-learnt from the log itself, whatever is cached
    rep.rule('R18.g', 'after a restart the id cache is rebuilt from the log file: Segment::load_message_ids has no successful return that does not pass the success edge of SegmentLogReader::load_message_ids_impl (the in-memory index is absent when index caching is off: it says nothing about what the log holds)', floor=1, analysis='A2')
    LMI = 'server::streaming::segments::segment::Segment::load_message_ids'
    if not ctx.has(LMI):
        rep.anchor_lost('R18.g', LMI)
    else:
        lb_g = ctx.fn_body(LMI)
        rd_ = [c for c in lb_g.calls if c.name.endswith('SegmentLogReader::load_message_ids_impl') and is_user_call(c)]
        oks_g = strict_ok_exit_blocks(lb_g) | {b for b, k, _ in lb_g.return_sites() if k in ('value', 'tail')}
        ok_g = bool(rd_) and not (oks_g & lb_g.reachable(0, avoid_blocks={rd_[0].bb}))
        rep.ob('R18.g', LMI, 'every successful return read the log', ok_g, rd_[0].where() if rd_ else None, None if ok_g else
               'load_message_ids can return successfully without reading the log file: the ids of stored messages are forgotten by the restart and a repeat is stored again')

    # ------------------------------------------------------------ R18.h a batch of duplicates leaves the offset state alone
    rep.rule('R18.h', 'a batch that deduplication empties changes nothing: in Partition::append_messages every assignment to current_offset / should_increment_offset lies behind the "no message left" early return (`messages_count == 0` is false there)', floor=2, analysis='A3 guard literals')
    import forms as forms_h
    from props import storage_forms as sf_h
    ab_h = ctx.fn_body(sf_h.APPEND)
    for fld in ('should_increment_offset', 'current_offset'):
        for fn_, b2_, bb_, ln_, form_ in forms_h.field_assignments(ctx, sf_h.PART, fld):
            if fn_ != sf_h.APPEND:
                continue
            lits_ = [(canon(e_, 0, 1), t_) for e_, t_, _ in bool_literals_at(b2_, bb_)]
            ok_h = any(('(0 == ' in f_ or f_.endswith(' == 0)')) and (not t_) for f_, t_ in lits_) or any(('(0 != ' in f_ or f_.endswith(' != 0)') or '(0 < ' in f_) and t_ for f_, t_ in lits_)
            rep.ob('R18.h', sf_h.APPEND, '%s = %s after the empty-batch return' % (fld, form_[:40]), ok_h, '%s:%s' % (b2_.file, ln_), None if ok_h else
                   '`%s` is assigned before it is known that a message is left after deduplication: a batch of repeats moves the offset state although nothing is stored' % fld)

