"""C19 — with encryption on, nothing sensitive is stored in clear and reads are lossless (structural clauses)."""
from lib import *
from mir import render, walk, short, canon
from engine import AnchorLost
import forms

TECHNIQUE = 'dominance and loop coverage of encrypt-before-append, who-may-call of the topic append, decrypt-or-fail edge analysis on the poll path, provenance of the journalled bytes, layering of file-writing APIs (A1, A2, A3, A9)'
EXPLANATION = ('Decides on the MIR of the current tree: in System::append_messages, under Some(encryptor), every message of the batch gets its payload replaced by the Ok result of encrypt (length fixed up) and an '
               'encryption error aborts the send; Topic::append_messages is reached only after that loop and has no other production caller; the encryptor is present exactly under encryption.enabled and is the '
               'same one handed to the state journal; in System::poll_messages, under Some(encryptor), the returned messages are rebuilt from decrypt Ok results and a decrypt error is returned as an error; the journal '
               'appends the encrypted re-framed command under Some(encryptor) and decrypts before decoding at load, with errors propagated; file-writing APIs are called only from the storage modules listed. '
               'Not decided: byte-level absence of plaintext; AES-GCM behaviour under a wrong key (library contract).')
ASSUMPTIONS = ['EncryptorKind::encrypt/decrypt are authenticated encryption (library contract)', 'message headers are not encrypted by the server (outside the property\'s list)']

T = 'server::streaming::topics::topic::Topic'
ENC = 'iggy::utils::crypto::EncryptorKind::encrypt'
DEC = 'iggy::utils::crypto::EncryptorKind::decrypt'
FS = 'server::state::file::FileState'
WRITE_MODULES = ('server::streaming::segments::logs', 'server::streaming::segments::indexes', 'server::streaming::persistence::persister', 'server::streaming::utils::file',
                 'server::archiver', 'server::streaming::systems::snapshot', 'server::log', 'server::compat::index_rebuilding', 'server::streaming::systems::info', 'server::http::jwt', 'server::configs',
                 'server::streaming::systems::storage', 'server::quic', 'server::tcp', 'server::http::http_server', 'server::server_error', 'server::streaming::partitions::storage')


def _rebuilt_length(ctx, rep, rid='R19.b'):
    """the message handed back after decryption carries the plaintext length together with the plaintext payload"""
    PM = 'iggy::models::messages::PolledMessage'
    SYSF = SYS + '::poll_messages'
    found = 0
    for d_ in [x for x in ctx.facts.body_defs() if x == SYSF or x.startswith(SYSF + '::{closure')]:
        kb = ctx.body(d_)
        for blk in sorted(kb.reach):
            for st in kb.stmts(blk):
                rv = st.get('rv')
                if rv and rv['r'] == 'agg' and rv.get('adt') == PM and not st.get('x', '').startswith('m:'):
                    e = kb._pexpr_rvalue(rv, 0, frozenset())
                    f_ = dict((n, canon(v, 0, 3)) for n, v in e[3])
                    pl, ln_ = f_.get('payload', ''), f_.get('length', '')
                    found += 1
                    ok = 'decrypt' in pl and 'decrypt' in ln_ and 'len(' in ln_
                    rep.ob(rid, SYSF, 'decrypted message carries the plaintext length', ok, '%s:%s' % (kb.file, st.get('ln')), 'length: %s' % ln_[:80] if ok else
                           'the message rebuilt after decryption has payload `%s` but length `%s`: the reader is told the ciphertext length for a plaintext payload' % (pl[:60], ln_[:60]))
    if not found:
        # in-place form: `message.payload = decrypted` must come with `message.length = len(decrypted)`
        import forms as forms_
        pa = [x for x in forms_.field_assignments(ctx, PM, 'payload') if x[0] == SYSF]
        la = [x for x in forms_.field_assignments(ctx, PM, 'length') if x[0] == SYSF]
        if not pa:
            rep.anchor_lost(rid, 'PolledMessage rebuilt (or its payload replaced) in System::poll_messages')
        else:
            ok = bool(la) and all('decrypt' in f[4] and 'len(' in f[4] for f in la)
            rep.ob(rid, SYSF, 'decrypted message carries the plaintext length', ok, '%s:%s' % (pa[0][1].file, pa[0][3]), 'length: %s' % la[0][4][:80] if ok else
                   'the payload of a polled message is replaced by the plaintext (`%s`) but its length field is %s: the reader is told the ciphertext length for a plaintext payload' % (pa[0][4][:60], ('set to `%s`' % la[0][4][:60]) if la else 'left as it was'))


def run(ctx, rep):
    rep.rule('R19.a', 'payloads are encrypted before they reach a partition: under Some(encryptor) every message payload := Ok(encrypt(payload)), errors abort, the topic append follows the loop and has no other caller', floor=6, analysis='A2+A9+A1')
    b = ctx.fn_body(SYS + '::append_messages')
    enc = [c for c in b.calls if c.name == ENC]
    ta = [c for c in b.calls if c.name == T + '::append_messages']
    if len(enc) != 1 or len(ta) != 1:
        rep.anchor_lost('R19.a', 'encrypt / Topic::append_messages in System::append_messages')
    else:
        e, a = enc[0], ta[0]
        sel = any(render(x).endswith('.encryptor') and vals == [1] for x, vals, _ in discr_literals_at(b, e.bb))
        rep.ob('R19.a', SYS + '::append_messages', 'under Some(encryptor)', sel, e.where(), None if sel else 'encryption is not selected by the presence of the encryptor')
        ok, detail, it = loop_coverage(b, e)
        it_ok = it is not None and has_var(it, 'messages')
        rep.ob('R19.a', SYS + '::append_messages', 'every message of the batch', ok and it_ok, e.where(), detail if ok and it_ok else 'not every message of the batch is encrypted (%s)' % detail)
        arg = canon(b.pexpr_operand(e.args[1], 0, frozenset(), (e.bb, "t")), 0, 1)
        rep.ob('R19.a', SYS + '::append_messages', 'encrypts the payload', arg.endswith('.payload'), e.where(), 'encrypt(%s)' % arg)
        # payload assignment from the Ok arm
        asg = []
        for blk in sorted(b.reach):
            for s in b.stmts(blk):
                lhs = s.get('lhs')
                if lhs and len(lhs) > 1 and place_fields(lhs) and place_fields(lhs)[-1][1] == 'payload' and not s.get('x'):
                    v = b._pexpr_rvalue(s['rv'], 0, frozenset())
                    asg.append((blk, v, s.get('ln')))
        okp = any(any(x[0] == 'call' and x[3] == e.bb for x in walk(v)) and success_dominates(b, e, blk) for blk, v, ln in asg)
        rep.ob('R19.a', SYS + '::append_messages', 'payload := Ok(encrypt(..))', okp, '%s:%s' % (b.file, asg[0][2]) if asg else None, None if okp else 'the encrypted bytes are not stored back into the message on the Ok edge')
        # error edge aborts
        errs = failure_edge_blocks(b, e)
        leak = any(a.bb in b.reachable(fb, avoid_blocks={c.bb for c in b.calls if (c.fn or '').endswith('Iterator::next')}) for fb in errs)
        rep.ob('R19.a', SYS + '::append_messages', 'encryption failure aborts the send', bool(errs) and not leak, e.where(), None if errs and not leak else 'after a failed encryption the send still reaches the topic append')
        # the append comes after the loop: not inside it, reachable only via the loop exit when an encryptor is present
        loops = [bl for h, bl in natural_loops(b) if e.bb in bl]
        outside = bool(loops) and a.bb not in min(loops, key=len)
        rep.ob('R19.a', SYS + '::append_messages', 'append after the loop', outside, a.where(), None if outside else 'messages are appended from inside the encryption loop (some still in clear)')
        msgs = b.expr_operand(a.args[3]) if len(a.args) > 3 else None
        rep.ob('R19.a', SYS + '::append_messages', 'appends the encrypted vector', msgs is not None and has_var(msgs, 'messages'), a.where(), 'passes ' + (render(msgs)[:40] if msgs else '?'))
    for d, c in callers_of(ctx, T + '::append_messages'):
        fn = ctx.user_fn_of(d)
        rep.ob('R19.a', fn, 'only caller of Topic::append_messages', fn == SYS + '::append_messages', c.where(), None if fn == SYS + '::append_messages' else 'an unencrypted way into the log: Topic::append_messages is called from ' + short(fn))
    nb = ctx.fn_body(SYS + '::new')
    tie = any(render(e).endswith('encryption.enabled') or (e[0] == 'field' and e[2] == 'enabled' and any(x[0] == 'field' and x[2] == 'encryption' for x in walk(e))) for bb_, t_, e in switch_exprs(nb))
    rep.ob('R19.a', SYS + '::new', 'encryptor ⇔ encryption.enabled', tie, None, None if tie else 'the encryptor is not tied to config.encryption.enabled')
    # enabled ⇒ an encryptor exists: on the enabled edge no `None` is produced for the encryptor (an unusable key must stop the server, not switch encryption off)
    sel = None
    for bb_, t_, e in switch_exprs(nb):
        if t_.get('ty') == 'bool' and (render(e).endswith('encryption.enabled') or (e[0] == 'field' and e[2] == 'enabled')):
            sel = (bb_, t_)
    if sel is None:
        rep.anchor_lost('R19.a', 'branch on config.encryption.enabled in System::new')
    else:
        bb_, t_ = sel
        tt, tf = bool_targets(t_)
        region = nb.reachable(tt, avoid_blocks={bb_}) - nb.reachable(tf, avoid_blocks={bb_}) if tt is not None and tf is not None else set()
        nones = []
        for blk in sorted(region):
            for st in nb.stmts(blk):
                rv = st.get('rv') or {}
                if rv.get('r') == 'agg' and rv.get('adt') == 'std::option::Option' and rv.get('variant') == 'None' and not st.get('x', '').startswith('m:'):
                    ty = nb.locals[st['lhs'][0]] if st.get('lhs') else ''
                    if 'EncryptorKind' in ty:
                        nones.append('%s:%s' % (nb.file, st.get('ln')))
        rep.ob('R19.a', SYS + '::new', 'enabled ⇒ Some(encryptor)', not nones, nones[0] if nones else None,
               'no path of the enabled arm yields None' if not nones else 'with encryption enabled System::new can continue with encryptor = None (an unusable key switches encryption off silently: payloads and journalled commands are stored in clear)')

    rep.rule('R19.b', 'polls decrypt or fail: under Some(encryptor) the returned messages are rebuilt from decrypt Ok results; a decrypt error is returned as CannotDecryptData', floor=4, analysis='A2+A3')
    pb = ctx.fn_body(SYS + '::poll_messages')
    dec = [c for c in pb.calls if c.name == DEC]
    cdec = []
    if not dec:
        # iterator-chain form: `messages.iter().map(|m| decrypt(..) -> Result<PolledMessage>).collect::<Result<Vec<_>, _>>()?`
        for d_ in sorted(ctx.facts.body_defs()):
            if d_.startswith(SYS + '::poll_messages::{closure') and d_.count('{closure') >= 2:
                kb = ctx.body(d_)
                for c in kb.calls:
                    if c.name == DEC:
                        cdec.append((d_, kb, c))
    if not dec and len(cdec) == 1:
        d_, kb, dcall = cdec[0]
        maps = [c for c in pb.calls if (c.fn or '').endswith('Iterator::map') and any(x[0] == 'closure' and x[1] == d_ for a in c.args for x in walk(pb.expr_operand(a)))]
        coll = [c for c in pb.calls if (c.fn or '').endswith('Iterator::collect') and maps and any(x[0] == 'call' and x[3] == maps[0].bb for x in walk(pb.expr_operand(c.args[0])))]
        prop_ = bool(coll) and bool(pb.result_edges(coll[0]))
        src = canon(pb.pexpr_operand(maps[0].args[0]), 0, 3) if maps else ''
        okm = bool(maps) and bool(coll) and prop_ and '.messages' in src and 'filter' not in src and 'take' not in src and 'skip' not in src
        rep.ob('R19.b', SYS + '::poll_messages', 'every returned message decrypted', okm, maps[0].where() if maps else None,
               'every polled message is mapped through the decrypting closure and the results are collected with error propagation' if okm else
               'the decrypting closure is not applied to every polled message (iterator: %s) or its errors are not propagated' % src[:100])
        okret = {b_ for b_, k_, _ in kb.return_sites() if k_ in ('ok', 'value', 'tail')} or {x for x in kb.reach if kb.term(x).get('t') == 'return'}
        errs = failure_edge_blocks(kb, dcall)
        iserr = any(any((s_.get('rv') or {}).get('variant') == 'CannotDecryptData' for s_ in kb.stmts(x)) for fb in errs for x in kb.reachable(fb))
        okvals = any(any((s_.get('rv') or {}).get('r') == 'agg' and (s_['rv'].get('adt') or '').endswith('PolledMessage') for s_ in kb.stmts(x)) for fb in errs for x in kb.reachable(fb))
        rep.ob('R19.b', SYS + '::poll_messages', 'undecryptable ⇒ error', bool(errs) and iserr and not okvals, dcall.where(), None if errs and iserr and not okvals else 'an undecryptable record is not reported as CannotDecryptData')
        built = [x for x in kb.reach for s_ in kb.stmts(x) if (s_.get('rv') or {}).get('r') == 'agg' and (s_['rv'].get('adt') or '').endswith('PolledMessage')]
        okb = bool(built) and all(success_dominates(kb, dcall, x) for x in built)
        rep.ob('R19.b', SYS + '::poll_messages', 'no path returns stored bytes undecrypted', okb, dcall.where(), 'a message is rebuilt only on the success edge of decrypt' if okb else 'a message is returned without a successful decrypt')
        arg = canon(kb.pexpr_operand(dcall.args[1], 0, frozenset(), (dcall.bb, "t")), 0, 1)
        rep.ob('R19.b', SYS + '::poll_messages', 'decrypts the payload', arg.endswith('.payload'), dcall.where(), 'decrypt(%s)' % arg)
    elif len(dec) != 1:
        rep.anchor_lost('R19.b', 'decrypt in System::poll_messages')
    else:
        dcall = dec[0]
        ok, detail, it = loop_coverage(pb, dcall)
        # loop_coverage flags early `return Err` as fine; the Ok exits reachable without the loop must be the "no encryptor" / empty ones
        rep.ob('R19.b', SYS + '::poll_messages', 'every returned message decrypted', ok, dcall.where(), detail)
        errs = failure_edge_blocks(pb, dcall)
        okret = strict_ok_exit_blocks(pb)
        leak = any(okret & pb.reachable(fb, avoid_blocks={c.bb for c in pb.calls if (c.fn or '').endswith('Iterator::next')}) for fb in errs)
        iserr = any(any((s.get('rv') or {}).get('variant') == 'CannotDecryptData' for s in pb.stmts(x)) for fb in errs for x in pb.reachable(fb, avoid_blocks={c.bb for c in pb.calls if (c.fn or '').endswith('Iterator::next')}))
        rep.ob('R19.b', SYS + '::poll_messages', 'undecryptable ⇒ error', bool(errs) and not leak and iserr, dcall.where(), None if errs and not leak and iserr else 'an undecryptable record is not reported as CannotDecryptData')
        # Ok returns that skip decryption are only: encryptor absent, no messages, no partition assigned
        cut = {(dcall.bb, dcall.to)}
        free = okret & pb.reachable(0, avoid_blocks={dcall.bb})
        bad = []
        for x in free:
            lits = bool_literals_at(pb, x)
            dl = discr_literals_at(pb, x)
            none_enc = any(e[0] == 'call' and e[1].split('::')[-1] == 'is_none' and t and render(e[2][0]).endswith('.encryptor') for e, t, _ in lits)
            empty = any(e[0] == 'call' and e[1].split('::')[-1] == 'is_empty' and t for e, t, _ in lits)
            nopart = any(has_call_last(e, 'resolve_consumer_with_partition_id') for e, vals, _ in dl)
            if not (none_enc or empty or nopart):
                bad.append(x)
        rep.ob('R19.b', SYS + '::poll_messages', 'no path returns stored bytes undecrypted', not bad, pb.where(bad[0]) if bad else None,
               'Ok without decrypt only when no encryptor / nothing polled' if not bad else 'an Ok return skips decryption although an encryptor may be configured')
        arg = canon(pb.pexpr_operand(dcall.args[1], 0, frozenset(), (dcall.bb, "t")), 0, 1)
        rep.ob('R19.b', SYS + '::poll_messages', 'decrypts the payload', arg.endswith('.payload'), dcall.where(), 'decrypt(%s)' % arg)
    _rebuilt_length(ctx, rep)

    rep.rule('R19.c', 'journal entries: encrypted re-framed command appended under Some(encryptor); decrypt before decoding at load; errors propagated', floor=4, analysis='A9+A2')
    APPLY = '<server::state::file::FileState as server::state::State>::apply'
    LOADE = '<server::state::file::FileState as server::state::State>::load_entries'
    ab = ctx.fn_body(APPLY)
    enc = [c for c in ab.calls if c.name == ENC]
    new = [c for c in ab.calls if c.name.endswith('StateEntry::new')]
    if not enc or not new:
        rep.anchor_lost('R19.c', 'encrypt / StateEntry::new in FileState::apply')
    else:
        sel = any(render(x).endswith('.encryptor') and vals == [1] for x, vals, _ in discr_literals_at(ab, enc[0].bb))
        cmd = ab.pexpr_operand(new[0].args[-1])
        uses = any(x[0] == 'call' and x[3] == enc[0].bb for x in walk(cmd)) or 'encrypt' in canon(cmd, 0, 6)
        rep.ob('R19.c', APPLY, 'entry carries the encrypted command', sel and uses, new[0].where(), 'command := phi{clear | re-framed encrypt(payload)} under Some(encryptor)' if sel and uses else 'the journalled command does not derive from encrypt(..) when an encryptor is present')
        errs = failure_edge_blocks(ab, enc[0])
        app = [c for c in ab.calls if c.name.endswith('PersisterKind::append')]
        leak = any(app and app[0].bb in ab.reachable(fb) for fb in errs)
        rep.ob('R19.c', APPLY, 'encryption failure aborts', bool(errs) and not leak, enc[0].where(), None if errs and not leak else 'a failed encryption still appends an entry')
        src = canon(ab.pexpr_operand(enc[0].args[1]), 0, 2)
        rep.ob('R19.c', APPLY, 'encrypts the command payload', 'slice' in src and 'command' in src or 'to_bytes' in src, enc[0].where(), 'encrypt(%s)' % src[:80])
    lb = ctx.fn_body(LOADE)
    dec = [c for c in lb.calls if c.name == DEC]
    fb_ = [c for c in lb.calls if c.name.endswith('EntryCommand as iggy::bytes_serializable::BytesSerializable>::from_bytes')]
    if not dec or not fb_:
        rep.anchor_lost('R19.c', 'decrypt / EntryCommand::from_bytes in load_entries')
    else:
        sel = any(render(x).endswith('.encryptor') and vals == [1] for x, vals, _ in discr_literals_at(lb, dec[0].bb))
        before = fb_[0].bb in lb.reachable(dec[0].bb) and dec[0].bb not in lb.reachable(fb_[0].bb, avoid_blocks={c.bb for c in lb.calls if c.name.split('::')[-1] == 'read_u64_le'})
        heads = {c.bb for c in lb.calls if c.name.split('::')[-1] == 'read_u64_le'}
        fe = failure_edge_blocks(lb, dec[0])
        errx = {eb for eb, _ in err_exit_sites(lb)}
        okx = strict_ok_exit_blocks(lb)
        prop = bool(fe) and all(errx & lb.reachable(x, avoid_blocks=heads) for x in fe) and not any(okx & lb.reachable(x, avoid_blocks=heads) for x in fe)
        rep.ob('R19.c', LOADE, 'decrypt before decode, errors propagated', sel and before and prop, dec[0].where(), None if sel and before and prop else 'load does not decrypt (under Some(encryptor)) before decoding, or an undecryptable entry does not fail the load (it is skipped / ends the load successfully)')

    rep.rule('R19.d', 'nothing else writes data files: file-writing APIs are called only from the listed storage modules', floor=10, analysis='A1')
    WR = ('tokio::io::AsyncWriteExt::write_all', 'tokio::io::AsyncWriteExt::write', 'tokio::io::AsyncWriteExt::write_vectored', 'tokio::io::AsyncWriteExt::write_all_buf', 'tokio::io::AsyncWriteExt::write_u32_le',
          'tokio::io::AsyncWriteExt::write_u64_le', 'std::io::Write::write_all', 'std::io::Write::write', 'std::fs::write', 'tokio::fs::write', 'tokio::fs::OpenOptions::write', 'std::fs::OpenOptions::write', 'tokio::fs::File::create', 'std::fs::File::create')
    n = 0
    for df in sorted(ctx.facts.body_defs()):
        if not in_crate(df):
            continue
        raw = ctx.facts.raw_body(df)
        if not any(bl.get('term', {}).get('fn', '') in WR for bl in raw['blocks']):
            continue
        bd = ctx.body(df)
        for c in bd.calls:
            if c.fn in WR and is_user_call(c):
                n += 1
                mod = bd.mod
                ok = any(mod == m or mod.startswith(m + '::') for m in WRITE_MODULES)
                if not ok and c.fn.endswith('OpenOptions::write'):
                    # opened for truncation only: the function calls set_len and no data-writing API
                    data = [x for x in bd.calls if x.fn in WR and not x.fn.endswith('OpenOptions::write') and is_user_call(x)]
                    trunc = [x for x in bd.calls if (x.fn or '').endswith('File::set_len') and is_user_call(x)]
                    if trunc and not data:
                        rep.ob('R19.d', ctx.user_fn_of(df), short(c.fn), True, c.where(), 'opened for truncation only (set_len; no data-writing call in the function)')
                        continue
                rep.ob('R19.d', ctx.user_fn_of(df), short(c.fn), ok, c.where(), 'in %s' % mod if ok else 'a file is written from module `%s`, which is not one of the storage modules through which (encrypted) data reaches disk' % mod)

    # ------------------------------------------------------------ R19.f decrypt accepts everything encrypt produces
    rep.rule('R19.f', 'decrypt refuses only what encrypt cannot have produced: the one length test of Aes256GcmEncryptor::decrypt is `len < 12` (the nonce); encrypt of an empty payload is 12 + 16 bytes and must still decrypt (a stricter test makes one stored message unreadable and every poll over it fail)', floor=1, analysis='A10 comparison forms')
    AES_DEC = '<iggy::utils::crypto::Aes256GcmEncryptor as iggy::utils::crypto::Encryptor>::decrypt'
    if not ctx.has(AES_DEC):
        rep.anchor_lost('R19.f', AES_DEC)
    else:
        got = comparison_forms(ctx, AES_DEC)
        allf = sorted(f for v in got.values() for f in v)
        ok = allf == ['([T]::len(data) < 12)']
        rep.ob('R19.f', AES_DEC, 'length tests', ok, None, ' '.join(allf) if ok else 'decrypt now tests %s (confirmed: only `([T]::len(data) < 12)`)' % allf)

