"""C20 — the SDK's producer and consumer deliver every message once, in partition order (structural clauses)."""
import re
from lib import *
from mir import render, walk, short, canon
from engine import AnchorLost
import forms

TECHNIQUE = 'addressing pass-through (the stream / topic / partitioning / messages a send call is given are the ones that reach MessageClient::send_messages), chunk loop coverage and order, replay-filter and commit-skip comparison forms, provenance of every committed offset (A2, A9, A10)'
EXPLANATION = ('Decides on the MIR of the SDK (crate iggy) of the current tree: in every send path of IggyProducer the stream, topic, partitioning and messages handed to the next stage are the function\'s own '
               'parameters (or the producer\'s configured stream/topic where the call has none), down to MessageClient::send_messages; every chunk of a buffered or immediate send reaches the send, in order, and a failure '
               'propagates; the consumer drops already consumed offsets unless replay is allowed (offset > last consumed), skips commits that would not advance (offset <= last stored), passes its own identity to poll and '
               'commit requests, records the offset of every message it yields as consumed and commits exactly that offset in the modes that commit on consumption; the background committer commits the consumed offset. '
               'Not decided: the composed run-time behaviour with a server (which offsets a poll returns, reconnects, timing of background commits), exactly-once over consumer re-creation, the behaviour of user-supplied partitioners.')
ASSUMPTIONS = ['the server side of poll / store offset is covered by C02 and C07', 'dyn Client calls resolve to the MessageClient / ConsumerOffsetClient trait methods named in the MIR']

PR = 'iggy::clients::producer::IggyProducer'
CO = 'iggy::clients::consumer::IggyConsumer'
POLL_NEXT = '<iggy::clients::consumer::IggyConsumer as futures::Stream>::poll_next'
EXT = '<iggy::clients::consumer::IggyConsumer as iggy::consumer_ext::consumer_message_trait::IggyConsumerMessageExt>::consume_messages'
ADDR = {'stream': 'stream', 'stream_id': 'stream', 'topic': 'topic', 'topic_id': 'topic', 'partitioning': 'partitioning', 'messages': 'messages'}


def _own(ctx, fn):
    rec = ctx.fn_record(fn)
    return {ADDR[p]: p for p in (rec.get('pnames') or []) if p in ADDR} if rec else {}


def passthrough(ctx, rep, rid, fn):
    """every user call in fn (and its closures) to a callee with stream / topic / partitioning / messages parameters receives fn's own
    parameter of that role; where fn has no such parameter, the producer's configured stream_id / topic_id"""
    own = _own(ctx, fn)
    defs = [d for d in ctx.facts.body_defs() if d == fn or d.startswith(fn + '::{closure')]
    n = 0
    for d in sorted(defs):
        b = ctx.body(d)
        for c in b.calls:
            if not is_user_call(c):
                continue
            rec = ctx.fn_record(c.name) or ctx.fn_record(c.fn or '')
            if not rec or not rec.get('pnames') or not (c.name.startswith('iggy::') or c.name.startswith('<iggy::') or (c.fn or '').startswith('iggy::')):
                continue
            if c.name.split('::')[-1] in ('get_partitioning', 'calculate_partition_id', 'encrypt_messages', 'wait_until_connected'):
                continue
            for i, p in enumerate(rec['pnames']):
                role = ADDR.get(p)
                if role is None or i >= len(c.args):
                    continue
                e = b.pexpr_operand(c.args[i])
                names = {x[1] for x in walk(e) if x[0] in ('param', 'upvar')}
                fields = {x[2] for x in walk(e) if x[0] == 'field'}
                if role in own:
                    ok = own[role] in names and not ({'stream_id', 'topic_id'} & fields and role in ('stream', 'topic'))
                    why = 'own parameter `%s`' % own[role]
                elif role in ('stream', 'topic'):
                    ok = (role + '_id') in fields and 'self' in names
                    why = 'the producer\'s configured %s_id' % role
                else:
                    continue
                n += 1
                rep.ob(rid, fn, '%s(%s) ← %s' % (c.name.split('::')[-1], p, why), ok, c.where(),
                       None if ok else '%s is called with %s = `%s`: the %s this send was addressed to is dropped and the messages go elsewhere' % (short(c.name), p, canon(e, 0, 2)[:90], role))
    return n


def run(ctx, rep):
    # ------------------------------------------------------------ R20.a addressing
    rep.rule('R20.a', 'messages reach the stream, topic and partition they were addressed to: every stage of every send call hands on its own stream / topic / partitioning / messages', floor=30, analysis='A9 pass-through')
    for fn in ('send', 'send_one', 'send_with_partitioning', 'send_to', 'send_buffered', 'send_immediately', 'try_send_messages', 'send_with_retries'):
        if not ctx.has(PR + '::' + fn):
            rep.anchor_lost('R20.a', PR + '::' + fn)
            continue
        passthrough(ctx, rep, 'R20.a', PR + '::' + fn)
    # the partitioning that is sent is the one computed from the caller's partitioning (or the partitioner)
    for fn in ('send_buffered', 'send_immediately'):
        for ln, form, b in forms.call_arg_forms(ctx, PR + '::' + fn, 'try_send_messages', skip_self=False, cd=2):
            parts = form.split(', ')
            ok = 'IggyProducer::get_partitioning(self, stream, topic, messages, partitioning)' in form
            rep.ob('R20.a', PR + '::' + fn, 'partitioning sent = get_partitioning(own arguments)', ok, '%s:%s' % (b.file, ln), None if ok else 'try_send_messages receives `%s`' % form[:140])

    # precedence of the partitioning: the one named in the send call, else the producer's configured one, else the default (a custom partitioner overrides all)
    gb = ctx.fn_body(PR + '::get_partitioning')
    rets = []
    for blk in sorted(gb.reach):
        for st in gb.stmts(blk):
            if st.get('lhs') == [0] and (st.get('rv') or {}).get('r') == 'agg':
                rets.append(canon(gb._pexpr_rvalue(st['rv'], 0, frozenset()), 0, 3))
    okp = 'Option::unwrap_or_else(partitioning, closure)' in rets
    rep.ob('R20.a', PR + '::get_partitioning', 'the partitioning of the call wins', okp, None, 'returns %s' % rets if okp else
           'get_partitioning returns %s: the partitioning given to the send call is not the first choice, so messages addressed to a partition go where the builder-level setting points' % rets)
    inner = set()
    for d_ in [x for x in ctx.facts.body_defs() if x.startswith(PR + '::get_partitioning::{closure')]:
        kb = ctx.body(d_)
        for c in kb.calls:
            if c.name.split('::')[-1] in ('unwrap_or_else', 'unwrap_or', 'or', 'or_else') and is_user_call(c):
                inner.add(canon(kb.pexpr_operand(c.args[0], 0, frozenset(), (c.bb, "t")), 0, 2))
    oki = inner == {'self.partitioning'}
    rep.ob('R20.a', PR + '::get_partitioning', 'then the configured partitioning, then the default', oki, None, None if oki else 'the fallback chain inside the closure starts from %s' % sorted(inner))

    # ------------------------------------------------------------ R20.b every chunk, in order, errors propagate
    rep.rule('R20.b', 'every chunk of a send is sent, in order, and a failed chunk fails the call: the chunk loop covers try_send_messages, iterates chunks_mut(messages, batch size) forwards, and the call result is propagated', floor=4, analysis='A2 loop coverage')
    for fn in ('send_buffered', 'send_immediately'):
        b = ctx.fn_body(PR + '::' + fn)
        ts = [c for c in b.calls if c.name == PR + '::try_send_messages']
        inloop = [c for c in ts if any(c.bb in bl for h, bl in natural_loops(b))]
        if not inloop:
            rep.anchor_lost('R20.b', 'try_send_messages inside the chunk loop of ' + fn)
            continue
        ok, detail, it = loop_coverage(b, inloop[0])
        rep.ob('R20.b', PR + '::' + fn, 'every chunk sent', ok, inloop[0].where(), detail)
        src = canon(b.pexpr_operand([c for c in b.calls if (c.fn or '').endswith('Iterator::next') and b.dominates(c.bb, inloop[0].bb)][-1].args[0]), 0, 4) if ok else ''
        fwd = 'chunks' in src and 'rev' not in src and 'messages' in src
        rep.ob('R20.b', PR + '::' + fn, 'chunks of the messages, forwards', fwd, inloop[0].where(), src[:100] if fwd else 'the loop iterates `%s`' % src[:100])
        for c in ts:
            prop = bool(b.result_edges(c))
            rep.ob('R20.b', PR + '::' + fn, 'send failure propagates', prop, c.where(), None if prop else 'the result of try_send_messages is not inspected')

    # ------------------------------------------------------------ R20.c consumer: replay filter and commit skip
    rep.rule('R20.c', 'a consumer yields no message twice and commits only forwards: polled messages with offset <= last consumed are dropped unless replay is allowed; a commit with offset <= last stored is skipped; the empty-poll shortcut tests current offset == last consumed', floor=5, analysis='A10 comparison forms')
    check_comparisons(ctx, rep, 'R20.c', {
        CO + '::create_poll_messages_future': ['(consumed_offset < message.offset)',
                                               're:^\\(MessageClient::poll_messages\\(.*\\)\\.current_offset == phi\\{0 \\| Atomic::load\\(DashMap::get\\(.*\\), ORDERING\\)\\}\\)$'],
        CO + '::store_consumer_offset': ['re:^\\(offset <= phi\\{0 \\| Atomic::load\\(DashMap::get\\(.*\\), ORDERING\\)\\}\\)$', '(1 <= offset)'],
    })
    fb = None
    for d in sorted(ctx.facts.body_defs()):
        if d.startswith(CO + '::create_poll_messages_future::{closure'):
            kb = ctx.body(d)
            for c in kb.calls:
                if c.name.split('::')[-1] == 'retain' and is_user_call(c):
                    fb = (kb, c)
    if fb is None:
        rep.anchor_lost('R20.c', 'messages.retain(..) in create_poll_messages_future')
    else:
        kb, c = fb
        lits = bool_literals_at(kb, c.bb)
        ok = any(render(e).endswith('allow_replay') and tr is False for e, tr, _ in lits)
        rep.ob('R20.c', CO + '::create_poll_messages_future', 'filter applies whenever replay is not allowed', ok, c.where(), None if ok else 'the consumed-offset filter is not selected by !allow_replay')

    # ------------------------------------------------------------ R20.d what is committed
    rep.rule('R20.d', 'a committed offset is an offset the consumer has yielded: poll_next records message.offset of the yielded message as consumed and hands exactly that offset (with the partition it came from) to the committer; the background committer and the empty-poll shortcut commit the consumed offset; requests carry the consumer\'s own identity', floor=10, analysis='A9 call-argument forms')
    forms.check_call_args(ctx, rep, 'R20.d', {
        POLL_NEXT: {
            'send_store_offset': ['self, Atomic::load(self.current_partition_id, ORDERING), VecDeque::pop_front(self.buffered_messages).offset',
                                  'self, FutureExt::poll_unpin(self.poll_future, cx).partition_id, Vec::remove(FutureExt::poll_unpin(self.poll_future, cx).messages, 0).offset'],
            'PollingStrategy::offset': ['(1 + VecDeque::pop_front(self.buffered_messages).offset)', '(1 + Vec::remove(FutureExt::poll_unpin(self.poll_future, cx).messages, 0).offset)'],
            'ReceivedMessage::new': ['re:^VecDeque::pop_front\\(self\\.buffered_messages\\), phi\\{0 \\| Atomic::load\\(.*\\)\\}, Atomic::load\\(self\\.current_partition_id, ORDERING\\)$',
                                     'Vec::remove(FutureExt::poll_unpin(self.poll_future, cx).messages, 0), FutureExt::poll_unpin(self.poll_future, cx).current_offset, FutureExt::poll_unpin(self.poll_future, cx).partition_id'],
        },
        CO + '::store_consumer_offset': {'store_consumer_offset': ['::read(client), consumer, stream_id, topic_id, partition_id, offset']},
        CO + '::store_offsets_in_background': {'store_consumer_offset': ['re:^client, consumer, stream_id, topic_id, RefMulti::key\\(.*\\), Atomic::load\\(.*, ORDERING\\), last_stored_offsets, 0$']},
        CO + '::create_poll_messages_future': {
            'poll_messages': ['::read(client), stream_id, topic_id, partition_id, consumer, polling_strategy, count, auto_commit_after_polling'],
            'store_consumer_offset': ['re:^::read\\(client\\), consumer, stream_id, topic_id, MessageClient::poll_messages\\(.*\\)\\.partition_id, phi\\{0 \\| Atomic::load\\(DashMap::get\\(last_consumed_offset, MessageClient::poll_messages\\(.*\\)\\.partition_id\\), ORDERING\\)\\}$'],
        },
        CO + '::init': {'store_consumer_offset': ['client, consumer, stream_id, topic_id, Receiver::recv_async(store_offset_receiver).0, Receiver::recv_async(store_offset_receiver).1, last_stored_offsets, 0']},
        CO + '::store_offset': {'store_consumer_offset': ['self.client, self.consumer, self.stream_id, self.topic_id, phi{Atomic::load(self.current_partition_id, ORDERING) | partition_id}, offset, self.last_stored_offsets, self.allow_replay']},
        CO + '::delete_offset': {'delete_consumer_offset': ['::read(self.client), self.consumer, self.stream_id, self.topic_id, partition_id']},
        EXT: {'send_store_offset': ['re:^self, \\(future::poll_fn\\(closure\\) as _1\\)\\.0\\.partition_id, \\(future::poll_fn\\(closure\\) as _1\\)\\.0\\.message\\.offset$']},
    }, skip_self=False, cd=2)
    # the consume_messages extension commits after the handler ran: the commit call is reachable only after MessageConsumer::consume returned
    eb = ctx.fn_body(EXT)
    cons = [c for c in eb.calls if c.name.split('::')[-1] == 'consume' and is_user_call(c)]
    sends = [c for c in eb.calls if c.name == CO + '::send_store_offset']
    if not cons or not sends:
        rep.anchor_lost('R20.d', 'MessageConsumer::consume / send_store_offset in consume_messages')
    else:
        ok = all(eb.dominates(cons[0].bb, x.bb) for x in sends)
        rep.ob('R20.d', EXT, 'commit after the message was handled', ok, sends[0].where(), 'every send_store_offset is dominated by MessageConsumer::consume' if ok else 'an offset is committed before the handler consumed the message (the After modes commit on completion)')
    check_comparisons(ctx, rep, 'R20.d', {EXT: ['re:^\\(\\(future::poll_fn\\(closure\\) as _1\\)\\.0\\.current_offset == \\(future::poll_fn\\(closure\\) as _1\\)\\.0\\.message\\.offset\\)$']})
    # consumed offset := offset of the yielded message (both yield sites), keyed by the partition of that message
    pb = ctx.fn_body(POLL_NEXT)
    stores = []
    for c in pb.calls:
        if is_user_call(c) and c.name.endswith('Atomic::store') and len(c.args) >= 2:
            recv = canon(pb.pexpr_operand(c.args[0], 0, frozenset(), (c.bb, "t")), 0, 3)
            if 'last_consumed_offsets' in recv:
                stores.append((c, recv, canon(pb.pexpr_operand(c.args[1], 0, frozenset(), (c.bb, "t")), 0, 3)))
    rep.ob('R20.d', POLL_NEXT, 'consumed offset recorded at both yield sites', len(stores) == 2, stores[0][0].where() if stores else None, '%d stores into last_consumed_offsets' % len(stores))
    for c, recv, val in stores:
        ok = val.endswith('.offset') and ('pop_front' in val or 'Vec::remove' in val)
        rep.ob('R20.d', POLL_NEXT, 'consumed := offset of the yielded message', ok, c.where(), val if ok else 'last_consumed_offsets receives `%s`' % val)
    # after a successful commit the stored offset is the committed one
    sb = ctx.fn_body(CO + '::store_consumer_offset')
    cs = [c for c in sb.calls if c.name.split('::')[-1] == 'store_consumer_offset' and c.name != CO + '::store_consumer_offset']
    st = [c for c in sb.calls if is_user_call(c) and c.name.endswith('Atomic::store') and canon(sb.pexpr_operand(c.args[1], 0, frozenset(), (c.bb, "t")), 0, 1) == 'offset']
    if not cs or not st:
        rep.anchor_lost('R20.d', 'client.store_consumer_offset / last_stored.store(offset) in IggyConsumer::store_consumer_offset')
    else:
        ok = all(success_dominates(sb, cs[0], x.bb) for x in st)
        rep.ob('R20.d', CO + '::store_consumer_offset', 'last stored := committed offset, only after the commit succeeded', ok, st[0].where(), None if ok else 'last_stored_offsets is advanced without a successful commit')

    # ------------------------------------------------------------ R20.e the commit mode a consumer runs in is the one it was built with
    rep.rule('R20.e', 'the commit-mode flags follow the AutoCommit value: poll-commit ⇔ PollingMessages, commit-per-message ⇔ ConsumingEachMessage, commit-after-batch ⇔ ConsumingAllMessages, every n-th ⇔ ConsumingEveryNthMessage(n), for When(..) and IntervalOrWhen(_, ..) alike (and the After(..) variants in consume_messages)', floor=6, analysis='A5 variant ↔ flag')
    def flag_sources(fn, adt_self, flags):
        fb = ctx.fn_body(fn)
        out = {}
        def entering(blk):
            res = set()
            seenp = set()
            work = [(p_, blk) for p_ in fb.pred(blk) if p_ in fb.reach]
            while work:
                p_, tgt = work.pop()
                if (p_, tgt) in seenp:
                    continue
                seenp.add((p_, tgt))
                t_ = fb.term(p_)
                if t_.get('t') == 'switch':
                    vals, is_else = fb.edge_value(p_, tgt)
                    e_ = canon(fb.pexpr_operand(t_['op']), 0, 3)
                    for v_ in vals:
                        res.add((e_, v_))
                    if is_else and not vals:
                        res.add((e_, 'else'))
                elif t_.get('t') == 'goto' and not fb.stmts(p_):
                    work.extend((q_, p_) for q_ in fb.pred(p_) if q_ in fb.reach)
                else:
                    res.add(('?', p_))
            return res
        return fb, entering
    WHEN = {n_: i_ for i_, n_ in enumerate([v['name'] for v in ctx.facts.adts['iggy::clients::consumer::AutoCommitWhen']['variants']])}
    AFTER = {n_: i_ for i_, n_ in enumerate([v['name'] for v in ctx.facts.adts['iggy::clients::consumer::AutoCommitAfter']['variants']])}
    nb, entering = flag_sources(CO + '::new', CO, None)
    agg = None
    for blk in sorted(nb.reach):
        for st in nb.stmts(blk):
            rv = st.get('rv') or {}
            if rv.get('r') == 'agg' and rv.get('adt') == CO:
                agg = rv
    if agg is None:
        rep.anchor_lost('R20.e', 'IggyConsumer aggregate in IggyConsumer::new')
    else:
        want = {'auto_commit_after_polling': 'PollingMessages', 'store_offset_after_each_message': 'ConsumingEachMessage', 'store_offset_after_all_messages': 'ConsumingAllMessages'}
        for n_, o_ in zip(agg['names'], agg['ops']):
            if n_ not in want:
                continue
            l_ = (o_.get('m') or o_.get('c'))[0]
            srcs = set()
            for (db, di, whole) in nb.defs.get(l_, []):
                if di != 't' and whole and canon(nb._pexpr_rvalue(nb.stmts(db)[di]['rv'], 0, frozenset(), (db, di)), 0, 1) in ('1', 'true'):
                    srcs |= entering(db)
            k = WHEN[want[n_]]
            exp = {('discr((auto_commit as When).0)', k), ('discr((auto_commit as IntervalOrWhen).1)', k)}
            ok = srcs == exp
            rep.ob('R20.e', CO + '::new', '%s ⇔ %s' % (n_, want[n_]), ok, None, 'set on When(%s) | IntervalOrWhen(_, %s)' % (want[n_], want[n_]) if ok else
                   'flag `%s` is set on %s (expected the %s variant under When and IntervalOrWhen): the consumer commits in another mode than the one it was configured for' % (n_, sorted(srcs, key=str), want[n_]))
        for n_, o_ in zip(agg['names'], agg['ops']):
            if n_ == 'store_after_every_nth_message':
                f_ = canon(nb.pexpr_operand(o_), 0, 3)
                ok = 'as ConsumingEveryNthMessage).0' in f_ and '(auto_commit as When)' in f_ and '(auto_commit as IntervalOrWhen)' in f_
                rep.ob('R20.e', CO + '::new', 'every n-th ⇔ ConsumingEveryNthMessage(n)', ok, None, f_[:120])
    # the After(..) variants in consume_messages: the three locals are selected by the like-named AutoCommitAfter variants
    eb2, entering2 = flag_sources(EXT, None, None)
    want2 = {'store_offset_after_each_message': 'ConsumingEachMessage', 'store_offset_after_all_messages': 'ConsumingAllMessages'}
    found2 = 0
    for l_, name_ in eb2.varname.items():
        if name_ in want2:
            srcs = set()
            for (db, di, whole) in eb2.defs.get(l_, []):
                if di != 't' and whole and canon(eb2._pexpr_rvalue(eb2.stmts(db)[di]['rv'], 0, frozenset(), (db, di)), 0, 1) in ('1', 'true'):
                    srcs |= entering2(db)
            if not srcs:
                continue
            found2 += 1
            k = AFTER[want2[name_]]
            ok = {v_ for _, v_ in srcs} == {k} and all('After' in e_ for e_, _ in srcs) and len(srcs) == 2
            rep.ob('R20.e', EXT, '%s ⇔ After(%s)' % (name_, want2[name_]), ok, None, None if ok else 'local `%s` is set on %s (expected the %s variant under After and IntervalOrAfter)' % (name_, sorted(srcs, key=str), want2[name_]))
    rep.ob('R20.e', EXT, 'After-mode flags found', found2 == 2, None, '%d flags' % found2)

    # ------------------------------------------------------------ R20.f per-partition bookkeeping is keyed by the partition the message came from
    rep.rule('R20.f', 'the per-partition bookkeeping of poll_next (last consumed offset: the replay filter; current offset) is keyed by the partition the yielded message came from: the current partition for a buffered message, the partition of the polled batch for the first message of a fresh batch (a stale key overwrites another partition\'s last consumed offset and the filter then drops its next message)', floor=7, analysis='A9 call-argument forms')
    FRESH = 'FutureExt::poll_unpin(self.poll_future, cx)'
    CUR = 'Atomic::load(self.current_partition_id, ORDERING)'
    forms.check_call_args(ctx, rep, 'R20.f', {POLL_NEXT: {
        'DashMap::get': ['self.last_consumed_offsets, ' + CUR, 'self.current_offsets, ' + CUR, 'self.current_offsets, %s.partition_id' % FRESH, 'self.last_consumed_offsets, %s.partition_id' % FRESH],
        'DashMap::insert': ['self.last_consumed_offsets, %s, Atomic::new(VecDeque::pop_front(self.buffered_messages).offset)' % CUR,
                            'self.current_offsets, %s.partition_id, Atomic::new(%s.current_offset)' % (FRESH, FRESH),
                            're:^self\\.last_consumed_offsets, %s\\.partition_id, Atomic::new\\(Vec::remove\\(.*\\.messages, 0\\)\\.offset\\)$' % re.escape(FRESH)],
    }}, skip_self=False, cd=2)

    # ------------------------------------------------------------ R20.g both send paths split a call into chunks that cover it
    rep.rule('R20.g', 'the producer splits an oversized send call with chunks / chunks_mut (which yield the trailing partial chunk) on both paths, immediate and buffered: chunks_exact* drops the last count %% batch_size messages of a call that still returns Ok', floor=2, analysis='A6 sibling operations')
    for pfn in ('iggy::clients::producer::IggyProducer::send_immediately', 'iggy::clients::producer::IggyProducer::send_buffered'):
        if not ctx.has(pfn):
            rep.anchor_lost('R20.g', pfn)
            continue
        ops_ = set()
        for d_ in ctx.facts.body_defs():
            if (d_ == pfn or d_.startswith(pfn + '::{closure')) and '__CALLSITE' not in d_:
                ops_ |= {c.name.split('::')[-1] for c in ctx.body(d_).calls if is_user_call(c) and 'chunks' in c.name.split('::')[-1]}
        ok_ = bool(ops_) and ops_ <= {'chunks', 'chunks_mut'}
        rep.ob('R20.g', pfn, 'chunking covers the whole call', ok_, None, ' '.join(sorted(ops_)) if ok_ else 'the call is split with %s: the trailing partial batch is never sent' % sorted(ops_))

