"""Frozen comparison / call-argument normal forms of the read path (A10).  Generated with tools/gen_cmp_table.py and
tools/gen_call_table.py from the pinned tree and confirmed by reading; comments say what each line means."""
P = 'server::streaming::partitions::partition::Partition'
S = 'server::streaming::segments::segment::Segment'
LR = 'server::streaming::segments::logs::log_reader::SegmentLogReader'
IR = 'server::streaming::segments::indexes::index_reader::SegmentIndexReader'
BA = 'server::streaming::batching::batch_accumulator::BatchAccumulator'
MB = 'server::streaming::batching::message_batch::RetainedMessageBatch'

CMP_PARTITION = {
    P + '::filter_segments_by_offsets': ['(segment.start_offset <= end_offset)', '(segment.start_offset <= start_offset)'],
    P + '::get_end_offset': ['([T]::last(self.segments).current_offset < ((count - 1) + offset))'],   # clamp to the last offset
    P + '::get_last_messages': ['((1 + self.current_offset) < count)'],            # count clamped to current_offset + 1
    P + '::get_messages_by_offset': ['(self.current_offset < start_offset)'],                                         # beyond the end -> empty
    P + '::get_next_messages': ['re:^\\(DashMap::get\\(phi\\{self\\.consumer_group_offsets \\| self\\.consumer_offsets\\}, .*\\)\\.offset == self\\.current_offset\\)$'],
    P + '::load_messages_from_cache': ['(end_offset < start_offset)'],
    P + '::try_get_messages_from_cache': ['(::index(self.cache, 0).offset <= start_offset)', '(self.current_offset < end_offset)', '(end_offset < start_offset)'],
    P + '::get_messages_by_timestamp': ['(0 == count)', '(::next(IntoIterator>::into_iter(…)).end_timestamp < IggyTimestamp::as_micros(timestamp))'],
}
CMP_SEGMENT = {
    S + '::get_messages_by_offset': [
        '(((count - 1) + phi{offset | self.start_offset}) < BatchAccumulator::batch_base_offset(self.unsaved_messages))',    # all on disk
        '(((count - 1) + phi{offset | self.start_offset}) <= BatchAccumulator::batch_max_offset(self.unsaved_messages))',   # buffer-only needs end <= last
        '(0 == count)',
        '(BatchAccumulator::batch_base_offset(self.unsaved_messages) <= phi{offset | self.start_offset})',                  # buffer-only needs offset >= first
        '(phi{offset | self.start_offset} < BatchAccumulator::batch_base_offset(self.unsaved_messages))',                   # mixed: disk part exists
        '(offset < self.start_offset)',                                                            # clamp to segment start
    ],
    S + '::load_messages_from_disk': ['(end_offset < start_offset)'],
    S + '::load_messages_from_segment_file': ['(msg.offset <= end_offset)', '(start_offset <= msg.offset)'],                # per-message filter by absolute offset
    S + '::load_messages_from_disk_by_timestamp': ['(count <= Vec::len(Vec::with_capacity(…)))', '(start_timestamp <= ::next(::into_iter(…)).timestamp)'],
    BA + '::get_messages_by_offset': ['(msg.offset < start_offset)', '(msg.offset <= end_offset)'],
    BA + '::get_messages_by_timestamp': ['(msg.timestamp < start_timestamp)'],
    MB + '::is_contained_or_overlapping_within_offset_range': ['(RetainedMessageBatch::get_last_offset(self) <= end_offset)', '(end_offset <= RetainedMessageBatch::get_last_offset(self))',
                                                                '(self.base_offset <= end_offset)', '(self.base_offset <= start_offset)'],
}
CMP_INDEX = {
    IR + '::load_index_range_impl': [
        '((index_end_offset - segment_start_offset) <= index_reader::parse_index(::next(…)).offset)',      # first entry whose relative offset >= wanted end
        '((index_start_offset - segment_start_offset) <= index_reader::parse_index(::next(…)).offset)',    # first entry whose relative offset >= wanted start
        '(index_end_offset < index_start_offset)',
        '(0 == SegmentIndexReader::file_size(self))',
    ],
    IR + '::load_index_for_timestamp_impl': ['(timestamp <= index_reader::parse_index(::next(…)).timestamp)', '(0 == SegmentIndexReader::file_size(self))'],   # empty file = default index, otherwise scan
    IR + '::load_all_indexes_impl': ['((SegmentIndexReader::file_size(self) / 16) != Vec::len(Iterator::collect(…)))', '(0 == SegmentIndexReader::file_size(self))'],
}
_STOP = 're:^\\(index_range\\.end\\.position <= phi\\{.* \\| index_range\\.start\\.position\\}\\)$'     # stop at the batch the end index points to (positions, not offsets)
_EOF1 = 're:^\\(SegmentLogReader::file_size\\(self\\) <= \\(SegmentLogReader::read_next_batch\\(.*\\)\\.1 \\+ phi\\{.*\\}\\)\\)$'    # this batch reaches the end of the file
_EOF2 = 're:^\\(phi\\{.*\\} < SegmentLogReader::file_size\\(self\\)\\)$'
CMP_LOG = {
    LR + '::load_batches_by_range_impl': [_STOP, _EOF1, _EOF2, '(0 == SegmentLogReader::file_size(self))'],          # stop at the batch containing the range end
    LR + '::load_batches_by_range_with_callback': [_STOP, _EOF1, _EOF2, '(0 == SegmentLogReader::file_size(self))'],
    LR + '::load_message_ids_impl': [_EOF2, '(0 == SegmentLogReader::file_size(self))'],
    LR + '::read_next_batch': [
        '(file_size < (24 + offset))',                                                    # header must fit
        '(file_size < ((24 + offset) + u32::from_le_bytes(::index(…))))',                 # payload must fit
        '(Vec::len(SegmentLogReader::read_at(…)) < 24)',                                  # short header read
    ],
}

CALLS = {
    P + '::get_first_messages': {'Partition::get_messages_by_offset': ['0, count']},
    P + '::get_last_messages': {'Partition::get_messages_by_offset': ['((1 + self.current_offset) - phi{(1 + self.current_offset) | count}), phi{(1 + self.current_offset) | count}']},
    P + '::get_next_messages': {'Partition::get_messages_by_offset': ['re:^\\(1 \\+ DashMap::get\\(phi\\{self\\.consumer_group_offsets \\| self\\.consumer_offsets\\}, .*\\)\\.offset\\), count$'],
                                'Partition::get_first_messages': ['count']},
    P + '::get_messages_by_offset': {'Segment::get_messages_by_offset': ['start_offset, count'], 'Partition::get_messages_from_segments': ['start_offset, count'],
                                     'Partition::try_get_messages_from_cache': ['start_offset, Partition::get_end_offset(self, start_offset, count)'],
                                     'Partition::filter_segments_by_offsets': ['start_offset, Partition::get_end_offset(self, start_offset, count)'],
                                     'Partition::get_end_offset': ['start_offset, count']},
    P + '::get_messages_from_segments': {'Segment::get_messages_by_offset': ['offset, phi{count | u32::saturating_sub($u32, Vec::len(…))}']},
    S + '::get_messages_by_offset': {
        'Segment::load_messages_from_disk': ['phi{offset | self.start_offset}, ((count - 1) + phi{offset | self.start_offset})',
                                             'phi{offset | self.start_offset}, (BatchAccumulator::batch_base_offset(self.unsaved_messages) - 1)'],   # disk part ends right before the buffer
        'Segment::load_messages_from_unsaved_buffer': ['phi{offset | self.start_offset}, ((count - 1) + phi{offset | self.start_offset})',
                                                       'cmp::max(phi{offset | self.start_offset}, BatchAccumulator::batch_base_offset(…)), ((count - 1) + phi{offset | self.start_offset})']},
    S + '::load_messages_from_disk': {
        'Segment::load_highest_lower_bound_index': ['self.indexes, (start_offset - self.start_offset), (end_offset - self.start_offset)'],        # relative offsets for the cached index
        'SegmentIndexReader::load_index_range_impl': ['start_offset, end_offset, self.start_offset'],                                               # absolute + segment start for the file index
        'Segment::load_messages_from_segment_file': ['re:^Segment::load_highest_lower_bound_index\\(.*\\), start_offset, end_offset$',
                                                     're:^SegmentIndexReader::load_index_range_impl\\(.*\\), start_offset, end_offset$']},
    S + '::load_messages_from_unsaved_buffer': {'BatchAccumulator::get_messages_by_offset': ['start_offset, end_offset']},
    P + '::try_get_messages_from_cache': {'Partition::load_messages_from_cache': ['start_offset, end_offset']},
}
