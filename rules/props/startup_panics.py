"""A7 allowlist for the start-up path (C04 R04.f, C11 R11.f): may-panic sites that no recognised guard idiom covers,
each with the reason why a crash image / torn file cannot trigger it.  Keys are (function, site key) — no line numbers."""
LOAD = '<server::streaming::partitions::storage::FilePartitionStorage as server::streaming::storage::PartitionStorage>::load'
SLOAD = '<server::streaming::streams::storage::FileStreamStorage as server::streaming::storage::StreamStorage>::load'
TLOAD = '<server::streaming::topics::storage::FileTopicStorage as server::streaming::storage::TopicStorage>::load'
NAME = 'directory entries are created by the server itself with ASCII numeric names; a crash cannot alter a name'
FS = 'metadata/exists/remove of an entry that was just listed: fails only on a concurrent external deletion or I/O error, not on a crash image'
CIC = 'server::streaming::topics::topic::Topic::cache_integrity_check'
_NE = 'after the `cache.is_empty()` early return: len >= 1'
_LOOP = 'loop variable of `for i in 1..cache.len()`: 1 <= i < len'
PANICS = {
    CIC: {   # runs at start-up when the cache is enabled (cache warm-up), on messages just read from disk
        'assert_bounds (0 < len(cache))': _NE,
        'assert_overflow:Sub ([T]::len(cache) - 1)': _NE,
        'assert_bounds (([T]::len(cache) - 1) < len(cache))': _NE,
        'assert_bounds (::next(::into_iter(…)) < len(cache))': _LOOP,
        'assert_overflow:Sub (::next(::into_iter(…)) - 1)': _LOOP,
        'assert_bounds ((::next(::into_iter(…)) - 1) < len(cache))': _LOOP,
        'assert_overflow:Sub (cache[([T]::len(cache) - 1)].offset - cache[0].offset)': 'the loop just above returned false unless every offset is its predecessor + 1, so last >= first',
    },
    LOAD: {
        'unwrap DirEntry::metadata(Result::unwrap_or(…))': FS,
        'unwrap OsString::into_string(DirEntry::file_name(…))': NAME,
        'unwrap str::parse(str::replace(…))': NAME + ' (a *.log file is always named <start offset>.log)',
        'unwrap fs::try_exists($Segment.index_path)': FS,
        'unwrap fs::try_exists(str::replace(…))': FS,
        'unwrap fs::remove_file(str::replace(…))': FS + ' (guarded by the exists test two lines above)',
        'assert_overflow:Sub (Vec::len(partition.segments) - 1)': 'loop body runs only when segments is non-empty (iteration over segments)',
        'index Iterator::collect(Iterator::map(…)) [::next(::into_iter(…)).0]': 'index < segments_count - 1 by the break just above; end_offsets has segments_count - 1 elements',
        'panic!(…)': 'index rebuild fails only on an I/O error: a torn header ends the scan with UnexpectedEof, which is handled',
        'assert_overflow:Sub (segment.start_offset - 1)': 'applies to segments after the first in start-offset order; two log files cannot share start offset 0',
    },
    'server::streaming::segments::segment::Segment::load_from_disk': {
        'unwrap self.index_reader': 'initialised by initialize_reading() a few lines above on the is_none() path',
        'unwrap self.indexes': 'assigned Some(..) unconditionally a few lines above',
        'unwrap self.log_reader': 'initialised by initialize_reading() a few lines above on the is_none() path (same test as index_reader)',
        'assert_overflow:Sub (phi{Atomic::load(self.log_size_bytes, Ordering::Acquire{}) | Option::filter(phi{0 | Option::None{} | SegmentLogReader::batch_end_position(…)}, closure)} - Opti':
            'log_size_bytes - indexed_log_size inside `if let Some(size) = indexed.filter(|size| *size < log_size_bytes)`: the filter closure established size < log_size_bytes',
    },
    '<server::state::file::FileState as server::state::State>::init': {
        'assert_overflow:Sub (Vec::len(::load_entries(…)) - 1)': 'under entries_count != 0',
        'index ::load_entries(self) [(Vec::len(::load_entries(…)) - 1)]': 'under entries_count != 0',
    },
    'server::streaming::segments::logs::log_reader::SegmentLogReader::read_next_batch': {
        'index SegmentLogReader::read_at(self, (24 + offset), u32::from_le_bytes(…)) [RangeFull::RangeFull{}]': 'full range never panics',
    },
    'server::streaming::segments::indexes::index_reader::SegmentIndexReader::load_all_indexes_impl': {
        'assert_div0 (0 == 16)': 'division by the constant INDEX_SIZE',
    },
    'server::streaming::segments::indexes::index_reader::parse_index': {
        'index chunk [Range::Range{start: 0, end: 4}]': 'callers pass chunks_exact(INDEX_SIZE) chunks of 16 bytes',
        'index chunk [Range::Range{start: 4, end: 8}]': 'callers pass chunks_exact(INDEX_SIZE) chunks of 16 bytes',
        'index chunk [Range::Range{start: 8, end: 16}]': 'callers pass chunks_exact(INDEX_SIZE) chunks of 16 bytes',
    },
    'server::compat::index_rebuilding::index_rebuilder::IndexRebuilder::write_index_entry': {
        'assert_overflow:Sub ((header.base_offset + header.last_offset_delta) - start_offset)': 'batches of a segment have base_offset >= the segment start offset (written by append)',
    },
    'server::streaming::systems::system::System::init': {
        'expect ArchiverKind::init(self.archiver)': 'configuration error (archiver), not data dependent',
    },
    'server::streaming::systems::system::System::load_streams': {
        'unwrap OsString::into_string(DirEntry::file_name(…))': NAME,
        'unwrap ::find([T]::iter(…), closure)': 'looked-up id was taken from the same collection two lines above',
        'unwrap AHashMap::remove(streams_states, stream.stream_id)': 'stream ids come from the keys of the same map',
    },
    'server::streaming::systems::system::System::load_version': {
        'unwrap Result::err(SystemInfoStorageKind::load(…))': 'inside the is_err() branch',
    },
    SLOAD: {
        'unwrap OsString::into_string(DirEntry::file_name(…))': NAME,
        'unwrap AHashMap::get(state.topics, ::next(…))': 'ids iterated are those found in state a few lines above',
        'unwrap AHashMap::remove(state.topics, ::next(…).topic_id)': 'topic ids come from the keys of the same map',
        'vec_drain Mutex::lock(Mutex::new(…))': 'drain(..) over the full range never panics',
    },
    TLOAD: {
        'unwrap OsString::into_string(DirEntry::file_name(…))': NAME,
        'unwrap AHashMap::get(state.partitions, ::next(…))': 'ids iterated are those found in state a few lines above',
        'unwrap AHashMap::remove(state.partitions, ::next(…).partition_id)': 'partition ids come from the keys of the same map',
        'vec_drain Mutex::lock(Mutex::new(…))': 'drain(..) over the full range never panics',
    },
}
STARTUP_FNS = [LOAD, 'server::streaming::segments::segment::Segment::load_from_disk',
               '<server::state::file::FileState as server::state::State>::init', '<server::state::file::FileState as server::state::State>::load_entries',
               'server::streaming::segments::logs::log_reader::SegmentLogReader::new', 'server::streaming::segments::logs::log_reader::SegmentLogReader::read_next_batch',
               'server::streaming::segments::logs::log_reader::SegmentLogReader::load_message_ids_impl', 'server::streaming::segments::logs::log_reader::SegmentLogReader::load_batches_by_range_impl',
               'server::streaming::segments::indexes::index_reader::SegmentIndexReader::new', 'server::streaming::segments::indexes::index_reader::SegmentIndexReader::load_all_indexes_impl',
               'server::streaming::segments::indexes::index_reader::parse_index',
               'server::compat::index_rebuilding::index_rebuilder::IndexRebuilder::rebuild', 'server::compat::index_rebuilding::index_rebuilder::IndexRebuilder::write_index_entry',
               'server::compat::index_rebuilding::index_rebuilder::IndexRebuilder::read_batch_header',
               'server::streaming::systems::system::System::init', 'server::streaming::systems::system::System::load_streams', 'server::streaming::systems::system::System::load_version',
               'server::streaming::systems::system::System::load_users', SLOAD, TLOAD, CIC,
               'server::streaming::topics::topic::Topic::load_messages_from_disk_to_cache']
