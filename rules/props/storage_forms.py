"""Frozen provenance tables (A9/A10 normal forms) for the offset / position state of partitions and segments.
Forms are canonical (mir.canon): locals are shown by type only, casts/refs/?/await are transparent, commutative
operands are sorted.  Confirmed by reading the pinned tree; each line says what the assignment means."""
import forms

PART = 'server::streaming::partitions::partition::Partition'
SEG = 'server::streaming::segments::segment::Segment'
LOAD = '<server::streaming::partitions::storage::FilePartitionStorage as server::streaming::storage::PartitionStorage>::load'
APPEND = PART + '::append_messages'
PURGE = PART + '::purge'

PARTITION_TABLE = {
    'current_offset': {
        # last_offset = base_offset + (messages_count - 1); base = current_offset + 1 | 0
        APPEND: ['((phi{($u32 + 1) | 0} - 1) + phi{(1 + self.current_offset) | 0})'],
        PURGE: ['0'],
        LOAD: ['[T]::last(partition.segments).current_offset',          # recovered from the last segment
               '([T]::last(partition.segments).start_offset - 1)'],   # empty last segment that does not start at 0 (everything before it was deleted)
    },
    'should_increment_offset': {
        APPEND: ['1'],
        PURGE: ['0'],
        LOAD: ['PartialOrd::gt($Segment.size_bytes, {closure#0})', '1'],   # "some segment holds bytes" | empty last segment with start offset > 0
    },
}
SEGMENT_TABLE = {
    'current_offset': {
        SEG + '::append_batch': ['BatchAccumulator::batch_max_offset(Option::get_or_insert_with(self.unsaved_messages, closure))'],
        SEG + '::load_from_disk': ['(phi{0 | [T]::last(self.indexes).offset} + self.start_offset)'],   # from the last index entry
    },
    'end_offset': {
        SEG + '::persist_messages': ['self.current_offset'],     # on close
        LOAD: ['re:^::index\\(Iterator::collect\\(Iterator::map\\(Iterator::skip\\(\\[T\\]::iter\\(partition\\.segments\\), 1\\), closure\\)\\), .*\\)$',
               '[T]::last(partition.segments).current_offset'],                           # next.start_offset - 1 ; closed last segment
    },
    'is_closed': {
        SEG + '::persist_messages': ['1'],
        SEG + '::load_from_disk': ['1'],
    },
    'last_index_position': {
        SEG + '::load_from_disk': ['phi{Atomic::load(self.log_size_bytes, Ordering::Acquire{}) | Option::filter(phi{0 | Option::None{} | SegmentLogReader::batch_end_position(self.log_reader, [T]::last(self.indexes).position)}, closure)}'],   # end of the log = file size, or the end of the last indexed batch when the file is longer (torn tail discarded, F22)
        SEG + '::persist_messages': ['(::get_size_bytes(BatchAccumulator::materialize_batch_and_update_state(Option::take(self.unsaved_messages))) + self.last_index_position)'],
    },
    'size_bytes': {
        SEG + '::load_from_disk': ['phi{Atomic::load(self.log_size_bytes, Ordering::Acquire{}) | Option::filter(phi{0 | Option::None{} | SegmentLogReader::batch_end_position(self.log_reader, [T]::last(self.indexes).position)}, closure)}'],
    },
    'unsaved_messages': {
        LOAD: ['BatchAccumulator::new($Segment.current_offset, partition.config.partition.messages_required_to_save)'],
        SEG + '::persist_messages': ['Option::take(self.unsaved_messages)', 'Option::None{}'],
    },
}


def check(ctx, rep, rid, part_fields=None, seg_fields=None):
    pt = {k: v for k, v in PARTITION_TABLE.items() if part_fields is None or k in part_fields}
    st = {k: v for k, v in SEGMENT_TABLE.items() if seg_fields is None or k in seg_fields}
    forms.check_table(ctx, rep, rid, PART, pt)
    forms.check_table(ctx, rep, rid, SEG, st)
