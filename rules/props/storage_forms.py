"""Frozen provenance tables (A9/A10 normal forms) for the offset / position state of partitions and segments.
Forms are canonical (mir.canon): locals are shown by type only, casts/refs/?/await are transparent, commutative
operands are sorted.  Confirmed by reading the pinned tree; each line says what the assignment means."""
import forms

PART = 'server::streaming::partitions::partition::Partition'
SEG = 'server::streaming::segments::segment::Segment'
LOAD = '<server::streaming::partitions::storage::FilePartitionStorage as server::streaming::storage::PartitionStorage>::load'
APPEND = PART + '::append_messages'
PURGE = PART + '::purge'

PARTITION_TABLE = {
    'current_offset': {
        # last_offset = base_offset + (messages_count - 1); base = current_offset + 1 | 0
        APPEND: ['((phi{($u32 + 1) | 0} - 1) + phi{(1 + self.current_offset) | 0})'],
        PURGE: ['0'],
        LOAD: ['[T]::last(partition.segments).current_offset',          # recovered from the last segment
               '([T]::last(partition.segments).start_offset - 1)'],   # empty last segment that does not start at 0 (everything before it was deleted)
    },
    'should_increment_offset': {
        APPEND: ['1'],
        PURGE: ['0'],
        LOAD: ['PartialOrd::gt($Segment.size_bytes, {closure#0})', '1'],   # "some segment holds bytes" | empty last segment with start offset > 0
    },
    'unsaved_messages_count': {
        # counts what append buffered since the last save: flush_unsaved_buffer returns at once when it is 0, the save threshold compares it
        APPEND: ['(phi{($u32 + 1) | 0} + self.unsaved_messages_count)', '0'],
        PART + '::flush_unsaved_buffer': ['0'],
        PURGE: ['0'],
    },
}
SEGMENT_TABLE = {
    'current_offset': {
        SEG + '::append_batch': ['BatchAccumulator::batch_max_offset(Option::get_or_insert_with(self.unsaved_messages, closure))'],
        SEG + '::load_from_disk': ['(phi{0 | [T]::last(self.indexes).offset} + self.start_offset)'],   # from the last index entry
    },
    'end_offset': {
        SEG + '::persist_messages': ['self.current_offset'],     # on close
        LOAD: ['re:^::index\\(Iterator::collect\\(Iterator::map\\(Iterator::skip\\(\\[T\\]::iter\\(partition\\.segments\\), 1\\), closure\\)\\), .*\\)$',
               '[T]::last(partition.segments).current_offset'],                           # next.start_offset - 1 ; closed last segment
    },
    'is_closed': {
        SEG + '::persist_messages': ['1'],
        SEG + '::load_from_disk': ['1'],
    },
    'last_index_position': {
        SEG + '::load_from_disk': ['phi{Atomic::load(self.log_size_bytes, Ordering::Acquire{}) | Option::filter(phi{0 | Option::None{} | SegmentLogReader::batch_end_position(self.log_reader, [T]::last(self.indexes).position)}, closure)}'],   # end of the log = file size, or the end of the last indexed batch when the file is longer (torn tail discarded, F22)
        SEG + '::persist_messages': ['(::get_size_bytes(BatchAccumulator::materialize_batch_and_update_state(Option::take(self.unsaved_messages))) + self.last_index_position)'],
    },
    'size_bytes': {
        SEG + '::load_from_disk': ['phi{Atomic::load(self.log_size_bytes, Ordering::Acquire{}) | Option::filter(phi{0 | Option::None{} | SegmentLogReader::batch_end_position(self.log_reader, [T]::last(self.indexes).position)}, closure)}'],
    },
    'unsaved_messages': {
        LOAD: ['BatchAccumulator::new($Segment.current_offset, partition.config.partition.messages_required_to_save)'],
        SEG + '::persist_messages': ['Option::take(self.unsaved_messages)', 'Option::None{}'],
    },
}


def check(ctx, rep, rid, part_fields=None, seg_fields=None):
    pt = {k: v for k, v in PARTITION_TABLE.items() if part_fields is None or k in part_fields}
    st = {k: v for k, v in SEGMENT_TABLE.items() if seg_fields is None or k in seg_fields}
    forms.check_table(ctx, rep, rid, PART, pt)
    forms.check_table(ctx, rep, rid, SEG, st)


# ---------------------------------------------------------------------------------------------------------------------
# constructors: the value every field of a fresh Segment / Partition / Topic / Stream starts with.  A loaded entity is
# a constructed one with some fields overwritten by the loader, so every field the loader does NOT restore keeps this
# value after a restart (e.g. Segment.end_timestamp, the paths, the shared counters).  Fields that are added later are
# not in the table and are not checked.
TOPIC = 'server::streaming::topics::topic::Topic'
STREAM = 'server::streaming::streams::stream::Stream'
CONSTRUCTORS = {
    SEG + '::create': {SEG: {
        'stream_id': 'stream_id', 'topic_id': 'topic_id', 'partition_id': 'partition_id',
        'start_offset': 'start_offset', 'current_offset': 'start_offset', 'end_offset': '0',
        'start_timestamp': 'IggyTimestamp::as_micros(IggyTimestamp::now())',
        # not restored by the loader: a loaded segment must not look older than any query (get_messages_by_timestamp skips segments whose end_timestamp is below the query)
        'end_timestamp': 'IggyTimestamp::as_micros(IggyTimestamp::now())',
        'index_path': 'Segment::get_index_path(SystemConfig::get_segment_path(config, stream_id, topic_id, partition_id, start_offset))',
        'log_path': 'Segment::get_log_path(SystemConfig::get_segment_path(config, stream_id, topic_id, partition_id, start_offset))',
        'size_bytes': '0', 'last_index_position': '0', 'is_closed': '0',
        'max_size_bytes': 'config.segment.size',
        'size_of_parent_stream': 'size_of_parent_stream', 'size_of_parent_topic': 'size_of_parent_topic', 'size_of_parent_partition': 'size_of_parent_partition',
        'messages_count_of_parent_stream': 'messages_count_of_parent_stream', 'messages_count_of_parent_topic': 'messages_count_of_parent_topic',
        'messages_count_of_parent_partition': 'messages_count_of_parent_partition',
        'message_expiry': 'phi{config.segment.message_expiry | message_expiry}',
        'unsaved_messages': 'Option::None{}',
        'indexes': 'phi{Option::None{} | Vec::new()}',
        'log_size_bytes': 'Atomic::new(0)', 'index_size_bytes': 'Atomic::new(0)',
    }},
    PART + '::create': {PART: {
        'stream_id': 'stream_id', 'topic_id': 'topic_id', 'partition_id': 'partition_id',
        'partition_path': 'SystemConfig::get_partition_path(config, stream_id, topic_id, partition_id)',
        'offsets_path': 'SystemConfig::get_offsets_path(config, stream_id, topic_id, partition_id)',
        'consumer_offsets_path': 'SystemConfig::get_consumer_offsets_path(config, stream_id, topic_id, partition_id)',
        'consumer_group_offsets_path': 'SystemConfig::get_consumer_group_offsets_path(config, stream_id, topic_id, partition_id)',
        'current_offset': '0', 'unsaved_messages_count': '0', 'should_increment_offset': '0',
        'created_at': 'created_at',
        'messages_count_of_parent_stream': 'messages_count_of_parent_stream', 'messages_count_of_parent_topic': 'messages_count_of_parent_topic',
        'messages_count': 'Atomic::new(0)',
        'size_of_parent_stream': 'size_of_parent_stream', 'size_of_parent_topic': 'size_of_parent_topic', 'size_bytes': 'Atomic::new(0)',
        'segments_count_of_parent_stream': 'segments_count_of_parent_stream',
        'message_expiry': 'message_expiry',
        'consumer_offsets': 'DashMap::new()', 'consumer_group_offsets': 'DashMap::new()', 'segments': 'Vec::new()',
        # deduplication: capacity and time-to-live of the id cache are the configured ones (None = unbounded / no expiry), whatever the topic's settings
        'message_deduplicator': 'phi{MessageDeduplicator::new(phi{Option::None{} | config.message_deduplication.max_entries}, phi{Option::None{} | config.message_deduplication.expiry}) | Option::None{}}',
    }},
    TOPIC + '::create': {TOPIC: {
        'stream_id': 'stream_id', 'topic_id': 'topic_id', 'name': '::to_string(name)',
        'path': 'SystemConfig::get_topic_path(config, stream_id, topic_id)',
        'partitions_path': 'SystemConfig::get_partitions_path(config, stream_id, topic_id)',
        'size_bytes': 'Atomic::new(0)', 'messages_count': 'Atomic::new(0)',
        'size_of_parent_stream': 'size_of_parent_stream', 'messages_count_of_parent_stream': 'messages_count_of_parent_stream',
        'segments_count_of_parent_stream': 'segments_count_of_parent_stream',
        'partitions': 'AHashMap::new()', 'consumer_groups': 'AHashMap::new()', 'consumer_groups_ids': 'AHashMap::new()',
        'current_consumer_group_id': 'Atomic::new(1)', 'current_partition_id': 'Atomic::new(1)',
        'message_expiry': 'Topic::get_message_expiry(message_expiry, config)',
        'compression_algorithm': 'compression_algorithm',
        'replication_factor': 'replication_factor',
    }},
    STREAM + '::create': {STREAM: {
        'stream_id': 'id', 'name': '::to_string(name)',
        'path': 'SystemConfig::get_stream_path(config, id)', 'topics_path': 'SystemConfig::get_topics_path(config, id)',
        'current_topic_id': 'Atomic::new(1)',
        'size_bytes': 'Atomic::new(0)', 'messages_count': 'Atomic::new(0)', 'segments_count': 'Atomic::new(0)',
        'topics': 'AHashMap::new()', 'topics_ids': 'AHashMap::new()',
    }},
}


def check_constructors(ctx, rep, rid, only=None):
    """only: {constructor suffix: set of fields} restricts the table (a property that owns a subset of the fields)"""
    tab = {}
    for fn, per in CONSTRUCTORS.items():
        for adt, fields in per.items():
            sel = {k: v for k, v in fields.items() if only is None or k in only.get(adt.split('::')[-1], ())}
            if sel:
                tab.setdefault(fn, {})[adt] = sel
    forms.check_aggregates(ctx, rep, rid, tab, skip_absent=True)


# ---------------------------------------------------------------------------------------------------------------------
# settings pass-through: a topic-level setting handed down a call chain (handler -> System -> Stream -> Topic ->
# Partition -> Segment, and the loaders) is, at every hop, the caller's own value of that setting: the parameter of
# that name, the field of that name of the entity at hand (self / topic / partition / state / command), or that value
# resolved by the setting's own resolver (Topic::get_message_expiry / get_max_topic_size).  The server-wide default
# (`….config.….<setting>`) may enter only inside the resolver.
SETTING_CONSTANTS = {   # (caller, setting) -> constant forms confirmed by reading
    ('server::streaming::topics::topic::Topic::empty', 'message_expiry'): 'IggyExpiry::NeverExpire{}',
    ('server::streaming::topics::topic::Topic::empty', 'max_topic_size'): 'MaxTopicSize::ServerDefault{}',
    ('server::streaming::topics::topic::Topic::empty', 'compression_algorithm'): '::default()',
    ('server::streaming::topics::topic::Topic::empty', 'replication_factor'): '1',
}


def settings_passthrough(ctx, rep, rid, settings):
    import re
    from mir import canon
    from lib import is_user_call
    n = 0
    for d in sorted(ctx.facts.body_defs()):
        if not (d.startswith('server::') or d.startswith('<server::')) or '__CALLSITE' in d:
            continue
        b = ctx.body(d)
        for c in b.calls:
            if not is_user_call(c):
                continue
            r = ctx.facts.fns.get(c.name)
            if not r or not r.get('pnames') or len(r['pnames']) != len(c.args):
                continue
            for i, p in enumerate(r['pnames']):
                if p not in settings:
                    continue
                caller = ctx.user_fn_of(d)
                form = canon(b.pexpr_operand(c.args[i], 0, frozenset(), (c.bb, 't')), 0, 2)
                own = r'(?:\w+\.)?%s' % p
                ok = bool(re.fullmatch(own, form)
                          or re.fullmatch(r'Topic::get_%s\(%s, [\w\.]*config\)' % (p, own), form)
                          or re.fullmatch(r'Option::unwrap_or\(%s, 1\)' % own, form) and p == 'replication_factor'
                          or SETTING_CONSTANTS.get((caller, p)) == form)
                n += 1
                rep.ob(rid, caller, '%s(%s = %s)' % (c.name.split('::')[-1], p, form), ok, c.where(), None if ok else
                       '`%s` handed to %s is `%s`: not the caller\'s own %s (parameter or field of that name of the entity at hand, possibly resolved by Topic::get_%s)' % (p, c.name, form, p, p))
    return n


# ---------------------------------------------------------------------------------------------------------------------
# lifecycle steps: the collaborators every storage lifecycle function calls (confirmed by reading).  "Must contain":
# further calls are fine, a confirmed one that disappears is a dropped step.  Calls are counted in the function, its
# closures and the helpers the look-through splices in.
_SEGS = 'server::streaming::segments::'
_PS = '<server::streaming::partitions::storage::FilePartitionStorage as server::streaming::storage::PartitionStorage>::'
_TS = '<server::streaming::topics::storage::FileTopicStorage as server::streaming::storage::TopicStorage>::'
_SS = '<server::streaming::streams::storage::FileStreamStorage as server::streaming::storage::StreamStorage>::'
_SYS = 'server::streaming::systems::system::System::'
LIFECYCLE = {
    SEG + '::load_from_disk': ['Segment::initialize_writing', 'Segment::initialize_reading', 'SegmentIndexReader::load_all_indexes_impl', 'SegmentLogReader::batch_end_position'],
    SEG + '::persist': ['Segment::initialize_writing', 'Segment::initialize_reading'],
    SEG + '::initialize_writing': ['SegmentIndexWriter::new', 'SegmentLogWriter::new'],
    SEG + '::initialize_reading': ['SegmentIndexReader::new', 'SegmentLogReader::new'],
    SEG + '::delete': ['Segment::shutdown_reading', 'Segment::shutdown_writing'],
    SEG + '::shutdown_writing': ['SegmentIndexWriter::fsync', 'SegmentLogWriter::fsync', 'SegmentLogWriter::shutdown_persister_task'],
    SEG + '::persist_messages': ['BatchAccumulator::materialize_batch_and_update_state', 'SegmentLogWriter::save_batches', 'SegmentIndexWriter::save_index',
                                 'Segment::store_offset_and_timestamp_index_for_batch', 'Segment::shutdown_writing'],
    SEG + '::append_batch': ['BatchAccumulator::append'],
    _PS + 'load': ['Partition::load_consumer_offsets', 'Segment::create', 'Segment::load_from_disk', 'Segment::load_message_ids', 'IndexRebuilder::rebuild'],
    _PS + 'save': ['Segment::persist'],
    _PS + 'delete': ['PartitionStorage>::delete_consumer_offsets'],
    _TS + 'load': ['Partition::create', 'Partition::load', 'Partition::persist', 'ConsumerGroup::new', 'Topic::load_messages_from_disk_to_cache'],
    _TS + 'save': ['Partition::persist'],
    _SS + 'load': ['Topic::empty', 'Topic::load', 'Topic::persist'],
    _SYS + 'init': ['StateKind::init', 'SystemState::init', 'System::load_streams', 'System::load_users', 'System::load_version'],
    _SYS + 'shutdown': ['System::persist_messages'],
    _SYS + 'load_streams': ['Stream::empty', 'Stream::load', 'Stream::create', 'Stream::persist'],
    PART + '::add_persisted_segment': ['Segment::create', 'Segment::persist'],
}


def lifecycle_steps(ctx, rep, rid, only=None):
    from lib import is_user_call
    for fn, want in LIFECYCLE.items():
        if only is not None and not any(fn.endswith(o) for o in only):
            continue
        if not ctx.has(fn):
            rep.anchor_lost(rid, fn)
            continue
        names = set()
        for d in ctx.facts.body_defs():
            if (d == fn or d.startswith(fn + '::{closure')) and '__CALLSITE' not in d:
                for c in ctx.body(d).calls:
                    if is_user_call(c):
                        names.add(c.name)
        for w in want:
            ok = any(n.endswith('::' + w) or n.endswith(w) for n in names)
            rep.ob(rid, fn, 'calls ' + w, ok, None, None if ok else
                   '%s no longer calls %s: a step of the storage lifecycle was dropped (the effect shows at the next restart, purge or close)' % (fn.split('::')[-1], w))


def segment_delete_files(ctx, rep, rid):
    """a deleted segment leaves neither file behind (purge re-creates segment 0 at the same paths and the index writer
    opens its file in append mode: a surviving index file puts the purged log's entries in front of the new ones)"""
    got = [f for _, f, _ in forms.call_arg_forms(ctx, SEG + '::delete', 'remove_file', skip_self=False, cd=1)]
    for want in ('self.log_path', 'self.index_path'):
        ok = got.count(want) == 1
        rep.ob(rid, SEG + '::delete', 'remove_file(%s)' % want, ok, None, None if ok else
               'Segment::delete removes %s: `%s` is removed %d times — a file of the deleted segment survives and is reused when a segment is created at the same path' % (got, want, got.count(want)))


def writers_before_readers(ctx, rep, rid):
    """the writers create a missing segment file (the readers open read-only): wherever both are initialised, the
    writers come first, otherwise a segment whose index file was not yet created when the server died can never be loaded"""
    from lib import is_user_call
    for fn in (SEG + '::load_from_disk', SEG + '::persist'):
        if not ctx.has(fn):
            rep.anchor_lost(rid, fn)
            continue
        b = ctx.fn_body(fn)
        w = [c for c in b.calls if c.name.endswith('Segment::initialize_writing') and is_user_call(c)]
        r = [c for c in b.calls if c.name.endswith('Segment::initialize_reading') and is_user_call(c)]
        ok = bool(w) and bool(r) and all(any(b.dominates(x.bb, y.bb) and x.bb != y.bb for x in w) for y in r)
        rep.ob(rid, fn, 'initialize_writing before initialize_reading', ok, r[0].where() if r else None, None if ok else
               'the readers are opened before the writers have created the files: after a crash between the creation of the log file and of the index file the segment cannot be loaded any more')


def config_flags_by_name(ctx, rep, rid, prefixes=('server::channels::commands::', 'server::streaming::')):
    """an argument that is read straight from the configuration (`….config.<section>.<flag>`) and handed to a boolean
    parameter goes to the parameter of its own name (`delete_oldest_segments` is not fed from `archive_expired`)"""
    import re
    from mir import canon
    from lib import is_user_call
    n = 0
    for d in sorted(ctx.facts.body_defs()):
        if not d.lstrip('<').startswith(prefixes) or '__CALLSITE' in d:
            continue
        b = ctx.body(d)
        for c in b.calls:
            if not is_user_call(c):
                continue
            r = ctx.facts.fns.get(c.name)
            if not r or not r.get('pnames') or len(r['pnames']) != len(c.args):
                continue
            for i, p in enumerate(r['pnames']):
                if r['params'][i] != 'bool' or not p:
                    continue
                form = canon(b.pexpr_operand(c.args[i], 0, frozenset(), (c.bb, 't')), 0, 1)
                m = re.search(r'(?:^|\.)config\.(?:\w+\.)*(\w+)$', form)
                if not m:
                    continue
                n += 1
                import argsel
                ok = argsel._same(m.group(1), p)      # same words: `enforce_fsync` for `fsync`
                rep.ob(rid, ctx.user_fn_of(d), '%s(%s = %s)' % (c.name.split('::')[-1], p, form), ok, c.where(), None if ok else
                       'the configuration flag `%s` is handed to the parameter `%s` of %s: the two settings are independent, the function now follows the wrong one' % (form, p, c.name))
    return n
