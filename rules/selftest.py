"""Thorough tier: mutation self-test of the checker on the *current* tree.

For the property being checked, every kept breaking change (seeded/<id>/patch.diff, and the reverse of every `fix:` commit
recorded for it in known_findings.json) is applied to a scratch copy of /repo's working tree; the facts of that copy are
extracted and the property's rules are run on it.  The rules must report a violation.  This does not decide the property
(the verdict of the run is the analysis of /repo itself); it shows, on every thorough run and for the tree as it is now,
that the rules have not gone blind to the changes they were built to catch.  A patch that no longer applies is skipped.
Nothing of iggy is executed."""
import json, os, shutil, subprocess, sys, tempfile, time

VERIF = os.path.dirname(os.path.dirname(os.path.abspath(__file__)))


def cases_for(prop):
    out = []
    sd = os.path.join(VERIF, 'seeded')
    for d in sorted(os.listdir(sd)) if os.path.isdir(sd) else []:
        try:
            m = json.load(open(os.path.join(sd, d, 'meta.json')))
        except Exception:
            continue
        if m.get('property') == prop:
            out.append((d, os.path.join(sd, d, 'patch.diff'), False))
    kf = os.path.join(VERIF, 'known_findings.json')
    if os.path.exists(kf):
        for f in json.load(open(kf)).get('fixed', []):
            if f.get('property') != prop:
                continue
            fwd = os.path.join(VERIF, 'mutants', 'revert-%s.diff.fwd' % f['finding'])
            rev = os.path.join(VERIF, 'mutants', 'revert-%s.diff' % f['finding'])
            if os.path.exists(fwd):
                out.append(('revert-' + f['finding'], fwd, False))
            elif os.path.exists(rev):
                out.append(('revert-' + f['finding'], rev, True))
    return out


def run(prop, repo):
    cases = cases_for(prop)
    res = {'cases': len(cases), 'detected': 0, 'missed': [], 'not_applicable': [], 'results': {}}
    if not cases:
        return res
    scratch = tempfile.mkdtemp(prefix='verif-selftest-%s-' % prop)
    ev = tempfile.mkdtemp(prefix='verif-selftest-ev-')
    try:
        for name, patch, reverse in cases:
            t0 = time.time()
            subprocess.run(['rsync', '-a', '--delete', '--exclude', '/target', '--exclude', '.git', repo.rstrip('/') + '/', scratch + '/'], check=True)
            a = subprocess.run(['git', 'apply'] + (['-R'] if reverse else []) + [patch], cwd=scratch, capture_output=True, text=True)
            if a.returncode != 0:
                res['not_applicable'].append(name)
                res['results'][name] = 'patch does not apply to the current tree'
                continue
            env = dict(os.environ, VERIF_REPO=scratch, VERIF_EVIDENCE=ev, VERIF_TIER='quick')
            c = subprocess.run([sys.executable, os.path.join(VERIF, 'check'), prop, '--tier', 'quick'], env=env, capture_output=True, text=True, cwd=VERIF)
            rules = sorted({l.split()[1] for l in c.stdout.splitlines() if l.startswith('  rule ')})
            if c.returncode == 1 and 'VIOLATION property=%s' % prop in c.stdout:
                res['detected'] += 1
                res['results'][name] = {'detected_by': rules, 'wall_s': round(time.time() - t0, 1)}
            else:
                res['missed'].append(name)
                res['results'][name] = {'detected_by': [], 'exit': c.returncode, 'wall_s': round(time.time() - t0, 1)}
    finally:
        shutil.rmtree(scratch, ignore_errors=True)
        shutil.rmtree(ev, ignore_errors=True)
    return res
