"""A17 — rustc's own value-flow lints as a rule.  The project builds warning-free (CI: clippy -D warnings), so on the
pinned tree rustc reports no unused_variables / unused_mut / unused_assignments / unused_must_use in the workspace.  A
change that drops a step usually leaves one behind: the parameter that is no longer stored, the `mut` vector that is no
longer filled, the buffer that is no longer read into, the Result that is no longer looked at.  The diagnostics are
taken from the same `cargo +nightly check` run that extracts the facts (facts.ensure_facts, --message-format=json) and
are scoped to the modules of the property (argsel.SCOPE).  Lints about form (unused_imports, dead_code, style) are not
used: they say nothing about behaviour."""
import json, os, re
import argsel

LINTS = ('unused_variables', 'unused_mut', 'unused_assignments', 'unused_must_use')
# files inside a property's modules that have nothing to do with it (confirmed by reading): system snapshot / process
# dumps, the version and migration bookkeeping of system.info, generic utilities
EXCLUDE = ('server/src/streaming/systems/snapshot', 'server/src/streaming/systems/info.rs', 'server/src/streaming/utils',
           'server/src/streaming/systems/storage.rs')


def _paths(prop):
    out = []
    for m in argsel.SCOPE[prop]:
        m = m.rstrip(':')
        if m.startswith('server'):
            out.append('server/src/' + '/'.join(m.split('::')[1:]))
        elif m.startswith('iggy'):
            out.append('sdk/src/' + '/'.join(m.split('::')[1:]))
    return [p.rstrip('/') for p in out]


def check(ctx, rep, prop):
    rid = 'R%s.unused' % prop[1:]
    rep.rule(rid, 'no computed value is dropped on the floor: rustc reports no unused variable / parameter, no `mut` binding that is never mutated, no assignment that is never read and no ignored #[must_use] result in the modules of the property (the pinned tree has none; a dropped store, fill, read or error check leaves one behind)', floor=1, analysis='A17 compiler diagnostics')
    p = os.path.join(ctx.facts_dir, 'diagnostics.json')
    if not os.path.exists(p):
        rep.anchor_lost(rid, 'diagnostics.json of the extraction run')
        return
    d = json.load(open(p))
    rep.ob(rid, '<extraction>', 'diagnostics channel alive', d['artifacts'] >= 3, None,
           '%d compiler artifacts and %d diagnostics received from cargo' % (d['artifacts'], len(d['diagnostics'])))
    paths = _paths(prop)
    for x in d['diagnostics']:
        if x.get('code') not in LINTS or not x.get('file'):
            continue
        f = x['file']
        if f.startswith(EXCLUDE) or (f.startswith('server/src/streaming/diagnostics') and prop != 'C16'):
            continue
        if not any(f == q + '.rs' or f.startswith(q + '/') or f.startswith(q) and q.endswith('src') for q in paths):
            continue
        rep.ob(rid, f, '%s: %s' % (x['code'], x['message'][:120]), False, '%s:%s' % (f, x['line']),
               'rustc (%s): %s — `%s`' % (x['code'], x['message'], x.get('text', '')[:120]))
