"""A11 — wire layouts as width sequences.  A writer's layout is the sequence of fixed widths (1,2,4,8,16) and
variable parts (v) it emits through BufMut::put_* / put_slice / extend; a reader's layout is the sequence of widths it
consumes through uN::from_le_bytes, Buf::get_*, single-byte indexing and from_utf8/to_vec/slice copies.  Both are taken
in source order from the MIR calls; items in mutually exclusive branches are alternatives (collapsed when equal);
helpers of the same codec family are expanded in place."""
import re
from mir import canon

PUT_W = {'put_u8': 1, 'put_u16_le': 2, 'put_u32_le': 4, 'put_u64_le': 8, 'put_u128_le': 16, 'put_f32_le': 4, 'put_f64_le': 8,
         'put_i8': 1, 'put_i16_le': 2, 'put_i32_le': 4, 'put_i64_le': 8, 'put_i128_le': 16, 'put_u16': 2, 'put_u32': 4, 'put_u64': 8}
GET_W = {'get_u8': 1, 'get_u16_le': 2, 'get_u32_le': 4, 'get_u64_le': 8, 'get_u128_le': 16, 'get_f32_le': 4, 'get_f64_le': 8, 'get_i8': 1}
READ_W = {'read_u8': 1, 'read_u16_le': 2, 'read_u32_le': 4, 'read_u64_le': 8, 'read_u128_le': 16, 'read_exact': 'v'}
WRITE_W = {'write_u8': 1, 'write_u16_le': 2, 'write_u32_le': 4, 'write_u64_le': 8, 'write_u128_le': 16}
INT_W = {'u8': 1, 'u16': 2, 'u32': 4, 'u64': 8, 'u128': 16, 'f32': 4, 'f64': 8, 'i8': 1, 'i16': 2, 'i32': 4, 'i64': 8, 'i128': 16, 'usize': 8}


def raw_items(ctx, fn, helpers):
    """[(line, bb, token, body)] in source order for fn and its closures"""
    out = []
    defs = [x for x in ctx.facts.body_defs() if x == fn or x.startswith(fn + '::{closure')]
    for dd in sorted(defs):
        b = ctx.body(dd)
        for c in b.calls:
            if c.x.startswith('m:'):
                continue
            decl = c.fn or ''
            last = decl.split('::')[-1]
            if last in PUT_W and 'BufMut' in decl:
                out.append((c.ln, c.bb, str(PUT_W[last]), b))
            elif last in ('put_slice', 'put', 'extend', 'extend_from_slice', 'put_bytes') and ('BufMut' in decl or 'BytesMut' in decl or 'Extend' in decl):
                out.append((c.ln, c.bb, 'v', b))
            elif last == 'from_le_bytes':
                ty = decl.split('::')[-2] if '::' in decl else ''
                out.append((c.ln, c.bb, str(INT_W.get(ty, '?')), b))
            elif last in GET_W and 'Buf' in decl:
                out.append((c.ln, c.bb, str(GET_W[last]), b))
            elif last in READ_W and ('AsyncReadExt' in decl or 'io::Read' in decl):
                out.append((c.ln, c.bb, str(READ_W[last]), b))
            elif last in WRITE_W and ('AsyncWriteExt' in decl or 'io::Write' in decl):
                out.append((c.ln, c.bb, str(WRITE_W[last]), b))
            elif last in ('from_utf8', 'from_utf8_lossy', 'to_vec', 'copy_from_slice', 'copy_to_bytes'):
                out.append((c.ln, c.bb, 'v', b))
            elif c.name in helpers and c.name != fn:
                out.append((c.ln, c.bb, '<' + c.name + '>', b))
        for bb in sorted(b.reach):
            t = b.term(bb)
            if t.get('x', '').startswith('m:'):
                continue
            if t.get('t') == 'assert' and t.get('kind') == 'bounds':
                out.append((t.get('ln'), bb, '1', b))
            if t.get('t') == 'call' and t.get('fn') == 'std::ops::Index::index' and t.get('dest') and b.locals[t['dest'][0]] == '&u8':
                out.append((t.get('ln'), bb, '1', b))
    out.sort(key=lambda x: (x[0] or 0, x[1]))
    return out


def sequence(ctx, fn, helpers, depth=0, seen=()):
    """flattened token list; alternatives in exclusive branches collapsed when equal, otherwise written a|b"""
    items = raw_items(ctx, fn, helpers)
    toks = []
    i = 0
    while i < len(items):
        ln, bb, tok, b = items[i]
        if tok.startswith('<') and depth < 4:
            h = tok[1:-1]
            if h in seen:
                sub = ['<rec>']
            else:
                sub = sequence(ctx, h, helpers, depth + 1, seen + (fn,))
            cur = ['(' + ' '.join(sub) + ')'] if _in_loop(b, bb) else sub
        else:
            cur = [tok]
        # alternatives: following items in blocks mutually unreachable from this one
        j = i + 1
        alts = [cur]
        while j < len(items) and items[j][3] is b and _exclusive(b, bb, items[j][1]) and all(_exclusive(b, items[k][1], items[j][1]) or k == j for k in range(i, j)):
            t2 = items[j][2]
            alts.append([t2] if not t2.startswith('<') else ['(' + ' '.join(sequence(ctx, t2[1:-1], helpers, depth + 1, seen + (fn,))) + ')'])
            j += 1
        if len(alts) > 1:
            uniq = []
            for a in alts:
                if a not in uniq:
                    uniq.append(a)
            group = uniq[0] if len(uniq) == 1 else ['|'.join(sorted(' '.join(a) for a in uniq))]
            # the group is optional unless its branches together cover every path
            if _skippable(b, [items[k][1] for k in range(i, j)]):
                group = [g + '?' for g in group]
            toks += group
            i = j
        else:
            if not tok.startswith('<') and _skippable(b, [bb]):
                cur = [c + '?' for c in cur]
            elif tok.startswith('<') and _skippable(b, [bb]) and not _in_loop(b, bb):
                cur = ['[' + ' '.join(cur) + ']?']
            toks += cur
            i += 1
    return toks


def _skippable(b, blocks):
    """a successful run (one loop iteration, for blocks inside a loop) can avoid all of `blocks`"""
    from lib import natural_loops, ok_exit_blocks
    blocks = set(blocks)
    key = ('skip', tuple(sorted(blocks)))
    cache = b.__dict__.setdefault('_wire_cache', {})
    if key in cache:
        return cache[key]
    loops = [(h, bl) for h, bl in natural_loops(b) if blocks <= bl]
    if loops:
        h, bl = min(loops, key=lambda x: len(x[1]))
        # one iteration: from the successors of the header (inside the loop) back to the header without the blocks
        res = False
        for s in b.succ(h):
            if s in bl and s not in blocks and h in b.reachable(s, avoid_blocks=blocks):
                res = True
    else:
        exits = ok_exit_blocks(b) or {x for x in b.reach if b.term(x).get('t') == 'return'}
        res = bool(exits & b.reachable(0, avoid_blocks=blocks)) and 0 not in blocks
    cache[key] = res
    return res


def _exclusive(b, x, y):
    if x == y:
        return False
    return y not in b.reachable(x) and x not in b.reachable(y)


def _in_loop(b, bb):
    return bb in b.reachable_after(bb)


def norm(seq):
    """normal form for comparison: loop parentheses dropped, runs of v collapsed"""
    s = ' '.join(seq).replace('(', ' ').replace(')', ' ').replace('[', ' ').replace(']?', ' ')
    toks = s.split()
    out = []
    for t in toks:
        if t == 'v' and out and out[-1] == 'v':
            continue
        out.append(t)
    return ' '.join(out)


def count_prefixes(ctx, fn):
    """[(iterated collection, count operand)] for every element-writing loop in writer fn: the nearest put_* that dominates
    the loop and whose operand is a length/count — the reader uses it to know how many elements follow"""
    from lib import natural_loops
    out = []
    defs = [x for x in ctx.facts.body_defs() if x == fn or x.startswith(fn + '::{closure')]
    for dd in sorted(defs):
        b = ctx.body(dd)
        puts = [c for c in b.calls if not c.x.startswith('m:') and (c.fn or '').split('::')[-1] in PUT_W and 'BufMut' in (c.fn or '')]
        for h, bl in natural_loops(b):
            inner = [c for c in b.calls if c.bb in bl and not c.x.startswith('m:') and ((c.fn or '').split('::')[-1] in PUT_W or (c.fn or '').split('::')[-1] in ('put_slice', 'extend', 'put'))]
            if not inner:
                continue
            nexts = [c for c in b.calls if c.bb in bl and (c.fn or '').endswith('Iterator::next')]
            if not nexts:
                continue
            coll = canon(b.pexpr_operand(nexts[0].args[0]), 0, 2)
            dom = [p for p in puts if p.bb not in bl and b.dominates(p.bb, h)]
            if not dom:
                out.append((coll, None))
                continue
            p = max(dom, key=lambda c: len(b.dominators(c.bb)))
            out.append((coll, canon(b.pexpr_operand(p.args[1], 0, frozenset(), (p.bb, "t")), 0, 2)))
    return sorted(out, key=str)


def addressed_layout(ctx, fn):
    """offset-addressed codecs: [(start, end, role)] — for writers `buf[a..b].copy_from_slice(&X.to_le_bytes())` gives role =
    terminal field/param name of X; for readers `uN::from_le_bytes(buf[a..b])` gives role = the constructor parameter /
    aggregate field / named local that receives the value"""
    from mir import walk
    out = []
    b = ctx.fn_body(fn)

    def rng(e):
        for x in walk(e):
            if x[0] == 'agg' and x[1].endswith('Range') and x[2] == 'Range':
                d = dict(x[3])
                if d.get('start', ('?',))[0] == 'const' and d.get('end', ('?',))[0] == 'const':
                    return int(d['start'][1]), int(d['end'][1])
        return None

    def terminal(e):
        from lib import strip_adaptors
        e = strip_adaptors(e)
        while e[0] == 'call' and e[2] and e[1].split('::')[-1] in ('to_le_bytes', 'as_bytes_u64', 'as_bytes_usize', 'into', 'from', 'as_micros'):
            e = strip_adaptors(e[2][0])
        if e[0] == 'field':
            return e[2]
        if e[0] in ('param', 'upvar'):
            return e[1]
        return canon(e, 0, 1)

    for c in b.calls:
        if c.x.startswith('m:'):
            continue
        last = (c.fn or '').split('::')[-1]
        if last == 'copy_from_slice' and len(c.args) == 2:
            r = rng(b.pexpr_operand(c.args[0], 0, frozenset(), (c.bb, "t")))
            if r:
                out.append((r[0], r[1], terminal(b.pexpr_operand(c.args[1], 0, frozenset(), (c.bb, "t")))))
        elif last == 'from_le_bytes' and c.args:
            r = rng(b.pexpr_operand(c.args[0], 0, frozenset(), (c.bb, "t")))
            if not r:
                continue
            role = None
            for d in b.calls:
                if d.bb == c.bb or d.x.startswith('m:'):
                    continue
                rec = ctx.fn_record(d.name)
                for i, a in enumerate(d.args):
                    e = b.pexpr_operand(a)
                    direct = e[0] == 'call' and e[3] == c.bb or (e[0] in ('try',) and e[1][0] == 'call' and e[1][3] == c.bb)
                    from lib import strip_adaptors
                    se = strip_adaptors(e)
                    if se[0] == 'call' and se[3] == c.bb and rec and rec.get('pnames') and i < len(rec['pnames']):
                        role = rec['pnames'][i]
            if role is None:
                for blk in sorted(b.reach):
                    for s in b.stmts(blk):
                        rv = s.get('rv')
                        if rv and rv['r'] == 'agg' and rv.get('kind') == 'adt':
                            e = b._pexpr_rvalue(rv, 0, frozenset())
                            from lib import strip_adaptors
                            for n, v in e[3]:
                                sv = strip_adaptors(v)
                                if sv[0] == 'call' and sv[3] == c.bb:
                                    role = n
            if role is None and c.dest:
                role = b.root_var(c.dest) or '?'
            out.append((r[0], r[1], role))
    return sorted(out)


# ---------------------------------------------------------------------------------------------------- named layouts
def _leaf_names(e):
    """names of the struct fields (else parameters) an expression is computed from; of a chain a.b.c only c"""
    fields, params = [], []

    def go(x, d=0):
        if not isinstance(x, tuple) or not x or d > 30:
            return
        if isinstance(x[0], str):
            k = x[0]
            if k == 'field' and not x[2].isdigit():
                fields.append(x[2])
                return
            if k in ('param', 'upvar'):
                if x[1] not in ('self', 'bytes', 'buf', 'buffer'):
                    params.append(x[1])
                return
            if k in ('const', 'constitem', 'fnitem', 'closure'):
                return
            for y in x[1:]:
                go(y, d + 1)
        else:
            for y in x:
                go(y, d + 1)
    go(e)
    return fields or params


def _control_field(b, bb):
    """`put(if x.f {1} else {0})`: the field tested by the branch that selects the constant"""
    d = b.idom.get(bb)
    steps = 0
    while d is not None and steps < 3:
        t = b.term(d)
        if t.get('t') == 'switch':
            return _leaf_names(b.pexpr_operand(t['op']))
        nd = b.idom.get(d)
        if nd == d:
            break
        d = nd
        steps += 1
    return []


def _is_put(c):
    decl = c.fn or ''
    last = decl.split('::')[-1]
    return (last in PUT_W and 'BufMut' in decl) or (last in ('put_slice', 'put', 'extend', 'extend_from_slice', 'put_bytes') and ('BufMut' in decl or 'BytesMut' in decl or 'Extend' in decl)) \
        or (last in WRITE_W and ('AsyncWriteExt' in decl or 'io::Write' in decl))


def _expandable(name):
    return name.startswith('server::binary::mapper::') or name.startswith('iggy::binary::mapper::') or name.endswith('::extend')


def named_writer(ctx, fn, helpers=(), depth=0):
    """[label] in source order: for every value written, the field(s) it is computed from; buffer-taking helpers are expanded in place"""
    out = []
    defs = [x for x in ctx.facts.body_defs() if x == fn or x.startswith(fn + '::{closure')]
    for dd in sorted(defs):
        b = ctx.body(dd)
        for c in b.calls:
            if c.x.startswith('m:'):
                continue
            if c.name in helpers and c.name != fn and _expandable(c.name) and depth < 3 and not _is_put(c):
                out.append((c.ln or 0, c.bb, named_writer(ctx, c.name, helpers, depth + 1)))
                continue
            if not _is_put(c) or len(c.args) < 2:
                continue
            e = b.pexpr_operand(c.args[1], 0, frozenset(), (c.bb, "t"))
            names = _leaf_names(e)
            if not names and any(x[0] == 'const' for x in ([e] if e[0] != 'phi' else e[1])):
                names = _control_field(b, c.bb)
            out.append((c.ln or 0, c.bb, ['+'.join(sorted(set(names))) or '_']))
    out.sort(key=lambda x: (x[0], x[1]))
    return [l for x in out for l in x[2]]


def _depth_of_call(e, bb, d=0):
    """depth at which the call made in block bb occurs inside expression e (None if it does not)"""
    if not isinstance(e, tuple) or not e or d > 25:
        return None
    if isinstance(e[0], str):
        if e[0] == 'call' and len(e) > 3 and e[3] == bb:
            return d
        if e[0] in ('const', 'constitem', 'param', 'upvar', 'local', 'fnitem'):
            return None
        kids = e[1:]
    else:
        kids = e
    best = None
    for x in kids:
        r = _depth_of_call(x, bb, d + 1)
        if r is not None and (best is None or r < best):
            best = r
    return best


def named_reader(ctx, fn, helpers=(), depth=0):
    """[label] in source order: for every value read, the aggregate field / callee parameter it ends up in"""
    out = []
    defs = [x for x in ctx.facts.body_defs() if x == fn or x.startswith(fn + '::{closure')]
    for dd in sorted(defs):
        b = ctx.body(dd)
        reads = []
        for c in b.calls:
            if c.x.startswith('m:'):
                continue
            decl = c.fn or ''
            last = decl.split('::')[-1]
            if c.name in helpers and c.name != fn and _expandable(c.name) and depth < 3:
                out.append((c.ln or 0, c.bb, named_reader(ctx, c.name, helpers, depth + 1)))
            elif last == 'from_le_bytes' or (last in GET_W and 'Buf' in decl) or (last in READ_W and ('AsyncReadExt' in decl or 'io::Read' in decl)) \
                    or last in ('from_utf8', 'from_utf8_lossy', 'copy_to_bytes') or (c.name in helpers and c.name != fn):
                reads.append(c)
        # single bytes taken by index (`bytes[pos]`): no call to anchor on, the read is the statement that copies the element
        idx_reads = []
        for blk in sorted(b.reach):
            for st in b.stmts(blk):
                rv = st.get('rv')
                if not rv or st.get('x', '').startswith('m:') or rv['r'] not in ('use', 'cast'):
                    continue
                a = rv.get('a') or {}
                pl = a.get('c') or a.get('m')
                if not pl or not any(isinstance(pr, list) and pr and pr[0] in ('[]', '[c]') for pr in pl[1:]):
                    continue
                lhs = st.get('lhs')
                if not lhs or len(lhs) != 1 or b.locals[lhs[0]] not in ('u8',):
                    continue
                e = b._pexpr_rvalue(rv, 0, frozenset())
                if e[0] == 'index':
                    idx_reads.append((st.get('ln') or 0, blk, e))
        if not reads and not idx_reads:
            continue
        sinks = []   # (expr, label)  aggregate fields
        csinks = []  # (expr, label)  callee parameters
        for blk in sorted(b.reach):
            for s in b.stmts(blk):
                rv = s.get('rv')
                if rv and rv['r'] == 'agg' and rv.get('kind') == 'adt' and not s.get('x', '').startswith('m:') and rv['adt'] not in ('std::option::Option', 'std::result::Result'):
                    e = b._pexpr_rvalue(rv, 0, frozenset())
                    for n, v in e[3]:
                        if not n.isdigit():
                            sinks.append((v, n))
        for d in b.calls:
            if d.x.startswith('m:'):
                continue
            rec = ctx.fn_record(d.name)
            if rec and rec.get('pnames') and (d.name.startswith('iggy::') or d.name.startswith('server::') or d.name.startswith('<iggy::') or d.name.startswith('<server::')):
                for i, a in enumerate(d.args):
                    if i < len(rec['pnames']) and rec['pnames'][i] not in ('bytes', 'start', 'end', 'len', 'data', 'src', 'buf', 'self', 'value', 'v', 'k', 'payload', 'position'):
                        csinks.append((b.pexpr_operand(a), rec['pnames'][i]))
        for c in reads:
            labels = set()
            for group in (sinks, csinks):
                best = None
                for e, n in group:
                    dd_ = _depth_of_call(e, c.bb)
                    if dd_ is None:
                        continue
                    if best is None or dd_ < best:
                        best, labels = dd_, {n}
                    elif dd_ == best:
                        labels.add(n)
                if labels:
                    break
            out.append((c.ln or 0, c.bb, ['+'.join(sorted(labels)) or '_']))
        for ln, blk, e in idx_reads:
            labels = set()
            for group in (sinks, csinks):
                best = None
                for se, n in group:
                    dd_ = _depth_of_node(se, e)
                    if dd_ is None:
                        continue
                    if best is None or dd_ < best:
                        best, labels = dd_, {n}
                    elif dd_ == best:
                        labels.add(n)
                if labels:
                    break
            out.append((ln, blk, ['+'.join(sorted(labels)) or '_']))
    out.sort(key=lambda x: (x[0], x[1]))
    return [l for x in out for l in x[2]]


def _depth_of_node(e, node, d=0):
    if not isinstance(e, tuple) or not e or d > 25:
        return None
    if e == node:
        return d
    if isinstance(e[0], str):
        if e[0] in ('const', 'constitem', 'param', 'upvar', 'local', 'fnitem'):
            return None
        kids = e[1:]
    else:
        kids = e
    best = None
    for x in kids:
        r = _depth_of_node(x, node, d + 1)
        if r is not None and (best is None or r < best):
            best = r
    return best


def named_agreement(w, r):
    """compare two label sequences on the labels they share; returns (ok, w', r')"""
    common = (set(w) & set(r)) - {'_'}
    def f(seq):
        o = []
        for x in seq:
            if x in common and (not o or o[-1] != x):
                o.append(x)
        return o
    a, b = f(w), f(r)
    return a == b, a, b


# ---------------------------------------------------------------------------------------------------- cursor discipline
def cursor_double_reads(ctx, fn):
    """cursor-based readers (`position += n` between reads): [(line1, line2, start form)] for two reads of the buffer at the
    SAME cursor expression with no assignment to the cursor on some path between them — the second read sees the bytes
    of the first (an advance was dropped or moved into a branch).  Also returns the number of read events examined."""
    out, nreads = [], 0
    defs_ = [d for d in ctx.facts.body_defs() if d == fn or d.startswith(fn + '::{closure')]
    for dd in sorted(defs_):
        b = ctx.body(dd)
        # cursor locals: named usize locals with a self-increment `L = L + x`
        cursors = set()
        for blk in sorted(b.reach):
            for st in b.stmts(blk):
                rv = st.get('rv')
                if rv and rv['r'] == 'bin' and rv['op'].startswith('Add'):
                    a = rv['a'].get('c') or rv['a'].get('m')
                    if a and len(a) == 1 and b.local_name(a[0]) and b.locals[a[0]] == 'usize':
                        cursors.add(a[0])
        for L in sorted(cursors):
            ldefs = [(bb_, i) for (bb_, i, whole) in b.defs.get(L, []) if whole]
            defblocks = {bb_ for bb_, _ in ldefs}
            events = []   # (bb, idx, line, form)
            def uses_cursor(e):
                from mir import walk
                return any(x[0] == 'local' and x[1] == L for x in walk(e))
            for blk in sorted(b.reach):
                for i, st in enumerate(b.stmts(blk)):
                    rv = st.get('rv')
                    if not rv or st.get('x', '').startswith('m:'):
                        continue
                    # element read through an index projection
                    for key in ('a', 'p'):
                        pl = rv.get(key)
                        if isinstance(pl, dict):
                            pl = pl.get('c') or pl.get('m')
                        if isinstance(pl, list):
                            for pr in pl[1:]:
                                if isinstance(pr, list) and pr and pr[0] == '[]':
                                    e = b.expr_local(pr[1])
                                    if uses_cursor(e) or pr[1] == L:
                                        events.append((blk, i, st.get('ln'), canon(e if pr[1] != L else ('local', L, b.local_name(L)), 0, 2)))
                    # a range starting at the cursor
                    if rv['r'] == 'agg' and (rv.get('adt') or '').endswith(('Range', 'RangeFrom')):
                        e = b._expr_rvalue(rv, 0, frozenset())
                        d_ = dict(e[3])
                        s_ = d_.get('start')
                        if s_ is not None and uses_cursor(s_):
                            events.append((blk, i, st.get('ln'), canon(s_, 0, 2)))
            nreads += len(events)
            for x in events:
                for y in events:
                    if x is y or x[3] != y[3] or x[2] == y[2]:
                        continue
                    if x[0] == y[0]:
                        if x[1] < y[1] and not any(bb_ == x[0] and (i == 't' or x[1] < i < y[1]) for bb_, i in ldefs if bb_ == x[0] and i != 't'):
                            out.append((x[2], y[2], x[3]))
                        continue
                    if any(bb_ == x[0] and (i == 't' or i > x[1]) for bb_, i in ldefs):
                        continue
                    if any(bb_ == y[0] and i != 't' and i < y[1] for bb_, i in ldefs):
                        continue
                    mid = defblocks - {x[0], y[0]}
                    reach = set()
                    for s in b.succ(x[0]):
                        if s not in mid:
                            reach |= b.reachable(s, avoid_blocks=mid | {x[0]}) if s != y[0] else {y[0]}
                    if y[0] in reach:
                        out.append((x[2], y[2], x[3]))
    return sorted(set(out)), nreads


# ---------------------------------------------------------------------------------------------------- HTTP path templates
def _decode_fmt(k):
    """format_args! template of the nightly encoding (length-prefixed literal pieces, bytes >= 0x80 = argument): 'a/{}/b'"""
    import ast
    try:
        bs = ast.literal_eval(k)
    except Exception:
        return None
    out, i = '', 0
    while i < len(bs):
        c = bs[i]
        if c == 0:
            break
        if c >= 0x80:
            out += '{}'
            i += 1
            continue
        out += bs[i + 1:i + 1 + c].decode('utf8', 'replace')
        i += 1 + c
    return out


def http_templates(ctx):
    """({sdk fn: [template]}, {server router fn: [route]}) — SDK path templates built with format! in iggy::http::*, routes
    registered with Router::route in server::http::*"""
    sdk, srv = {}, {}
    for n in sorted(ctx.facts.body_defs()):
        if n.startswith('iggy::http::'):
            raw = ctx.facts.raw_body(n)
            for bl in raw['blocks']:
                for s in bl['s']:
                    a = (s.get('rv') or {}).get('a') or {}
                    if 'k' in a and a.get('ty', '').startswith('&[u8;') and a['k'].startswith('b"'):
                        t = _decode_fmt(a['k'])
                        if t and '/' in t:
                            sdk.setdefault(n, []).append(t)
        elif n.startswith('server::http::'):
            raw = ctx.facts.raw_body(n)
            if not any((bl.get('term') or {}).get('t') == 'call' and ((bl['term'].get('fn') or '').endswith('Router::route')) for bl in raw['blocks']):
                continue
            for bl in raw['blocks']:
                for s in bl['s']:
                    a = (s.get('rv') or {}).get('a') or {}
                    if 'k' in a and a.get('ty') == '&str' and a['k'].startswith('"/'):
                        srv.setdefault(n, []).append(a['k'].strip('"'))
                t = bl.get('term') or {}
                if t.get('t') == 'call':
                    for a in t.get('args', []):
                        if 'k' in a and a.get('ty') == '&str' and a['k'].startswith('"/'):
                            srv.setdefault(n, []).append(a['k'].strip('"'))
    return sdk, srv


def _segs(t):
    t = t.split('?')[0].strip('/')
    out = []
    for s in t.split('/'):
        if s == '{}' or re.match(r'^\{\w+\}$', s):
            out.append('*')
        elif '{' in s:
            out.append('mixed:' + re.sub(r'\{\w*\}', '{}', s))
        else:
            out.append(s)
    return out


def template_matches(t, routes):
    a = _segs(t)
    return any(a == _segs(r) for r in routes)
