"""A11 — wire layouts as width sequences.  A writer's layout is the sequence of fixed widths (1,2,4,8,16) and
variable parts (v) it emits through BufMut::put_* / put_slice / extend; a reader's layout is the sequence of widths it
consumes through uN::from_le_bytes, Buf::get_*, single-byte indexing and from_utf8/to_vec/slice copies.  Both are taken
in source order from the MIR calls; items in mutually exclusive branches are alternatives (collapsed when equal);
helpers of the same codec family are expanded in place."""
import re
from mir import canon

PUT_W = {'put_u8': 1, 'put_u16_le': 2, 'put_u32_le': 4, 'put_u64_le': 8, 'put_u128_le': 16, 'put_f32_le': 4, 'put_f64_le': 8,
         'put_i8': 1, 'put_i16_le': 2, 'put_i32_le': 4, 'put_i64_le': 8, 'put_i128_le': 16, 'put_u16': 2, 'put_u32': 4, 'put_u64': 8}
GET_W = {'get_u8': 1, 'get_u16_le': 2, 'get_u32_le': 4, 'get_u64_le': 8, 'get_u128_le': 16, 'get_f32_le': 4, 'get_f64_le': 8, 'get_i8': 1}
INT_W = {'u8': 1, 'u16': 2, 'u32': 4, 'u64': 8, 'u128': 16, 'f32': 4, 'f64': 8, 'i8': 1, 'i16': 2, 'i32': 4, 'i64': 8, 'i128': 16, 'usize': 8}


def raw_items(ctx, fn, helpers):
    """[(line, bb, token, body)] in source order for fn and its closures"""
    out = []
    defs = [x for x in ctx.facts.body_defs() if x == fn or x.startswith(fn + '::{closure')]
    for dd in sorted(defs):
        b = ctx.body(dd)
        for c in b.calls:
            if c.x.startswith('m:'):
                continue
            decl = c.fn or ''
            last = decl.split('::')[-1]
            if last in PUT_W and 'BufMut' in decl:
                out.append((c.ln, c.bb, str(PUT_W[last]), b))
            elif last in ('put_slice', 'put', 'extend', 'extend_from_slice', 'put_bytes') and ('BufMut' in decl or 'BytesMut' in decl or 'Extend' in decl):
                out.append((c.ln, c.bb, 'v', b))
            elif last == 'from_le_bytes':
                ty = decl.split('::')[-2] if '::' in decl else ''
                out.append((c.ln, c.bb, str(INT_W.get(ty, '?')), b))
            elif last in GET_W and 'Buf' in decl:
                out.append((c.ln, c.bb, str(GET_W[last]), b))
            elif last in ('from_utf8', 'from_utf8_lossy', 'to_vec', 'copy_from_slice', 'copy_to_bytes'):
                out.append((c.ln, c.bb, 'v', b))
            elif c.name in helpers and c.name != fn:
                out.append((c.ln, c.bb, '<' + c.name + '>', b))
        for bb in sorted(b.reach):
            t = b.term(bb)
            if t.get('x', '').startswith('m:'):
                continue
            if t.get('t') == 'assert' and t.get('kind') == 'bounds':
                out.append((t.get('ln'), bb, '1', b))
            if t.get('t') == 'call' and t.get('fn') == 'std::ops::Index::index' and t.get('dest') and b.locals[t['dest'][0]] == '&u8':
                out.append((t.get('ln'), bb, '1', b))
    out.sort(key=lambda x: (x[0] or 0, x[1]))
    return out


def sequence(ctx, fn, helpers, depth=0, seen=()):
    """flattened token list; alternatives in exclusive branches collapsed when equal, otherwise written a|b"""
    items = raw_items(ctx, fn, helpers)
    toks = []
    i = 0
    while i < len(items):
        ln, bb, tok, b = items[i]
        if tok.startswith('<') and depth < 4:
            h = tok[1:-1]
            if h in seen:
                sub = ['<rec>']
            else:
                sub = sequence(ctx, h, helpers, depth + 1, seen + (fn,))
            cur = ['(' + ' '.join(sub) + ')'] if _in_loop(b, bb) else sub
        else:
            cur = [tok]
        # alternatives: following items in blocks mutually unreachable from this one
        j = i + 1
        alts = [cur]
        while j < len(items) and items[j][3] is b and _exclusive(b, bb, items[j][1]) and all(_exclusive(b, items[k][1], items[j][1]) or k == j for k in range(i, j)):
            t2 = items[j][2]
            alts.append([t2] if not t2.startswith('<') else ['(' + ' '.join(sequence(ctx, t2[1:-1], helpers, depth + 1, seen + (fn,))) + ')'])
            j += 1
        if len(alts) > 1:
            uniq = []
            for a in alts:
                if a not in uniq:
                    uniq.append(a)
            group = uniq[0] if len(uniq) == 1 else ['|'.join(sorted(' '.join(a) for a in uniq))]
            # the group is optional unless its branches together cover every path
            if _skippable(b, [items[k][1] for k in range(i, j)]):
                group = [g + '?' for g in group]
            toks += group
            i = j
        else:
            if not tok.startswith('<') and _skippable(b, [bb]):
                cur = [c + '?' for c in cur]
            elif tok.startswith('<') and _skippable(b, [bb]) and not _in_loop(b, bb):
                cur = ['[' + ' '.join(cur) + ']?']
            toks += cur
            i += 1
    return toks


def _skippable(b, blocks):
    """a successful run (one loop iteration, for blocks inside a loop) can avoid all of `blocks`"""
    from lib import natural_loops, ok_exit_blocks
    blocks = set(blocks)
    key = ('skip', tuple(sorted(blocks)))
    cache = b.__dict__.setdefault('_wire_cache', {})
    if key in cache:
        return cache[key]
    loops = [(h, bl) for h, bl in natural_loops(b) if blocks <= bl]
    if loops:
        h, bl = min(loops, key=lambda x: len(x[1]))
        # one iteration: from the successors of the header (inside the loop) back to the header without the blocks
        res = False
        for s in b.succ(h):
            if s in bl and s not in blocks and h in b.reachable(s, avoid_blocks=blocks):
                res = True
    else:
        exits = ok_exit_blocks(b) or {x for x in b.reach if b.term(x).get('t') == 'return'}
        res = bool(exits & b.reachable(0, avoid_blocks=blocks)) and 0 not in blocks
    cache[key] = res
    return res


def _exclusive(b, x, y):
    if x == y:
        return False
    return y not in b.reachable(x) and x not in b.reachable(y)


def _in_loop(b, bb):
    return bb in b.reachable_after(bb)


def norm(seq):
    """normal form for comparison: loop parentheses dropped, runs of v collapsed"""
    s = ' '.join(seq).replace('(', ' ').replace(')', ' ').replace('[', ' ').replace(']?', ' ')
    toks = s.split()
    out = []
    for t in toks:
        if t == 'v' and out and out[-1] == 'v':
            continue
        out.append(t)
    return ' '.join(out)


def count_prefixes(ctx, fn):
    """[(iterated collection, count operand)] for every element-writing loop in writer fn: the nearest put_* that dominates
    the loop and whose operand is a length/count — the reader uses it to know how many elements follow"""
    from lib import natural_loops
    out = []
    defs = [x for x in ctx.facts.body_defs() if x == fn or x.startswith(fn + '::{closure')]
    for dd in sorted(defs):
        b = ctx.body(dd)
        puts = [c for c in b.calls if not c.x.startswith('m:') and (c.fn or '').split('::')[-1] in PUT_W and 'BufMut' in (c.fn or '')]
        for h, bl in natural_loops(b):
            inner = [c for c in b.calls if c.bb in bl and not c.x.startswith('m:') and ((c.fn or '').split('::')[-1] in PUT_W or (c.fn or '').split('::')[-1] in ('put_slice', 'extend', 'put'))]
            if not inner:
                continue
            nexts = [c for c in b.calls if c.bb in bl and (c.fn or '').endswith('Iterator::next')]
            if not nexts:
                continue
            coll = canon(b.pexpr_operand(nexts[0].args[0]), 0, 2)
            dom = [p for p in puts if p.bb not in bl and b.dominates(p.bb, h)]
            if not dom:
                out.append((coll, None))
                continue
            p = max(dom, key=lambda c: len(b.dominators(c.bb)))
            out.append((coll, canon(b.pexpr_operand(p.args[1]), 0, 2)))
    return sorted(out, key=str)
