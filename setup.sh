#!/bin/sh
# Build the fact extractor and pre-warm the dependency metadata + fact cache for /repo's current tree. Offline.
set -e
cd "$(dirname "$0")"
export CARGO_NET_OFFLINE=true
(cd driver && cargo +nightly build --release --offline 2>&1 | tail -2)
python3 rules/facts.py > /dev/null
echo "setup done"
