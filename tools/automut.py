#!/usr/bin/env python3
"""Blind-spot finder for the rules (not a registered check): delete one single-line statement of production code at a
time in a scratch worktree, run all 20 checks, and list the deletions that compile and that no rule reports.  The
survivors are triaged by reading (many are equivalent: logging, metrics, redundant stores); the real ones lead to new
rules.  usage: automut.py <worktree> <out.json> [file-regex] [max] [del|rel]   (rel: replace one relational / boundary
operator instead of deleting a statement)"""
import json, os, re, subprocess, sys, random, concurrent.futures as cf
V = os.path.dirname(os.path.dirname(os.path.abspath(__file__)))
W, OUT = sys.argv[1], sys.argv[2]
FRE = re.compile(sys.argv[3]) if len(sys.argv) > 3 else re.compile('.')
MAX = int(sys.argv[4]) if len(sys.argv) > 4 else 100
MODE = sys.argv[5] if len(sys.argv) > 5 else 'del'
REL = [(' <= ', ' < '), (' < ', ' <= '), (' >= ', ' > '), (' > ', ' >= '), (' == ', ' != '), (' != ', ' == '), (' && ', ' || '), (' || ', ' && '), (' + 1', ''), (' - 1', ''), ('..=', '..')]
ASSIGN = re.compile(r'^\s+(\*?[a-z_][\w\.]*)(\.\w+)+ (=|\+=|-=) [^;]*;\s*$')
CALL = re.compile(r'^\s+[a-z_][\w\.]*\.[a-z_]\w*\([^;]*\)(\.await)?\??;\s*$')
SKIP = re.compile(r'(info|warn|error|debug|trace)!|metrics\.|println|\bassert|sleep\(|\.abort\(|interval')
props = [l.strip() for l in open(V + '/tools/claimed.txt') if l.strip()]
files = subprocess.run(['git', '-C', W, 'ls-files', 'server/src', 'sdk/src'], capture_output=True, text=True).stdout.split()
cands = []
for f in files:
    if not f.endswith('.rs') or not FRE.search(f) or '/cli/' in f or 'bench' in f:
        continue
    lines = open(os.path.join(W, f)).read().split('\n')
    for i, l in enumerate(lines):
        if l.strip().startswith('#[cfg(test)]'):
            break
        if SKIP.search(l) or l.strip().startswith('//') or l.strip().startswith('#['):
            continue
        if MODE == 'del':
            if ASSIGN.match(l) or CALL.match(l):
                cands.append((f, i, l, ''))
        else:
            if '"' in l or '->' in l or '=>' in l and ' if ' not in l or l.strip().startswith(('use ', 'pub fn', 'fn ', 'impl', 'where')) or '<' in l and '>' in l and '::<' in l:
                continue
            for a, b_ in REL:
                if a in l and not (a.strip() in ('<', '>') and re.search(r'<\w|\w>|Vec<|Option<|Arc<|Result<', l)):
                    cands.append((f, i, l, l.replace(a, b_, 1)))
                    break
random.seed(7)
random.shuffle(cands)
res = json.load(open(OUT)) if os.path.exists(OUT) else {}
env = dict(os.environ, VERIF_REPO=W, VERIF_EVIDENCE='/tmp/verif-scratch-ev-auto')
done = 0
for f, i, l, repl in cands:
    key = '%s:%d:%s%s' % (f, i + 1, l.strip(), (' => ' + repl.strip()) if repl else '')
    if key in res:
        continue
    if done >= MAX:
        break
    done += 1
    p = os.path.join(W, f)
    src = open(p).read()
    lines = src.split('\n')
    lines[i] = repl
    open(p, 'w').write('\n'.join(lines))
    try:
        first = subprocess.run([V + '/check', props[0]], capture_output=True, text=True, cwd=V, env=env)
        if 'fact extraction failed' in first.stdout:
            res[key] = {'compiles': False}
            print('NOCOMPILE', key, flush=True)
            continue
        by = [props[0]] if first.returncode == 1 else []
        with cf.ThreadPoolExecutor(6) as ex:
            for pr, r in zip(props[1:], ex.map(lambda pr: subprocess.run([V + '/check', pr], capture_output=True, text=True, cwd=V, env=env).returncode, props[1:])):
                if r == 1:
                    by.append(pr)
        res[key] = {'compiles': True, 'detected_by': by}
        print('DETECTED %s' % by if by else 'SURVIVED', key, flush=True)
    finally:
        open(p, 'w').write(src)
        json.dump(res, open(OUT, 'w'), indent=1, sort_keys=True)
