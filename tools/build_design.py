#!/usr/bin/env python3
"""Assemble DESIGN.md: hand-written parts (tools/design/*.md) + tables generated from evidence/, known_findings.json,
seeded/*/meta.json and mutants/RESULTS.json, so that the numbers in the document are the measured ones."""
import json, os, re
V = '/verif'
D = V + '/tools/design/'
props = {json.loads(l)['id']: json.loads(l) for l in open(V + '/properties.jsonl')}
nd = json.load(open(D + 'notdecided.json'))
res = json.load(open(V + '/mutants/RESULTS.json')) if os.path.exists(V + '/mutants/RESULTS.json') else {}
known = json.load(open(V + '/known_findings.json'))


def esc(s):
    return str(s).replace('|', '\\|')


def rules_section():
    out = []
    for i in range(1, 21):
        p = 'C%02d' % i
        ev = V + '/evidence/%s.json' % p
        out.append('### %s — %s\n' % (p, props[p]['title']))
        if os.path.exists(ev):
            e = json.load(open(ev))
            out.append('Decided (rule modules `rules/props/%s.py`; numbers measured on the fixed tree by the last run):\n' % p.lower())
            out.append('| rule | analysis | instances (floor) | clause |\n|---|---|---|---|')
            for rid, r in e['coverage']['rules'].items():
                out.append('| %s | %s | %d (%s) | %s |' % (rid, esc(r.get('analysis') or ''), r['instances'], r['floor'], esc(r['desc'])))
            out.append('')
        extra = D + 'extra_%s.md' % p
        if os.path.exists(extra):
            out.append(open(extra).read().strip() + '\n')
        out.append(nd.get(p, '') + '\n')
        seeds = sorted(d for d in os.listdir(V + '/seeded') if d.startswith(p))
        if seeds:
            out.append('Seeded changes: ' + '; '.join('`%s` (%s)' % (s, _det(s)) for s in seeds) + '.\n')
    return '\n'.join(out)


def _det(name):
    r = res.get(name)
    if not r:
        return 'not run yet'
    if not r.get('applied'):
        return 'patch no longer applies'
    rules = sorted({v['rule'] for c in r['checks'].values() for v in c['violations']})
    return ('caught by ' + ', '.join(r['detected_by']) + ' [' + ', '.join(rules) + ']') if r['detected_by'] else 'MISSED'


def findings_table():
    out = ['| id | property | what failed (reproduced against the real code) | rule that reports it | handling |', '|---|---|---|---|---|']
    for f in sorted(known['fixed'], key=lambda x: (len(x['finding']), x['finding'])):
        out.append('| %s | %s | %s | %s | fixed by `%s`; reverting it: %s |' % (f['finding'], f['property'], esc(f['what']), f['rule'], f['commit'], _det('revert-' + f['finding'])))
    seen = set()
    for f in known['known']:
        if f['finding'] in seen:
            continue
        seen.add(f['finding'])
        n = sum(1 for x in known['known'] if x['finding'] == f['finding'])
        out.append('| %s | %s | %s | %s | **known finding** (%d constructs listed in known_findings.json) |' % (f['finding'], f['property'], esc(f['what']), f['rule'], n))
    return '\n'.join(out)


def seeds_table():
    out = ['| seed | breaks | change | needs to manifest | detected by (rules) |', '|---|---|---|---|---|']
    for d in sorted(os.listdir(V + '/seeded')):
        m = json.load(open('%s/seeded/%s/meta.json' % (V, d)))
        out.append('| %s | %s | %s | %s | %s |' % (d, m['property'], esc(m['summary'][:220]), esc((m.get('needs') or '')[:200]), _det(d)))
    return '\n'.join(out)


doc = open(D + 'body.md').read()
doc = doc.replace('@@RULES@@', rules_section()).replace('@@FINDINGS@@', findings_table()).replace('@@SEEDS@@', seeds_table())
n_seeds = len(os.listdir(V + '/seeded'))
det = sum(1 for k, r in res.items() if not k.startswith('revert-') and r.get('detected'))
rdet = sum(1 for k, r in res.items() if k.startswith('revert-') and r.get('detected'))
doc = doc.replace('@@NSEEDS@@', str(n_seeds)).replace('@@NSEEDSDET@@', str(det)).replace('@@NREVERT@@', str(sum(1 for k in res if k.startswith('revert-')))).replace('@@NREVERTDET@@', str(rdet))
ben = json.load(open(V + '/benign/RESULTS.json')) if os.path.exists(V + '/benign/RESULTS.json') else {}
doc = doc.replace('@@NBENIGN@@', str(sum(1 for r in ben.values() if r.get('applied')))).replace('@@NBENIGNQUIET@@', str(sum(1 for r in ben.values() if r.get('applied') and not r.get('alarms'))))
doc = doc.replace('@@NFIXED@@', str(len({f['finding'] for f in known['fixed']}))).replace('@@NKNOWN@@', str(len({f['finding'] for f in known['known']})))
open(V + '/DESIGN.md', 'w').write(doc)
print('DESIGN.md written:', len(doc.splitlines()), 'lines')
