#!/usr/bin/env python3
"""confirm_seed.py <worktree> <seed-dir>   (seed-dir has patch.diff demo.diff meta.json)
Confirms in the scratch worktree: (1) demo passes without patch, (2) demo fails with patch,
(3) baseline suite passes with patch only.  Writes <seed-dir>/confirm.json. Leaves the worktree clean."""
import json, os, subprocess, sys, shlex
wt, sd = os.path.abspath(sys.argv[1]), os.path.abspath(sys.argv[2])
meta = json.load(open(os.path.join(sd, 'meta.json')))
env = dict(os.environ, CARGO_NET_OFFLINE='true')

def sh(cmd, **kw):
    return subprocess.run(cmd, shell=True, cwd=wt, env=env, stdout=subprocess.PIPE, stderr=subprocess.STDOUT, text=True, **kw)

def clean():
    sh('git checkout -- . && git clean -fdq -e target')

def demo():
    cmd = meta['demo_cmd']
    if '--offline' not in cmd:
        cmd = cmd.replace('cargo test', 'cargo test --offline', 1)
    cmd = cmd.replace('cd /tmp/wt/%s && ' % meta.get('property', ''), '')
    p = sh(cmd)
    tail = p.stdout[-1500:]
    ran = 'test result:' in p.stdout and ' 0 passed; 0 failed' not in p.stdout.replace('running 0 tests', '')
    return p.returncode, tail

res = {'seed': sd, 'demo_cmd': meta['demo_cmd']}
clean()
a = sh('git apply %s' % shlex.quote(os.path.join(sd, 'demo.diff')))
if a.returncode != 0:
    res['error'] = 'demo.diff does not apply: ' + a.stdout[-500:]
else:
    rc, tail = demo()
    res['demo_without_patch'] = 'pass' if rc == 0 else 'FAIL'
    res['demo_without_patch_tail'] = tail[-600:]
    a = sh('git apply %s' % shlex.quote(os.path.join(sd, 'patch.diff')))
    if a.returncode != 0:
        res['error'] = 'patch.diff does not apply after demo.diff: ' + a.stdout[-500:]
    else:
        rc, tail = demo()
        res['demo_with_patch'] = 'fail' if rc != 0 else 'PASS'
        res['demo_with_patch_tail'] = tail[-900:]
        clean()
        a = sh('git apply %s' % shlex.quote(os.path.join(sd, 'patch.diff')))
        p = subprocess.run([sys.executable, '/verif/tools/run_baseline.py', wt], stdout=subprocess.PIPE, stderr=subprocess.STDOUT, text=True, env=env)
        res['baseline_with_patch'] = p.stdout.strip().splitlines()[-1] if p.stdout.strip() else 'no output'
        if p.returncode != 0:
            res['baseline_detail'] = p.stdout[-1500:]
clean()
res['confirmed'] = (res.get('demo_without_patch') == 'pass' and res.get('demo_with_patch') == 'fail'
                    and res.get('baseline_with_patch', '').startswith('BASELINE OK'))
json.dump(res, open(os.path.join(sd, 'confirm.json'), 'w'), indent=1)
print(json.dumps({k: v for k, v in res.items() if not k.endswith('_tail')}, indent=1))
