#!/usr/bin/env python3
"""Freeze the comparison normal forms of every function of server and sdk on the pinned tree -> rules/cmp_frozen.json
{fn: {"a|b": [canonical comparisons over the operand pair (a, b)]}}.  Re-run only on a tree whose comparisons were read."""
import json, os, sys
V = os.path.dirname(os.path.dirname(os.path.abspath(__file__)))
sys.path.insert(0, V + '/rules')
import engine
from lib import comparison_forms
from facts import ensure_facts
fd, info = ensure_facts(verbose=False)
ctx = engine.Ctx(fd, info)
out = {}
for d in sorted(ctx.facts.fns):
    if not d.lstrip('<').startswith(('server::', 'iggy::')) or not ctx.facts.fns[d].get('has_body'):
        continue
    try:
        got = comparison_forms(ctx, d)
    except Exception as e:
        continue
    if got:
        out[d] = {' @@ '.join(k): sorted(v) for k, v in got.items()}
json.dump(out, open(V + '/rules/cmp_frozen.json', 'w'), indent=0, sort_keys=True)
print(len(out), 'functions,', sum(len(v) for v in out.values()), 'operand pairs')
