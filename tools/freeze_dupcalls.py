#!/usr/bin/env python3
"""Freeze the repeated-call counts (rules/dupcall.py) of the pinned tree -> rules/dupcalls_frozen.json"""
import json, os, sys
V = os.path.dirname(os.path.dirname(os.path.abspath(__file__)))
sys.path.insert(0, V + '/rules')
import engine, dupcall
from facts import ensure_facts
fd, info = ensure_facts(verbose=False)
ctx = engine.Ctx(fd, info)
out = dupcall.collect(ctx)
json.dump(out, open(V + '/rules/dupcalls_frozen.json', 'w'), indent=0, sort_keys=True)
print(len(out), 'functions,', sum(sum(v.values()) for v in out.values()), 'repeated call sites')
