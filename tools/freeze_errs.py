#!/usr/bin/env python3
"""Freeze, per function of server and sdk, the error variants it constructs on the pinned tree -> rules/errs_frozen.json"""
import json, os, sys
V = os.path.dirname(os.path.dirname(os.path.abspath(__file__)))
sys.path.insert(0, V + '/rules')
import engine, errset
from facts import ensure_facts
fd, info = ensure_facts(verbose=False)
ctx = engine.Ctx(fd, info)
out = errset.collect(ctx)
json.dump(out, open(V + '/rules/errs_frozen.json', 'w'), indent=0, sort_keys=True)
print(len(out), 'functions,', sum(len(v) for v in out.values()), 'error constructions')
