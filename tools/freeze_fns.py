#!/usr/bin/env python3
"""Freeze the set of function paths of the reference tree (rules/known_fns.json).  A function that is not in this set
is new to the rule tables and is looked through (rules/inline.py).  Re-run after a reviewed change that adds functions
the tables should name.  usage: freeze_fns.py [facts_dir]"""
import json, os, sys
sys.path.insert(0, '/verif/rules')
os.environ['VERIF_NO_INLINE'] = '1'
import facts
d = sys.argv[1] if len(sys.argv) > 1 else facts.ensure_facts()[0]
F = facts.Facts(d)
names = sorted(F.fns)
fp = {}
for n in names:
    if F.has_raw(n) and '::{' not in n and not n.startswith('<'):
        fp[n] = facts.fingerprint_of(F, n)
json.dump({'names': names, 'fp': fp}, open('/verif/rules/known_fns.json', 'w'), indent=0)
print(len(names), 'functions frozen from', d, '-', len(fp), 'fingerprints')
