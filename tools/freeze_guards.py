#!/usr/bin/env python3
"""Freeze the leave-early conditions (rules/guardpol.py) of every function of server and sdk -> rules/guards_frozen.json"""
import json, os, sys
V = os.path.dirname(os.path.dirname(os.path.abspath(__file__)))
sys.path.insert(0, V + '/rules')
import engine, guardpol
from facts import ensure_facts
fd, info = ensure_facts(verbose=False)
ctx = engine.Ctx(fd, info)
out = guardpol.collect(ctx)
json.dump(out, open(V + '/rules/guards_frozen.json', 'w'), indent=0, sort_keys=True)
print(len(out), 'functions,', sum(len(v) for v in out.values()), 'guards')
