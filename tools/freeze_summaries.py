#!/usr/bin/env python3
"""Freeze the return forms of the small synchronous functions of the pinned tree -> rules/helper_summaries.json
{short name: {def, params, ret}}.  Used only as a fallback when such a helper has been inlined and deleted: a table
form that names the helper is then compared through the helper's pinned return form (forms.expand_gone)."""
import json, os, sys
V = os.path.dirname(os.path.dirname(os.path.abspath(__file__)))
sys.path.insert(0, V + '/rules')
import engine
from mir import canon
from facts import ensure_facts
fd, info = ensure_facts(verbose=False)
ctx = engine.Ctx(fd, info)
out = {}
for d, r in sorted(ctx.facts.fns.items()):
    if not d.startswith(('server::', 'iggy::')) or not r.get('has_body') or r.get('async') or '{' in d or '<' in d:
        continue
    try:
        b = ctx.body(d)
    except Exception:
        continue
    if len(b.reach) > 40 or not r.get('pnames'):
        continue
    ret = canon(b.pexpr_local(0), 0, 4)
    if '$' in ret or '…' in ret or len(ret) > 300 or ret in ('()',):
        continue
    short = '::'.join(d.split('::')[-2:])
    if short in out:
        out[short] = None      # ambiguous short name: not used
        continue
    out[short] = {'def': d, 'params': r['pnames'], 'ret': ret}
out = {k: v for k, v in out.items() if v}
json.dump(out, open(V + '/rules/helper_summaries.json', 'w'), indent=0, sort_keys=True)
print(len(out), 'helper summaries')
