#!/usr/bin/env python3
"""Freeze the reference tables of C13 from the current (pinned, triaged) tree: width sequences of codec pairs that are
not textually equal, count prefixes of element loops, comparison forms of every validate().  Output: rules/props/wire_frozen.json.
Run by hand after a deliberate protocol change; never at check time."""
import json, re, sys
sys.path.insert(0, '/verif/rules')
from engine import *
from lib import *
import wire
from props import c13
d, info = ensure_facts(); ctx = Ctx(d, info)
out = {'pairs': {}, 'count_prefixes': {}, 'validate': {}}
helpers = c13.helper_set(ctx)
for name, w, r in c13.codec_pairs(ctx):
    a = wire.norm(wire.sequence(ctx, w, helpers)); b = wire.norm(wire.sequence(ctx, r, helpers))
    out['pairs'][name] = {'writer': w, 'reader': r, 'mode': 'equal' if a == b else 'frozen', 'w': a, 'r': b}
    nw, nr = wire.named_writer(ctx, w, helpers), wire.named_reader(ctx, r, helpers)
    ok, x, y = wire.named_agreement(nw, nr)
    if x or y:
        out['pairs'][name]['names'] = {'mode': 'equal' if ok else 'frozen', 'w': x, 'r': y}
for fn in c13.writer_fns(ctx):
    cp = wire.count_prefixes(ctx, fn)
    if cp:
        out['count_prefixes'][fn] = cp
for fn in c13.validate_fns(ctx):
    cf = comparison_forms(ctx, fn)
    forms_ = sorted(f for v in cf.values() for f in v)
    if forms_:
        out['validate'][fn] = forms_
json.dump(out, open('/verif/rules/props/wire_frozen.json', 'w'), indent=1, sort_keys=True)
print({k: len(v) for k, v in out.items()}, 'equal pairs:', sum(1 for p in out['pairs'].values() if p['mode'] == 'equal'))
