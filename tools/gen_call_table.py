#!/usr/bin/env python3
"""gen_call_table.py fn callee_suffix [fn callee_suffix ...] — print call-argument forms"""
import sys
sys.path.insert(0, '/verif/rules')
from engine import *
import forms
d, info = ensure_facts(); ctx = Ctx(d, info)
a = sys.argv[1:]
for i in range(0, len(a), 2):
    fn, cal = a[i], a[i + 1]
    print('    %r: {%r: [' % (fn, cal))
    for ln, f, b in forms.call_arg_forms(ctx, fn, cal):
        print('        %r,   # line %s' % (f, ln))
    print('    ]},')
