#!/usr/bin/env python3
"""print a comparison-forms table (python dict literal) for the functions matching the given regexes — used to
freeze rules/props/*_forms.py from the pinned tree; every emitted line is then confirmed by reading."""
import sys, re
sys.path.insert(0, '/verif/rules')
from engine import *
from lib import *
d, info = ensure_facts(); ctx = Ctx(d, info)
SKIP = ('tracing', 'LevelFilter', 'Interest', 'has_been_set', 'log::', 'Level', 'enabled')
print('{')
for pat in sys.argv[1:]:
    for fn in sorted(set(ctx.user_fn_of(x) for x in ctx.defs_matching(re.compile(pat)))):
        if not ctx.has(fn) or '__CALLSITE' in fn:
            continue
        cf = comparison_forms(ctx, fn)
        forms = sorted(f for v in cf.values() for f in v if not any(s in f for s in SKIP))
        if not forms:
            continue
        print('    %r: [' % fn)
        for f in forms:
            print('        %r,' % f)
        print('    ],')
print('}')
