#!/usr/bin/env python3
"""Regenerate MANIFEST.json from the rule modules (claimed set given on the command line or in tools/claimed.txt)."""
GENERIC = (' In addition, over the modules of the property, the generic nets of DESIGN §3.1 (A15-A23): argument selection, field copy by name, '
           'rustc unused-value diagnostics, error discipline, comparison boundaries, guard polarity and short-circuit chains, refusals stay, sibling calls stay distinct '
           '(each one-sided: quiet on refactorings, blind to what its description does not name).')
import importlib, json, os, sys
V = '/verif'
sys.path.insert(0, V + '/rules')
claimed = [l.strip() for l in open(V + '/tools/claimed.txt') if l.strip() and not l.startswith('#')]
NA = json.load(open(V + '/tools/not_applicable.json'))
ids = [json.loads(l)['id'] for l in open(V + '/properties.jsonl')]
checks = []
for pid in ids:
    if pid not in claimed:
        continue
    m = importlib.import_module('props.' + pid.lower())
    checks.append({
        'property_id': pid,
        'quick_cmd': './check %s --tier quick' % pid,
        'thorough_cmd': './check %s --tier thorough' % pid,
        'evidence_file': '/verif/evidence/%s.json' % pid,
        'replay_cmd_template': './check %s --replay {path}' % pid,
        'engine': 'rules',
        'level_claimed': {'category': 'other',
                          'text': 'Static decision of structural necessary conditions of the property on the type-checked program (MIR) of the current tree: ' + m.EXPLANATION + GENERIC,
                          'design_ref': 'DESIGN.md section 4, ' + pid},
        'level_note': 'Trusted base: rustc nightly MIR construction and callee resolution; the rule tables in rules/props/%s.py (confirmed by reading the pinned tree). Assumes: %s. The behavioural core of the property (its quantification over histories/schedules/inputs) is NOT decided, only the listed clauses.' % (pid.lower(), '; '.join(m.ASSUMPTIONS)),
        'technique': 'static analysis: ' + m.TECHNIQUE,
    })
na = [{'property_id': p, 'reason': NA.get(p, 'rule module not built yet; see DESIGN.md section 4')} for p in ids if p not in claimed]
man = {
    'version': 1,
    'setup_cmd': './setup.sh',
    'hooks': {'guard': 'iggy_rs_iggy_verif', 'enable': 'no hooks: the checks read the unmodified sources through a rustc_private driver (RUSTC_WORKSPACE_WRAPPER under cargo +nightly check)',
              'baseline_off_cmd': 'cd /repo && cargo nextest run --workspace --no-fail-fast --tool-config-file pb:/w/lib/nextest.toml --profile pb --test-threads 8 --offline',
              'source_commits': [], 'add_only': True},
    'engines': [
        {'name': 'driver', 'path': 'driver/', 'serves_properties': claimed, 'kind_free_text': 'rustc_private fact extractor: dumps mir_promoted bodies, resolved callees, item/ADT/const facts as JSON'},
        {'name': 'rules', 'path': 'rules/', 'serves_properties': claimed, 'kind_free_text': 'Python rule engine: CFG/dominators, symbolic expressions and normal forms, must-pass-through, guard literals, decision tables, provenance tables'},
    ],
    'checks': checks,
    'notes': 'All checks are static (no iggy code is executed). known_findings.json lists triaged genuine defects (fixed in /repo by fix: commits, or known). seeded/ holds confirmed breaking changes used to test the checkers.',
    'not_applicable': na,
}
json.dump(man, open(V + '/MANIFEST.json', 'w'), indent=1)
print('claimed', claimed, 'not applicable', [x['property_id'] for x in na])
