#!/usr/bin/env python3
"""keep_seed.py <seed-src-dir> <seed-id>: copy a confirmed seeded change into /verif/seeded/<seed-id>/"""
import json, os, shutil, sys
src, sid = sys.argv[1], sys.argv[2]
c = json.load(open(os.path.join(src, 'confirm.json')))
assert c.get('confirmed'), 'not confirmed'
dst = os.path.join('/verif/seeded', sid)
os.makedirs(dst, exist_ok=True)
for f in ('patch.diff', 'demo.diff'):
    shutil.copy(os.path.join(src, f), os.path.join(dst, f))
m = json.load(open(os.path.join(src, 'meta.json')))
m['confirmed_by_me'] = {'ran': ['git apply demo.diff; ' + m['demo_cmd'] + '  -> pass', 'git apply patch.diff; same command -> fail',
                                'patch only: tools/run_baseline.py -> ' + c['baseline_with_patch']],
                        'demo_with_patch_tail': c.get('demo_with_patch_tail', '')[-400:]}
m['needs'] = m.pop('needs_to_manifest', m.get('needs'))
json.dump(m, open(os.path.join(dst, 'meta.json'), 'w'), indent=1)
print('kept', dst)
