#!/usr/bin/env python3
"""Run the repository's pinned test suite in a checkout and compare with BASELINE.json.
usage: run_baseline.py <checkout-dir>
Prints 'BASELINE OK n/n' (exit 0) or the list of baseline tests that no longer pass (exit 1)."""
import json, os, subprocess, sys, xml.etree.ElementTree as ET
d = os.path.abspath(sys.argv[1])
base = json.load(open('/root/.vp/BASELINE.json'))
want = set(base['stable_pass'])
junit = os.path.join(d, 'target', 'nextest', 'pb', 'junit.xml')
if os.path.exists(junit): os.remove(junit)
env = dict(os.environ, CARGO_NET_OFFLINE='true')
p = subprocess.run(['cargo', 'nextest', 'run', '--workspace', '--no-fail-fast', '--tool-config-file', 'pb:/w/lib/nextest.toml',
                    '--profile', 'pb', '--test-threads', '8', '--offline'], cwd=d, env=env,
                   stdout=subprocess.PIPE, stderr=subprocess.STDOUT, text=True)
tail = p.stdout[-3000:]
if not os.path.exists(junit):
    print(tail); print('NO JUNIT OUTPUT (build failed?)'); sys.exit(2)
passed, failed = set(), set()
for tc in ET.parse(junit).getroot().iter('testcase'):
    tid = (tc.get('classname') or '') + '::' + (tc.get('name') or '')
    if tc.find('failure') is not None or tc.find('error') is not None or tc.find('flakyFailure') is not None: failed.add(tid)
    elif tc.find('skipped') is not None: pass
    else: passed.add(tid)
passed -= failed
missing = sorted(want - passed)
if missing:
    print('BASELINE BROKEN: %d of %d baseline tests no longer pass:' % (len(missing), len(want)))
    for m in missing: print('  ', m)
    sys.exit(1)
print('BASELINE OK %d/%d' % (len(want & passed), len(want)))
