#!/usr/bin/env python3
"""False-alarm test: apply every behaviour-preserving refactoring of benign/<set>/ to /repo, run ALL checks, record any
alarm, restore /repo.  Writes benign/RESULTS.json.  usage: run_benign.py <dir-with-diffs> <tag>"""
import json, os, re, subprocess, sys, glob
REPO = os.environ.get('VERIF_REPO', '/repo')
if REPO != '/repo':
    os.environ.setdefault('VERIF_EVIDENCE', '/tmp/verif-scratch-evidence')   # a scratch worktree can stand in for /repo (the checks honour VERIF_REPO too)
V = os.path.dirname(os.path.dirname(os.path.abspath(__file__)))   # runs from a snapshot of /verif too
src, tag = sys.argv[1], sys.argv[2]
props = [l.strip() for l in open(V + '/tools/claimed.txt') if l.strip()]
res_path = V + '/benign/RESULTS.json'
os.makedirs(V + '/benign/' + tag, exist_ok=True)
results = json.load(open(res_path)) if os.path.exists(res_path) else {}
assert subprocess.run(['git', '-C', REPO, 'status', '--porcelain', '--untracked-files=no'], capture_output=True, text=True).stdout.strip() == '', '/repo has local changes'
for p in sorted(glob.glob(src + '/benign-*.diff')):
    name = tag + '/' + os.path.basename(p)
    subprocess.run(['cp', p, V + '/benign/' + name])
    a = subprocess.run(['git', '-C', REPO, 'apply', p], capture_output=True, text=True)
    if a.returncode != 0:
        results[name] = {'applied': False, 'error': a.stderr[-200:]}
        print(name, 'DOES NOT APPLY'); continue
    try:
        alarms = {}
        import concurrent.futures as cf
        run_ = lambda pr: subprocess.run([V + '/check', pr], capture_output=True, text=True, cwd=V)
        first = run_(props[0])   # extracts the facts of this tree once; the others reuse them
        with cf.ThreadPoolExecutor(int(os.environ.get('VERIF_JOBS', '6'))) as ex:
            rest = list(ex.map(run_, props[1:]))
        for pr, c in zip(props, [first] + rest):
            if c.returncode != 0:
                viol = re.findall(r'^\s+rule (\S+) .*\n\s+function: (.*)\n\s+instance: (.*)(?:\n\s+site: .*)?\n\s+detail:\s+(.*)', c.stdout, re.M)
                alarms[pr] = [{'rule': a_, 'fn': b_.strip(), 'instance': i_.strip(), 'detail': d_.strip()[:300]} for a_, b_, i_, d_ in viol] or [{'rule': '?', 'detail': c.stdout[-300:]}]
        results[name] = {'applied': True, 'alarms': alarms}
        print(name, 'ALARMS: %s' % {k: [(v.get('rule'), v.get('instance', '')[:60]) for v in vs] for k, vs in alarms.items()} if alarms else 'quiet')
    finally:
        subprocess.run(['git', '-C', REPO, 'checkout', '--', '.'], check=True)
        cur = json.load(open(res_path)) if os.path.exists(res_path) else {}   # merge: several runners may work on different sets
        if name in results:
            cur[name] = results[name]
        json.dump(cur, open(res_path, 'w'), indent=1, sort_keys=True)
if os.path.exists(src + '/index.json'):
    subprocess.run(['cp', src + '/index.json', V + '/benign/' + tag + '/index.json'])
