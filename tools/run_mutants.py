#!/usr/bin/env python3
"""Checker self-test: apply every kept breaking change (seeded/<id>/patch.diff forward, mutants/revert-<F>.diff backward =
the original defect) to /repo, run the checks of the property it breaks, require a VIOLATION that is not a known finding,
and always restore /repo.  Writes mutants/RESULTS.json.  usage: run_mutants.py [filter]"""
import json, os, re, subprocess, sys, time
REPO = os.environ.get('VERIF_REPO', '/repo')
if REPO != '/repo':
    os.environ.setdefault('VERIF_EVIDENCE', '/tmp/verif-scratch-evidence')   # a scratch worktree can stand in for /repo (the checks honour VERIF_REPO too)
V = os.path.dirname(os.path.dirname(os.path.abspath(__file__)))   # runs from a snapshot of /verif too
flt = sys.argv[1] if len(sys.argv) > 1 else ''
known = json.load(open(V + '/known_findings.json'))
cases = []
for d in sorted(os.listdir(V + '/seeded')):
    m = json.load(open('%s/seeded/%s/meta.json' % (V, d)))
    cases.append((d, '%s/seeded/%s/patch.diff' % (V, d), False, [m['property']]))
for f in known['fixed']:
    fwd = '%s/mutants/revert-%s.diff.fwd' % (V, f['finding'])   # re-created by hand where a later fix touched the same lines
    if os.path.exists(fwd):
        cases.append(('revert-' + f['finding'], fwd, False, [f['property']]))
    else:
        cases.append(('revert-' + f['finding'], '%s/mutants/revert-%s.diff' % (V, f['finding']), True, [f['property']]))
# a change may break clauses shared by several properties: also run these
EXTRA = {'C02-B': ['C03', 'C04'], 'C03-B': ['C02', 'C04'], 'C04-A': ['C02'], 'C04-B': ['C03', 'C01'], 'C05-A': ['C11'], 'C10-A': ['C05'], 'C12-B': ['C02'], 'C15-B': ['C14'],
         'revert-F9': ['C12'], 'revert-F16': ['C04'], 'revert-F8': ['C03', 'C14'], 'revert-F6': ['C04'], 'revert-F14': ['C09'], 'revert-F11c': ['C04']}
results = {}
if os.path.exists(V + '/mutants/RESULTS.json'):
    results = json.load(open(V + '/mutants/RESULTS.json'))
assert subprocess.run(['git', '-C', REPO, 'status', '--porcelain', '--untracked-files=no'], capture_output=True, text=True).stdout.strip() == '', '/repo has local changes'
for name, patch, reverse, props in cases:
    if flt and flt not in name:
        continue
    cmd = ['git', '-C', REPO, 'apply'] + (['-R'] if reverse else []) + [patch]
    a = subprocess.run(cmd, capture_output=True, text=True)
    if a.returncode != 0:
        results[name] = {'applied': False, 'error': a.stderr[-300:]}
        print(name, 'DOES NOT APPLY')
        continue
    try:
        r = {'applied': True, 'checks': {}}
        for p in props + EXTRA.get(name, []):
            t0 = time.time()
            c = subprocess.run([V + '/check', p], capture_output=True, text=True, cwd=V)
            viol = re.findall(r'^\s+rule (\S+) .*\n\s+function: (.*)\n\s+instance: (.*)', c.stdout, re.M)
            r['checks'][p] = {'exit': c.returncode, 'violations': [{'rule': a_, 'fn': b_.strip(), 'instance': i_.strip()} for a_, b_, i_ in viol], 'wall_s': round(time.time() - t0, 1)}
        r['detected_by'] = sorted(p for p, v in r['checks'].items() if v['exit'] == 1)
        r['detected'] = props[0] in r['detected_by']
        results[name] = r
        print(name, 'detected by', r['detected_by'], '' if r['detected'] else '   <<<<<< MISSED by ' + props[0])
    finally:
        subprocess.run(['git', '-C', REPO, 'checkout', '--', '.'], check=True)
        json.dump(results, open(V + '/mutants/RESULTS.json', 'w'), indent=1, sort_keys=True)
# restore evidence for the unchanged tree
print('done; remember to re-run the checks on the unchanged tree to rewrite evidence')
