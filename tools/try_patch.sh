#!/bin/sh
# try_patch.sh <patch.diff> <Cxx> [Cyy ...] : apply a patch to /repo, run the checks, always revert.
P=$1; shift
git -C /repo apply "$P" || { echo "patch does not apply"; exit 2; }
for c in "$@"; do
  /verif/check $c > /tmp/try_$c.log 2>&1; rc=$?
  echo "== $c exit=$rc: $(grep -c '^VIOLATION' /tmp/try_$c.log) violations"
  grep -E "^\s+(function|instance|detail):" /tmp/try_$c.log | paste - - - | cut -c1-330
done
git -C /repo checkout -- . ; git -C /repo status --short | head -3
