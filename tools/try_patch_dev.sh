#!/bin/sh
# try_patch_dev.sh <patch.diff> <Cxx> [Cyy ...] : like try_patch.sh, but in the scratch worktree /tmp/wt/dev (VERIF_REPO) so /repo stays untouched
P=$1; shift
W=${DEVWT:-/tmp/wt/dev}
git -C $W checkout -- . ; git -C $W apply "$P" || { echo "patch does not apply"; exit 2; }
for c in "$@"; do
  VERIF_EVIDENCE=/tmp/verif-scratch-evidence VERIF_REPO=$W /verif/check $c > /tmp/tryd_$c.log 2>&1; rc=$?
  echo "== $c exit=$rc: $(grep -c '^VIOLATION' /tmp/tryd_$c.log) violations"
  grep -E "^\s+(rule|function|instance|detail)" /tmp/tryd_$c.log | paste - - - - | cut -c1-400
done
git -C $W checkout -- . ; git -C $W status --short | head -3
