#!/usr/bin/env python3
"""verify_fix.py <worktree> <defect-dir>  (defect-dir has repro.diff fix.diff report.json)
Checks in the scratch worktree: repro fails on the unchanged tree, passes with fix.diff, baseline passes with the fix only.
Writes <defect-dir>/verify.json."""
import json, os, shlex, subprocess, sys
wt, dd = os.path.abspath(sys.argv[1]), os.path.abspath(sys.argv[2])
rep = json.load(open(os.path.join(dd, 'report.json')))
env = dict(os.environ, CARGO_NET_OFFLINE='true', CARGO_INCREMENTAL='0')

def sh(cmd):
    return subprocess.run(cmd, shell=True, cwd=wt, env=env, stdout=subprocess.PIPE, stderr=subprocess.STDOUT, text=True)

def clean():
    sh('git checkout -- . && git clean -fdq -e target')

def repro():
    cmd = rep['repro_cmd']
    cmd = cmd.replace('CARGO_INCREMENTAL=0 ', '')
    if cmd.startswith('cd '):
        cmd = cmd.split('&&', 1)[1].strip()
    p = sh(cmd)
    return p.returncode, p.stdout[-1200:]

res = {'defect': rep.get('id'), 'repro_cmd': rep['repro_cmd']}
clean()
a = sh('git apply %s' % shlex.quote(os.path.join(dd, 'repro.diff')))
if a.returncode != 0:
    res['error'] = 'repro.diff does not apply: ' + a.stdout[-400:]
else:
    rc, tail = repro()
    res['repro_unfixed'] = 'fail' if rc != 0 else 'PASS'
    res['repro_unfixed_tail'] = tail[-800:]
    if os.path.exists(os.path.join(dd, 'fix.diff')):
        a = sh('git apply %s' % shlex.quote(os.path.join(dd, 'fix.diff')))
        if a.returncode != 0:
            res['error'] = 'fix.diff does not apply: ' + a.stdout[-400:]
        else:
            rc, tail = repro()
            res['repro_fixed'] = 'pass' if rc == 0 else 'FAIL'
            res['repro_fixed_tail'] = tail[-500:]
            clean()
            sh('git apply %s' % shlex.quote(os.path.join(dd, 'fix.diff')))
            p = subprocess.run([sys.executable, '/verif/tools/run_baseline.py', wt], stdout=subprocess.PIPE, stderr=subprocess.STDOUT, text=True, env=env)
            res['baseline_with_fix'] = p.stdout.strip().splitlines()[-1] if p.stdout.strip() else 'no output'
clean()
res['verified'] = res.get('repro_unfixed') == 'fail' and res.get('repro_fixed', 'pass') == 'pass' and res.get('baseline_with_fix', 'BASELINE OK').startswith('BASELINE OK')
json.dump(res, open(os.path.join(dd, 'verify.json'), 'w'), indent=1)
print(json.dumps({k: v for k, v in res.items() if not k.endswith('_tail')}, indent=1))
